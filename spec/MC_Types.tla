------------------------------ MODULE MC_Types ------------------------------
(***************************************************************************)
(* Bounded model of a client of the type-string API (C11).                 *)
(*   Select(o)  pick an object of the reachable attribute product          *)
(*   Tsn(f)     hwloc_obj_type_snprintf(o, f) at every size, then sscanf   *)
(*   Asn(f,s)   hwloc_obj_attr_snprintf(o, separator s, f) at every size   *)
(*   Var(v)     hwloc_type_sscanf of a variant of the printed text         *)
(*   TStr(t)    hwloc_obj_type_string(t), then sscanf                      *)
(*   Cmp(a,b)   hwloc_compare_types(a, b);   Kinds(t)  the kind predicates *)
(* The calls are answered by the reference implementation of Types.tla;    *)
(* the invariants say that it satisfies the relations of the property      *)
(* (so they are satisfiable together), and every transition is printed as  *)
(* a behaviour to be replayed on the real library.                         *)
(***************************************************************************)
EXTENDS Types, Json

CONSTANTS G,            \* number of nested Group levels
          UnkChoices,   \* sets of unnamed OS-device type bits
          TsnFlags,     \* flag words given to type_snprintf
          AsnFlags,     \* flag words given to attr_snprintf
          Seps,         \* separator codes given to attr_snprintf
          VarFlags,     \* flag words after which text variants are scanned
          MaxCut        \* longest prefix tried by the "cut" variants
VARIABLES sel, out, hist

Dom  == Domain(G, UnkChoices)
None == Obj(-1)
Idle == [k |-> "idle"]

Init == sel = None /\ out = Idle /\ hist = <<>>

Select(o) == /\ hist = <<>>
             /\ sel' = o /\ out' = Idle
             /\ hist' = <<[a |-> "sel", o |-> o]>>

Tsn(f) == /\ Len(hist) = 1 /\ sel # None
          /\ LET text == PrintM(sel, f) IN
             out' = [k |-> "tsn", f |-> f, text |-> text, scan |-> ParseM(text)]
          /\ hist' = Append(hist, [a |-> "tsn", f |-> f])
          /\ UNCHANGED sel

\* OS devices have no attribute text of their own (only info attributes): a few of them are enough
FewTypes(o) == o.type # OSDEV \/ Cardinality(o.os) <= 1
Asn(f, s) == /\ Len(hist) = 1 /\ sel # None /\ FewTypes(sel)
             /\ out' = [k |-> "asn", f |-> f, sep |-> s]
             /\ hist' = Append(hist, [a |-> "asn", f |-> f, sep |-> s])
             /\ UNCHANGED sel

\* variants of a printed text: the documentation promises case-insensitive matching and that
\* only the first letters are required; suffixes such as ":0" or an index are what the tools append
VariantText(text, v) ==
    CASE v[1] = "upper" -> UpperStr(text)
      [] v[1] = "lower" -> LowerStr(text)
      [] v[1] = "colon" -> text \o ":0"
      [] v[1] = "digit" -> text \o "7"
      [] v[1] = "junk"  -> text \o "_?"
      [] v[1] = "cut"   -> SubSeq(text, 1, v[2])
Variants(text) == {<<"upper", 0>>, <<"lower", 0>>, <<"colon", 0>>, <<"digit", 0>>, <<"junk", 0>>}
                  \cup {<<"cut", n>> : n \in 0..Min(MaxCut, Len(text) - 1)}
Var(v) == /\ Len(hist) = 2 /\ out.k = "tsn" /\ out.f \in VarFlags
          /\ (sel.type # OSDEV \/ Cardinality(sel.os) <= 2 \/ sel.os = KnownOsBits)
          /\ v \in Variants(out.text)
          /\ LET t == VariantText(out.text, v) IN
             out' = [k |-> "var", v |-> v[1], text |-> t, scan |-> ParseM(t), base |-> out.scan]
          /\ hist' = Append(hist, [a |-> "var", v |-> v[1], s |-> VariantText(out.text, v)])
          /\ UNCHANGED sel

TStr(t) == /\ hist = <<>>
           /\ out' = [k |-> "tstr", t |-> t, text |-> TypeStringM(t), scan |-> ParseM(TypeStringM(t))]
           /\ hist' = <<[a |-> "tstr", t |-> t]>>
           /\ UNCHANGED sel

Cmp(a, b) == /\ hist = <<>>
             /\ out' = [k |-> "cmp", a |-> a, b |-> b, r |-> CmpM(a, b), q |-> CmpM(b, a)]
             /\ hist' = <<[a |-> "cmp", x |-> a, y |-> b]>>
             /\ UNCHANGED sel

Kinds(t) == /\ hist = <<>>
            /\ out' = [k |-> "kinds", t |-> t, kinds |-> KindsM(t)]
            /\ hist' = <<[a |-> "kinds", t |-> t]>>
            /\ UNCHANGED sel

Next == \/ \E o \in Dom : Select(o)
        \/ \E f \in TsnFlags : Tsn(f)
        \/ \E f \in AsnFlags, s \in Seps : Asn(f, s)
        \/ \E v \in {"upper", "lower", "colon", "digit", "junk", "cut"} \X (0..MaxCut) : Var(v)
        \/ \E t \in -1..20 : TStr(t)
        \/ \E a \in TypeIds, b \in TypeIds : Cmp(a, b)
        \/ \E t \in TypeIds : Kinds(t)

Spec == Init /\ [][Next]_<<sel, out, hist>>
View == <<sel, out>>

---------------------------------------------------------------------------
(* the reference implementation satisfies the relations of the property *)
NoShort(f) == ~Has(f, F_SHORT_NAMES)
InvRoundTrip  == (out.k = "tsn" /\ NoShort(out.f)) => RoundTripRel(sel, out.scan)
\* with SHORT_NAMES the type still parses back, and an OS device keeps one of its types (tests/hwloc/hwloc_type_sscanf.c)
InvShortNames == (out.k = "tsn" /\ ~NoShort(out.f)) =>
                   /\ out.scan.rc = 0 /\ out.scan.type = sel.type
                   /\ sel.type = OSDEV => /\ out.scan.os \subseteq sel.os
                                          /\ (sel.os \cap KnownOsBits = {}) = (out.scan.os = {})
InvSnprintf   == out.k = "tsn" => /\ NullRel(out.text, RefCall(out.text, 0).ret)
                                  /\ \A s \in 0..(Len(out.text) + 1) : SnprintfRel(out.text, RefCall(out.text, s))
InvTypeString == (out.k = "tstr" /\ out.t \in TypeIds) => TypeStringRel(out.t, out.scan)
InvCase       == (out.k = "var" /\ out.v \in {"upper", "lower"}) => out.scan = out.base
InvSuffix     == (out.k = "var" /\ out.v \in {"colon", "junk"}) => (out.scan.rc = 0 /\ out.scan.type = out.base.type)
InvWeakScan   == out.k = "var" => WeakScanRel(out.scan)
InvCmp        == out.k = "cmp" =>
                   /\ CmpOneRel(out.a, out.b, out.r, UNORDERED, Kind(out.a) = "normal", Kind(out.b) = "normal")
                   /\ CmpAntisym(out.r, out.q, UNORDERED)
InvKinds      == out.k = "kinds" => KindsRel(out.t, out.kinds)
TypeOK        == sel \in Dom \cup {None} /\ Len(hist) <= 3

\* objects that hwloc puts in one level (same type, same Group depth; caches of one level are
\* assumed to have one cache type) print the same text, whatever the flags
SameLevelM(o1, o2) == /\ o1.type = o2.type /\ o1.type \notin {BRIDGE, OSDEV}
                      /\ o1.type = GROUP => o1.gd = o2.gd
                      /\ IsCache(o1.type) => o1.ct = o2.ct
ASSUME LevelUniformM == \A o1 \in Dom, o2 \in Dom : SameLevelM(o1, o2) => \A f \in TsnFlags : PrintM(o1, f) = PrintM(o2, f)
\* the order table is a permutation and the reference comparison is transitive on normal types
ASSUME OrderPermutation == {TypeOrder[i] : i \in 1..20} = 0..19
ASSUME CmpTransitiveM == \A a \in TypeIds, b \in TypeIds, c \in TypeIds :
           (Kind(a) = "normal" /\ Kind(b) = "normal" /\ Kind(c) = "normal" /\ CmpM(a, b) < 0 /\ CmpM(b, c) < 0) => CmpM(a, c) < 0

EmitEdge == PrintT(<<"EDGE", ToJson(hist')>>)
=============================================================================
