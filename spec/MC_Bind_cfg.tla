---------------------------- MODULE MC_Bind_cfg ----------------------------
(* Example configurations for MC_Bind (tools/props/c10.py generates the real ones):                *)
(* a synthetic "node:2 pu:2" topology with dummy hooks and the same with IS_THISSYSTEM (OS hooks). *)
EXTENDS Integers
Demo(ts, ops, threads, onlyinit) ==
  [TS |-> ts, CS |-> {1, 2, 3, 4}, CC |-> {1, 2, 3, 4}, CA |-> {1, 2, 3, 4}, NS |-> {1, 2}, NC |-> {1, 2}, NA |-> {1, 2},
   NodesC |-> {[os |-> 1, cpus |-> {1, 2}], [os |-> 2, cpus |-> {3, 4}]},
   Hooks |-> IF ts THEN {"set_thisproc_cpubind", "get_thisproc_cpubind", "set_proc_cpubind", "get_proc_cpubind",
                         "set_thisthread_cpubind", "get_thisthread_cpubind", "set_thread_cpubind", "get_thread_cpubind",
                         "get_thisproc_last_cpu_location", "get_proc_last_cpu_location", "get_thisthread_last_cpu_location",
                         "set_thisthread_membind", "get_thisthread_membind", "set_area_membind", "get_area_membind",
                         "alloc_membind", "get_area_memlocation",
                         "firsttouch_membind", "bind_membind", "interleave_membind", "weighted_interleave_membind",
                         "migrate_membind"} ELSE {},
   KAllowed |-> {1, 2, 3, 4, 9}, KMems |-> {1}, ThreadsC |-> threads, Ops |-> ops,
   CpuFam |-> SUBSET {1, 2, 7, 8}, NodeFam |-> SUBSET {1, 2, 7}, CpuFlagsC |-> 0..16, MemFlagsC |-> {0, 1, 2, 32, 33, 34, 36, 64},
   Pols |-> -1..6, Lens |-> {0, 1}, LoadComps |-> {"x86"}, OnlyInit |-> onlyinit, Twin |-> ~onlyinit]
CpuOps == {"set_cpubind", "get_cpubind", "set_proc_cpubind", "get_proc_cpubind", "set_thread_cpubind", "get_thread_cpubind",
           "get_last_cpu_location", "get_proc_last_cpu_location"}
MemOps == {"set_membind", "get_membind", "set_proc_membind", "get_proc_membind", "set_area_membind", "get_area_membind",
           "get_area_memlocation", "alloc_membind"}
Cfgs == [dummy_all |-> Demo(FALSE, CpuOps \cup MemOps, {"main"}, TRUE),
         os_cpu    |-> Demo(TRUE, CpuOps \cup {"load"}, {"main", "helper"}, FALSE),
         os_mem    |-> Demo(TRUE, MemOps, {"main"}, FALSE)]
=============================================================================
