SPECIFICATION Spec
VIEW View
INVARIANTS TypeOK ForeignInert AffLegal
ACTION_CONSTRAINT StepChecks
CHECK_DEADLOCK FALSE
