---------------------------- MODULE MC_BindShape ----------------------------
(***************************************************************************)
(* C10 - the SHAPE dimension of the topologies the binding model runs on.  *)
(* The oracle (Bind.tla) goes through set identities that hold on ordinary *)
(* machines and fail on others: topology = complete cpuset / nodeset,      *)
(* "every NUMA node has PUs" (hwloc_cpuset_to_nodeset of the whole cpuset  *)
(* is the whole nodeset), "every PU has a local node".  This model         *)
(* enumerates every way of allowing PUs and NUMA nodes of a base machine   *)
(* "node:K pu:P" (what hwloc_topology_allow(CUSTOM) + XML export + import  *)
(* without INCLUDE_DISALLOWED builds: disallowed objects are dropped, a    *)
(* node whose PUs are all dropped stays as a CPU-less node), classifies    *)
(* the resulting topology with BindClasses!ShapeSig and emits one          *)
(* representative (the one keeping most PUs and nodes) of every class.     *)
(* tools/props/c10.py builds each representative with the real library and *)
(* hands what the library shows to MC_Bind as one more topology kind.      *)
(* Generation only: what the library really built is what is validated.    *)
(***************************************************************************)
EXTENDS BindClasses, TLC, Json

CONSTANTS K,      \* NUMA nodes of the base machine
          P       \* PUs per node

PUs       == 0 .. K * P - 1
BaseNodes == 0 .. K - 1
PUsOf(n)  == n * P .. n * P + P - 1

VARIABLES ac, an   \* allowed PUs, allowed nodes

Shape(c, n) == [ts |-> TRUE, cs |-> c, cc |-> PUs, ca |-> c, ns |-> n, nc |-> BaseNodes, na |-> n,
                nodes |-> {[os |-> m, cpus |-> PUsOf(m) \cap c] : m \in n},
                hooks |-> {}, kallowed |-> {}, kmems |-> {}]
Sig(c, n) == ShapeSig(Shape(c, n))

Pairs == (SUBSET PUs \ {{}}) \X (SUBSET BaseNodes \ {{}})
Weight(p) == Cardinality(p[1]) + Cardinality(p[2])
\* the representative of a class: most PUs + nodes kept, then the first in TLC's order
Rep(g) == LET C == {p \in Pairs : Sig(p[1], p[2]) = g}
          IN CHOOSE p \in C : \A q \in C : Weight(p) >= Weight(q)
ShapeReps == {Rep(g) : g \in {Sig(p[1], p[2]) : p \in Pairs}}

Init == \E p \in ShapeReps : ac = p[1] /\ an = p[2]
Next == UNCHANGED <<ac, an>>
Spec == Init /\ [][Next]_<<ac, an>>

B(b) == IF b THEN 1 ELSE 0
Emit == PrintT(<<"SHAPE", ToJson([sig |-> [i \in 1..Len(Sig(ac, an)) |-> B(Sig(ac, an)[i])], ac |-> ac, an |-> an])>>)
=============================================================================
