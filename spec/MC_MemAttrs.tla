---------------------------- MODULE MC_MemAttrs ----------------------------
(***************************************************************************)
(* Bounded model of the memory attribute API over one small topology.      *)
(* The constructive model of memattrs.c (impl) and the abstract reference  *)
(* state (S) advance in lockstep, one action per public entry point; the   *)
(* invariants say that everything the constructive model answers satisfies *)
(* the relations of the property.  Behaviours (operation histories) are    *)
(* printed for replay on the real library: one per striped state-graph     *)
(* edge / state in BFS mode, one per random walk in simulation mode.       *)
(* The topology side of restrict (which PUs, nodes, objects remain) is a   *)
(* steering model only; the trace specification takes it from the log.     *)
(***************************************************************************)
EXTENDS MemAttrs, Json

CONSTANTS
  PU0,        \* set of PUs
  NodeSeq,    \* NUMA node identifiers in level order
  NodeOs,     \* node id -> OS index
  NodeCpus,   \* node id -> cpuset
  NodeMem,    \* node id -> local memory (limbs)
  ObjIds,     \* the other declared objects
  ObjCpus,    \* object id -> cpuset
  ObjNodes,   \* object id -> NUMA nodes attached below it (they keep it alive when it has no PU left)
  CSets,      \* cpusets used as query initiators
  InitUser,   \* attributes registered in the preamble: sequence of [name, flags]
  RegOps,     \* set of <<name, flag word>> for register()
  SetAttrs, SetTargets, SetInis, SetVals, SetFlags,     \* alphabet of set_value()
  TopoOps,    \* set of [op, by, set, flags]: restrict / dup / dupdrop / xml
  ObsAttrs,   \* attribute names the invariants (and the recorder) observe
  MaxReg, MaxSet, MaxTopo, MaxTouch, MaxLen,
  NStripes, Stripe, SimLen

VARIABLES S, impl, cnt, ok, hist, hh

vars == <<S, impl, cnt, ok, hist, hh>>
View == <<S, impl, cnt, ok>>

(* ---------------- topology (steering) ---------------- *)
AllNodes == ToSet(NodeSeq)
ObjPresent(o, pus, nodes) == ObjCpus[o] \cap pus # {} \/ ObjNodes[o] \cap nodes # {}
MkTopo(pus, nodes) ==
  [pus |-> pus, nodes |-> nodes,
   ncpus |-> [n \in nodes |-> NodeCpus[n] \cap pus],
   nmem |-> [n \in nodes |-> NodeMem[n]],
   objs |-> {o \in ObjIds : ObjPresent(o, pus, nodes)},
   ocpus |-> [o \in ObjIds |-> ObjCpus[o] \cap pus],
   ohas |-> [o \in ObjIds |-> TRUE]]
NodeSeqOf(topo) == SelectSeq(NodeSeq, LAMBDA n : n \in topo.nodes)

\* hwloc_topology_restrict() on the sets: [ret, pus, nodes]
RestrictSets(topo, op) ==
  LET fail == [ret |-> -1, pus |-> topo.pus, nodes |-> topo.nodes] IN
  IF op.by = "c" THEN
     LET pus2 == topo.pus \cap op.set
         drop == IF op.flags = 1 THEN {n \in topo.nodes : topo.ncpus[n] \cap op.set = {}} ELSE {}
     IN IF op.flags \notin {0, 1} \/ pus2 = {} \/ drop = topo.nodes THEN fail
        ELSE [ret |-> 0, pus |-> pus2, nodes |-> topo.nodes \ drop]
  ELSE
     LET nodes2 == {n \in topo.nodes : NodeOs[n] \in op.set}
         dpus == IF op.flags = 24 THEN {p \in topo.pus : \A n \in nodes2 : p \notin topo.ncpus[n]} ELSE {}
     IN IF op.flags \notin {8, 24} \/ nodes2 = {} \/ dpus = topo.pus THEN fail
        ELSE [ret |-> 0, pus |-> topo.pus \ dpus, nodes |-> nodes2]

(* ---------------- initial state ---------------- *)
RECURSIVE RegAll(_, _)
RegAll(im, us) == IF us = <<>> THEN im ELSE RegAll(IRegister(im, Head(us).name, VInt(Head(us).flags)).impl, Tail(us))
Init ==
  /\ S = [topo |-> MkTopo(PU0, AllNodes),
          user |-> [i \in DOMAIN InitUser |-> [name |-> InitUser[i].name, flags |-> VInt(InitUser[i].flags)]],
          ref |-> {}, weak |-> {}, pool |-> {}]
  /\ impl = RegAll(ImplInit, InitUser)
  /\ cnt = [reg |-> 0, set |-> 0, topo |-> 0, touch |-> 0]
  /\ ok = TRUE
  /\ hist = <<>>
  /\ hh = 0

Total == cnt.reg + cnt.set + cnt.topo + cnt.touch
Step(code, h) == /\ Total < MaxLen
                 /\ hist' = Append(hist, h)
                 /\ hh' = (hh * 31 + code) % 1000003

(* ---------------- actions: one per entry point ---------------- *)
Register(name, w) ==
  LET f == VInt(w)   r == IRegister(impl, name, f) IN
  /\ cnt.reg < MaxReg
  /\ Step(w + 7 * Len(name), <<"reg", name, w>>)
  /\ impl' = r.impl
  /\ ok' = (ok /\ RegisterOK(S, name, f, r.ret, r.errno, r.id))
  /\ S' = IF r.ret = 0 THEN RegisterApply(S, name, f) ELSE S
  /\ cnt' = [cnt EXCEPT !.reg = @ + 1]

SetValue(a, t, q, v, qf) ==
  LET r == ISetValue(S.topo, impl, a, t, q, v, qf)   ai == AttrInfo(S.user, a) IN
  /\ cnt.set < MaxSet
  /\ HasObj(S.topo, t)
  /\ q.k = "o" => HasObj(S.topo, q.o)
  /\ Step(Len(a) + 3 * Len(t) + 5 * v[3] + 11 * Cardinality(q.s) + 13 * Len(q.o) + 17 * Len(q.k) + qf, <<"set", a, t, q, v, qf>>)
  /\ impl' = r.impl
  /\ ok' = (ok /\ SetRetOK(S, ai, a, t, q, qf, r.ret, r.errno))
  /\ S' = IF r.ret = 0 THEN SetApply(S, ai, a, t, q, v) ELSE S
  /\ cnt' = [cnt EXCEPT !.set = @ + 1]

Restrict(op) ==
  LET r == RestrictSets(S.topo, op)   topo2 == MkTopo(r.pus, r.nodes) IN
  /\ Step(19 + Cardinality(op.set) * 23 + op.flags, <<"restrict", op.by, op.set, op.flags>>)
  /\ impl' = IF r.ret = 0 THEN IInvalidate(impl) ELSE impl
  /\ ok' = (ok /\ (r.ret = 0 => RestrictTopoOK(S.topo, topo2)))
  /\ S' = IF r.ret = 0 THEN RestrictApply(S, topo2) ELSE S

Dup(op) ==
  /\ Step(29 + Len(op.op), <<op.op>>)
  /\ impl' = IF op.op = "dup" THEN [i \in DOMAIN impl |-> [impl[i] EXCEPT !.valid = FALSE]] ELSE impl
  /\ UNCHANGED <<S, ok>>

Xml(op) ==
  /\ Step(37 + op.flags, <<"xml", op.flags>>)
  /\ impl' = IXml(S.topo, impl)
  /\ UNCHANGED <<S, ok>>

Topo(op) ==
  /\ cnt.topo < MaxTopo
  /\ cnt' = [cnt EXCEPT !.topo = @ + 1]
  /\ CASE op.op = "restrict" -> Restrict(op)
       [] op.op \in {"dup", "dupdrop"} -> Dup(op)
       [] op.op = "xml" -> Xml(op)

\* any query, or hwloc_topology_refresh(): the lazily invalidated caches are rebuilt
Touch ==
  /\ cnt.touch < MaxTouch
  /\ \E i \in DOMAIN impl : ~impl[i].valid
  /\ Step(41, <<"touch">>)
  /\ impl' = IRefreshAll(S.topo, impl)
  /\ cnt' = [cnt EXCEPT !.touch = @ + 1]
  /\ UNCHANGED <<S, ok>>

Next ==
  \/ \E r \in RegOps : Register(r[1], r[2])
  \/ \E a \in SetAttrs, t \in SetTargets, q \in SetInis, v \in SetVals, qf \in SetFlags : SetValue(a, t, q, v, qf)
  \/ \E op \in TopoOps : Topo(op)
  \/ Touch

Spec == Init /\ [][Next]_vars

(* ---------------- invariants: the design satisfies the property ---------------- *)
Cands == {NoIni, BadIni("x"), BadIni("z")} \cup {CpuIni(s) : s \in CSets} \cup {ObjIni(o) : o \in S.topo.objs}
ObsTargets == S.topo.nodes \cup S.topo.objs
NrIns(n) == {0, 1, n, n + 2}

AttrOK(a) ==
  LET id == ImplIdOf(impl, a)
      known == id >= 0
      at == IF known THEN IEnsure(S.topo, impl[id + 1]) ELSE impl[1]
      ns == NodeSeqOf(S.topo)
      ai == AttrInfo(S.user, a)
  IN /\ known = ai.known
     /\ known => (id = ai.id /\ at.flags = ai.flags)
     /\ \A t \in ObsTargets, q \in Cands :
          LET r == IGetValue(S.topo, known, at, t, q, 0) IN GetValueOK(S, ai, a, t, q, 0, r.ret, r.errno, r.val)
     /\ \A t \in ObsTargets :
          LET r == IGetValue(S.topo, known, at, t, NoIni, 1) IN GetValueOK(S, ai, a, t, NoIni, 1, r.ret, r.errno, r.val)
     /\ \A q \in Cands :
          LET n == IGetTargets(S.topo, ns, known, at, q, 0).nrout IN
          \A nrin \in NrIns(n) :
            LET r == IGetTargets(S.topo, ns, known, at, q, nrin) IN GetTargetsOK(S, ai, a, q, nrin, r.ret, r.errno, r.nrout, r.filled)
     /\ \A t \in ObsTargets :
          LET n == IGetInitiators(known, at, t, 0).nrout IN
          \A nrin \in NrIns(n) :
            LET r == IGetInitiators(known, at, t, nrin) IN GetInitiatorsOK(S, ai, a, t, nrin, r.ret, r.errno, r.nrout, r.filled)
     /\ \A q \in Cands :
          LET r == IBestTarget(S.topo, ns, known, at, q, 0) IN BestTargetOK(S, ai, a, q, 0, r.ret, r.errno, r.t, r.val)
     /\ LET r == IBestTarget(S.topo, ns, known, at, NoIni, 1) IN BestTargetOK(S, ai, a, NoIni, 1, r.ret, r.errno, r.t, r.val)
     /\ \A t \in ObsTargets :
          LET r == IBestInitiator(known, at, t) IN BestInitiatorOK(S, ai, a, t, r.ret, r.errno, r.ini, r.val)

\* attributes that hold no value (unregistered names, Capacity/Locality) only depend on the topology:
\* they are checked in the states without stored values
QueriesOK == \A a \in ObsAttrs : (a \in SetAttrs \/ S.ref = {}) => AttrOK(a)
ActionsOK == ok

\* where the property is precise, the constructive store and the reference table hold the same entries
ImplEntries(at, t) ==
  LET j == FirstIdx(at.tgs, LAMBDA tg : tg.t = t) IN
  IF j = 0 THEN {}
  ELSE IF NeedIni(at.flags) THEN {Entry(at.name, t, at.tgs[j].inis[k].ini, at.tgs[j].inis[k].val) : k \in DOMAIN at.tgs[j].inis}
  ELSE {Entry(at.name, t, NoIni, at.tgs[j].noini)}
StoreAgrees ==
  \A i \in 3..Len(impl) :
    LET at == IEnsure(S.topo, impl[i]) IN
    \A t \in ObsTargets \cup {at.tgs[j].t : j \in DOMAIN at.tgs} :
      <<at.name, t>> \notin S.weak => ImplEntries(at, t) = E(S, at.name, t)
\* strong targets really have pairwise disjoint stored cpusets
WeakSound ==
  \A e1, e2 \in S.ref :
    (e1 # e2 /\ e1.a = e2.a /\ e1.t = e2.t /\ <<e1.a, e1.t>> \notin S.weak) =>
      (e1.ini # e2.ini /\ ~(e1.ini.k = "c" /\ e2.ini.k = "c" /\ e1.ini.s \cap e2.ini.s # {}))

\* default nodeset as intended by the comments of memattrs.c: satisfies the statement and is maximal
RECURSIVE SortByOs(_)
SortByOs(ns) == IF ns = {} THEN <<>>
                ELSE LET m == CHOOSE n \in ns : \A x \in ns : NodeOs[n] <= NodeOs[x] IN <<m>> \o SortByOs(ns \ {m})
DefaultOK ==
  LET sn == SortByOs(S.topo.nodes)
      recs == [i \in DOMAIN sn |-> [os |-> NodeOs[sn[i]], cpus |-> S.topo.ncpus[sn[i]], sub |-> ""]]
      set == IDefaultNodeset(S.topo.pus, recs)
  IN DefaultNodesetOK(S.topo, NodeOs, 0, 0, set) /\ DefaultNodesetMaximal(S.topo, NodeOs, set)

TypeOK == /\ \A e \in S.ref : e.a \in SetAttrs /\ HasObj(S.topo, e.t)
          /\ Len(impl) = NPredef + Len(S.user)

(* ---------------- emission ---------------- *)
EmitEdge  == (hh' % NStripes = Stripe) => PrintT(<<"EDGE", ToJson(hist')>>)
EmitState == (hh % NStripes = Stripe) => PrintT(<<"STATE", ToJson(hist)>>)
EmitSim   == (Len(hist) = SimLen) => PrintT(<<"SIM", ToJson(hist)>>)
=============================================================================
