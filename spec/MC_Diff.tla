------------------------------ MODULE MC_Diff ------------------------------
(***************************************************************************)
(* Bounded model of the diff API over a small topology A0 (C16).           *)
(*                                                                         *)
(* Mode "build": B is a copy of A0 changed by up to MaxEdits edits         *)
(* (representable and not), then the scenario of the property runs:        *)
(* Build(A,B); on a copy T of A: Apply forward, Build(T,B), Apply reverse, *)
(* Build(A,T), XML export/load, Apply of the loaded list.  The scenario    *)
(* also runs when TOO_COMPLEX is only one of the acceptable answers        *)
(* (Ambig), since the library may answer 0 there; after a certain          *)
(* TOO_COMPLEX the returned list is applied once (must fail and undo).     *)
(* Mode "hand": a hand-built list of up to MaxHand entries over an         *)
(* alphabet of well- and ill-matching entries is applied to a copy of A0   *)
(* with every flag value in ApplyFlags, then in the other direction, then  *)
(* exported and loaded.                                                    *)
(*                                                                         *)
(* `chk' holds the model-level theorems: the constructive reference of     *)
(* Diff.tla satisfies the relations that judge the real library, and the   *)
(* scenario of the property closes on the model.  Every complete scenario  *)
(* is printed (EmitEdge / EmitSim) and replayed on the real library.       *)
(***************************************************************************)
EXTENDS Diff, Json

CONSTANTS A0, Vals, Mems, InfoKeys, MaxEdits, MaxHand, MinLen, Mode, ApplyFlags
VARIABLES B, T, D, D2, D3, ret, bret, fl, pc, ned, chk, hist

vars == <<B, T, D, D2, D3, ret, bret, fl, pc, ned, chk, hist>>
View == <<B, T, D, D2, D3, ret, bret, fl, pc, ned, chk>>

ASSUME WF(A0)
N0 == NObj(A0)
Targets == 0..N0                         \* 0 = the topology infos

---------------------------------------------------------------------------
\* edits of B
Ed(k, o, n, occ, v, x) == [k |-> k, o |-> o, n |-> n, occ |-> occ, v |-> v, x |-> x]
Occ(infos, j) == Cardinality({j2 \in 1..j : infos[j2][1] = infos[j][1]})
Edits(P) ==
  \* representable
     {Ed("setname", k, "", 0, <<v>>, 0) : k \in {k \in 1..N0 : P.objs[k].name # <<>>}, v \in Vals}
  \cup UNION {{Ed("setinfo", k, InfosAt(P, k)[j][1], Occ(InfosAt(P, k), j), <<v>>, 0) : j \in 1..Len(InfosAt(P, k)), v \in Vals} : k \in Targets}
  \cup {Ed("setmem", k, "", 0, <<>>, m) : k \in {k \in 1..N0 : P.objs[k].numa = 1}, m \in Mems}
  \* not representable
  \cup {Ed("setname", k, "", 0, <<>>, 0) : k \in {k \in 1..N0 : P.objs[k].name # <<>>}}
  \cup {Ed("setname", k, "", 0, <<"a">>, 0) : k \in {k \in 1..N0 : P.objs[k].name = <<>>}}
  \cup {Ed("addinfo", k, n, 0, <<"a">>, 0) : k \in Targets, n \in InfoKeys}
  \cup UNION {{Ed("rminfo", k, InfosAt(P, k)[j][1], 0, <<>>, 0) : j \in 1..Len(InfosAt(P, k))} : k \in Targets}
  \cup {Ed("misc", k, "", 0, <<"m">>, 0) : k \in {1, N0}}
  \cup {Ed("restrict", 1, "", 0, <<>>, 0)}

MiscObj(P, k) == [d |-> -7, i |-> Cardinality({j \in 1..NObj(P) : P.objs[j].d = -7}), gp |-> 0, par |-> k, numa |-> 0,
                  name |-> <<"m">>, infos |-> <<>>, mem |-> Z2, tot |-> Z2, shape |-> "misc"]
DoEdit(P, e) ==
  CASE e.k = "setname" -> EditName(P, e.o, e.v)
    [] e.k = "setinfo" -> EditSetInfo(P, e.o, e.n, e.occ, e.v[1])
    [] e.k = "setmem"  -> EditMem(P, e.o, <<e.x, 0>>)
    [] e.k = "addinfo" -> EditAddInfo(P, e.o, e.n, e.v[1])
    [] e.k = "rminfo"  -> EditRmInfo(P, e.o, e.n)
    [] e.k = "misc"    -> [P EXCEPT !.objs = Append([@ EXCEPT ![e.o].shape = @ \o "+m"], MiscObj(P, e.o))]
    [] e.k = "restrict" -> [P EXCEPT !.tshape = "restricted", !.objs[1].shape = @ \o "+r"]

---------------------------------------------------------------------------
\* alphabet of hand-built entries
TopoD == A0.depth
Named == {k \in 1..N0 : A0.objs[k].name # <<>>}
Unnamed == {k \in 1..N0 : A0.objs[k].name = <<>>}
Numa == {k \in 1..N0 : A0.objs[k].numa = 1}
AD(k) == A0.objs[k].d
AI(k) == A0.objs[k].i
BadAddr == {<<TopoD + 1, 0>>, <<AD(N0), AI(N0) + 7>>, <<-1, 0>>}   \* unknown depth, unknown index, HWLOC_TYPE_DEPTH_UNKNOWN
KeysOf(infos) == {infos[j][1] : j \in 1..Len(infos)}
Pairs == {<<x, y>> \in Vals \X Vals : x # y}
Core ==
     {NameE(AD(k), AI(k), <<p[1]>>, <<p[2]>>) : k \in Named, p \in Pairs}
  \cup UNION {{InfoE(AD(k), AI(k), n, p[1], p[2]) : n \in KeysOf(A0.objs[k].infos), p \in Pairs} : k \in 1..N0}
  \cup {InfoE(TopoD, 0, n, p[1], p[2]) : n \in KeysOf(A0.tinfos), p \in {<<"a", "b">>, <<"b", "a">>}}
  \cup {SizeE(AD(k), AI(k), <<p[1], 0>>, <<p[2], 0>>) : k \in Numa, p \in {<<x, y>> \in Mems \X Mems : x # y}}
  \cup {OtherE("complex", 0, 0)}
Full == Core
  \cup {NameE(AD(k), AI(k), <<"a">>, <<"b">>) : k \in Unnamed}
  \cup {NameE(ad[1], ad[2], <<"a">>, <<"b">>) : ad \in BadAddr \cup {<<TopoD, 0>>}}
  \cup {NameE(AD(k), AI(k), <<"a">>, <<"a">>) : k \in Named}
  \cup UNION {{InfoE(AD(k), AI(k), n, "a", "b") : n \in InfoKeys \ KeysOf(A0.objs[k].infos)} : k \in 1..N0}
  \cup {InfoE(ad[1], ad[2], "k", "a", "b") : ad \in BadAddr}
  \cup {InfoE(TopoD, 0, n, "a", "b") : n \in InfoKeys \ KeysOf(A0.tinfos)}
  \cup {SizeE(AD(k), AI(k), <<1, 0>>, <<2, 0>>) : k \in (1..N0) \ Numa}
  \cup {SizeE(AD(k), AI(k), <<0, 0>>, <<1, 0>>) : k \in (1..N0) \ Numa}     \* "old" equal to the memory a non-NUMA object has
  \cup {SizeE(ad[1], ad[2], <<1, 0>>, <<2, 0>>) : ad \in BadAddr \cup {<<TopoD, 0>>}}
  \cup {SizeE(AD(k), AI(k), <<1, 0>>, <<1, 0>>) : k \in Numa}
  \cup {OtherE("complex", AD(N0), AI(N0)), OtherE("badtype", 0, 0), OtherE("badattr", 0, 0)}
\* lists of up to two entries range over Full, longer ones over Core
Alpha(L) == IF Len(L) < 2 THEN Full ELSE IF \A j \in 1..Len(L) : L[j] \in Core THEN Core ELSE {}
XmlSafe(E) == \A k \in 1..Len(E) : E[k].t \in {"name", "info", "size", "complex"}

---------------------------------------------------------------------------
H(r) == hist' = Append(hist, r)

Init == /\ B = A0 /\ T = A0 /\ D = <<>> /\ D2 = <<>> /\ D3 = <<>> /\ ret = 0 /\ bret = 0 /\ fl = 0
        /\ pc = "start" /\ ned = 0 /\ chk = TRUE /\ hist = <<>>

\* ---- mode "build"
Edit == /\ Mode = "build" /\ pc = "start" /\ ned < MaxEdits
        /\ \E e \in Edits(B) :
             /\ DoEdit(B, e) # B
             /\ B' = DoEdit(B, e)
             /\ H([a |-> "edit", e |-> e])
        /\ ned' = ned + 1 /\ chk' = WF(B')
        /\ UNCHANGED <<T, D, D2, D3, ret, bret, fl, pc>>

\* MinLen > 0 (simulation runs) postpones the end of the choice phase, so that random walks are long
Build1 == /\ Mode = "build" /\ pc = "start" /\ ned >= MinLen
          /\ LET r == ModelBuild(A0, B) IN
               /\ D' = r.E /\ ret' = r.ret /\ bret' = r.ret
               /\ chk' = BuildRel(A0, B, r.ret, r.E)
               \* when the answer may be 0 or TOO_COMPLEX (Ambig) the whole scenario runs: the library may have answered 0
               /\ pc' = IF r.ret = 0 \/ Ambig(A0, B) THEN "built" ELSE "tc"
          /\ H([a |-> "build", dd |-> 1, x |-> 1, y |-> 2, flags |-> 0])
          /\ UNCHANGED <<B, T, D2, D3, fl, ned>>

BuildBadFlags == /\ Mode = "build" /\ pc = "start" /\ ned = 0 /\ MinLen = 0
                 /\ \E f \in {1, 2} : H([a |-> "build", dd |-> 1, x |-> 1, y |-> 2, flags |-> f])
                 /\ ret' = -1 /\ pc' = "done" /\ chk' = TRUE
                 /\ UNCHANGED <<B, T, D, D2, D3, bret, fl, ned>>

DupA(from, to) == /\ pc = from /\ pc' = to
                  /\ T' = A0 /\ chk' = TRUE
                  /\ H([a |-> "dup", dst |-> 3, src |-> 1])
                  /\ UNCHANGED <<B, D, D2, D3, ret, bret, fl, ned>>

\* apply list number dd (1 = D, 2 = D2) to T with flags f; want: what the property promises here
Apply(from, to, dd, f, want(_)) ==
  /\ pc = from /\ pc' = to
  /\ LET E == IF dd = 1 THEN D ELSE D2
         r == ModelApply(T, E, f) IN
       /\ T' = r.P /\ ret' = r.ret /\ fl' = f
       /\ chk' = (ApplyRel(T, E, f, r.ret, r.P) /\ want(r))
  /\ H([a |-> "apply", s |-> 3, dd |-> dd, flags |-> f])
  /\ UNCHANGED <<B, D, D2, D3, bret, ned>>

BuildChk(from, to, x, y) ==
  /\ pc = from /\ pc' = to
  /\ LET PX == IF x = 1 THEN A0 ELSE T
         PY == IF y = 2 THEN B ELSE T
         r == ModelBuild(PX, PY) IN
       /\ D3' = r.E /\ ret' = r.ret
       /\ chk' = (BuildRel(PX, PY, r.ret, r.E) /\ (bret = 0 => (r.ret = 0 /\ r.E = <<>>)))
  /\ H([a |-> "build", dd |-> 3, x |-> x, y |-> y, flags |-> 0])
  /\ UNCHANGED <<B, T, D, D2, bret, fl, ned>>

Xml(from, to) ==
  /\ pc = from /\ pc' = to
  /\ H([a |-> "xml", dd |-> 1, d2 |-> 2])       \* reference name and buffer/file variant are chosen when the scenario is bound
  /\ D2' = IF HasComplex(D) THEN <<>> ELSE D
  /\ chk' = XmlRel(D, <<>>, IF HasComplex(D) THEN -1 ELSE 0, 0, D2', <<>>)
  /\ UNCHANGED <<B, T, D, D3, ret, bret, fl, ned>>

BuildScenario ==
  /\ Mode = "build"
  /\ \/ DupA("built", "dup")
     \/ Apply("dup", "fwd", 1, 0, LAMBDA r : bret = 0 => (r.ret = 0 /\ VisEq(r.P, B)))
     \/ BuildChk("fwd", "chk1", 3, 2)                                   \* Build(T', B) is empty
     \/ Apply("chk1", "rev", 1, 1, LAMBDA r : bret = 0 => (r.ret = 0 /\ VisEq(r.P, A0)))
     \/ BuildChk("rev", "chk2", 1, 3)                                   \* Build(A, T'') is empty
     \/ Xml("chk2", "xml")
     \/ Apply("xml", "done", 2, 0, LAMBDA r : bret = 0 => (r.ret = 0 /\ VisEq(r.P, B)))
     \* a TOO_COMPLEX answer: its entries are applied once, the complex one must stop the application and undo the others
     \/ DupA("tc", "tcdup")
     \/ Apply("tcdup", "done", 1, 0, LAMBDA r : r.ret < 0 /\ r.P = T)

\* ---- mode "hand"
AddEntry == /\ Mode = "hand" /\ pc = "start" /\ Len(D) < MaxHand
            /\ \E e \in Alpha(D) : D' = Append(D, e)
            /\ UNCHANGED <<B, T, D2, D3, ret, bret, fl, pc, ned, chk, hist>>
Go == /\ Mode = "hand" /\ pc = "start" /\ pc' = "mk" /\ (Len(D) >= MinLen \/ Alpha(D) = {})
      /\ H([a |-> "mk", dd |-> 1, L |-> D])
      /\ UNCHANGED <<B, T, D, D2, D3, ret, bret, fl, ned, chk>>
HandScenario ==
  /\ Mode = "hand"
  /\ \/ DupA("mk", "hdup")
     \/ \E f \in ApplyFlags : Apply("hdup", "h1", 1, f, LAMBDA r : r.ret # 0 => r.P = T)
     \* then the other direction (what was applied entirely is unapplied when it is a single-step list, may fail for chains)
     \/ (ret = 0 /\ fl \in KnownApplyFlags) /\ Apply("h1", "h2", 1, 1 - fl, LAMBDA r : r.ret # 0 => r.P = T)
     \/ (ret # 0 \/ fl \notin KnownApplyFlags) /\ pc = "h1" /\ pc' = "h2" /\ UNCHANGED <<B, T, D, D2, D3, ret, bret, fl, ned, chk, hist>>
     \/ XmlSafe(D) /\ Xml("h2", "done")
     \/ ~XmlSafe(D) /\ pc = "h2" /\ pc' = "done" /\ UNCHANGED <<B, T, D, D2, D3, ret, bret, fl, ned, chk, hist>>

Next == Edit \/ Build1 \/ BuildBadFlags \/ BuildScenario \/ AddEntry \/ Go \/ HandScenario
Spec == Init /\ [][Next]_vars

ModelOK == chk

EmitEdge == (pc' = "done" /\ pc # "done") => PrintT(<<"EDGE", ToJson(hist')>>)
EmitSim  == (pc = "done") => PrintT(<<"SIM", ToJson(hist)>>)
=============================================================================
