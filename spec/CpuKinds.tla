------------------------------ MODULE CpuKinds ------------------------------
(***************************************************************************)
(* C15 - CPU kinds (hwloc/cpukinds.c, include/hwloc/cpukinds.h).           *)
(*                                                                         *)
(* Part 1 is the ORACLE: the relations of the property between the         *)
(* publicly observable kinds and a per-atom summary `req` of the accepted  *)
(* registrations.  Only these operators (and the documented error codes)   *)
(* may reject a trace recorded from the real library.                      *)
(*                                                                         *)
(* Part 2 is a constructive transcription of cpukinds.c (split / merge     *)
(* loop, ranking strategies, restrict, XML re-registration).  It steers    *)
(* the generation of behaviours in MC_CpuKinds and is model-checked        *)
(* against part 1; it never judges the implementation.                     *)
(*                                                                         *)
(* A cpuset is a set of ATOMS.  Atoms are the blocks of a partition of the *)
(* naturals fixed per behaviour (the PUs of the topology are singleton     *)
(* atoms, blocks outside the topology may be wider or infinite), so every  *)
(* cpuset that is passed to the library is a union of atoms and the        *)
(* partition semantics does not depend on the width of an atom.            *)
(***************************************************************************)
EXTENDS Integers, Sequences, FiniteSets, TLC

Unknown == -1                                  \* HWLOC_CPUKIND_EFFICIENCY_UNKNOWN
Norm(fe) == IF fe < 0 THEN Unknown ELSE fe     \* hwloc_cpukinds_register: negative means unknown

Range(s) == {s[i] : i \in DOMAIN s}

(***************************************************************************)
(* Part 1a.  Summary of the accepted registrations, per atom:              *)
(*   reg   - some accepted registration covered the atom (since the last   *)
(*           restrict that removed it)                                     *)
(*   infos - the info pairs of all those registrations                     *)
(*   lf    - the forced efficiency given by the latest of them             *)
(* A restrict forgets the atoms it removes from the topology; a later      *)
(* registration counts in full, inside the topology or not (DESIGN A.5).   *)
(***************************************************************************)
Blank == [reg |-> FALSE, infos |-> {}, lf |-> Unknown]
ReqInit(Atoms) == [a \in Atoms |-> Blank]

ReqRegister(req, S, fe, infos) ==
  [a \in DOMAIN req |->
     IF a \in S THEN [reg |-> TRUE, infos |-> req[a].infos \cup Range(infos), lf |-> Norm(fe)]
     ELSE req[a]]

ReqRestrict(req, newtopo) == [a \in DOMAIN req |-> IF a \in newtopo THEN req[a] ELSE Blank]

\* kinds found after loading an input whose registrations are unknown count as registrations
\* without forced efficiency
ReqFromKinds(Atoms, pk) ==
  [a \in Atoms |->
     IF \E i \in DOMAIN pk : a \in pk[i].cs
     THEN [reg |-> TRUE, infos |-> UNION {Range(pk[i].infos) : i \in {j \in DOMAIN pk : a \in pk[j].cs}}, lf |-> Unknown]
     ELSE Blank]

Registered(req) == {a \in DOMAIN req : req[a].reg}

(***************************************************************************)
(* Part 1b.  The property, on projected kinds pk = sequence of             *)
(* [cs : set of atoms, eff : Int, infos : sequence of <<name, value>>]     *)
(* in the order of the kind index (what get_nr / get_info report).         *)
(***************************************************************************)
NonEmptyKinds(pk) == \A i \in DOMAIN pk : pk[i].cs # {}
DisjointKinds(pk) == \A i, j \in DOMAIN pk : i < j => pk[i].cs \cap pk[j].cs = {}
CoverKinds(pk, req) == UNION {pk[i].cs : i \in DOMAIN pk} = Registered(req)
Partition(pk, req) == NonEmptyKinds(pk) /\ DisjointKinds(pk) /\ CoverKinds(pk, req)

\* each kind carries every info pair of every registration that covered its PUs ...
InfosAccumulate(pk, req) ==
  \A i \in DOMAIN pk : \A a \in pk[i].cs \cap DOMAIN req : req[a].infos \subseteq Range(pk[i].infos)
\* ... without exact duplicates
NoDupInfos(pk) ==
  \A i \in DOMAIN pk : \A x, y \in DOMAIN pk[i].infos : x < y => pk[i].infos[x] # pk[i].infos[y]
\* cpukinds.h: a kind "only gets information from" the registrations that covered it
NoForeignInfos(pk, req) ==
  \A i \in DOMAIN pk : Range(pk[i].infos) \subseteq UNION {req[a].infos : a \in pk[i].cs \cap DOMAIN req}

\* either all -1 or the permutation of 0..nr-1 that increases with the kind index
EffShape(pk) == \/ \A i \in DOMAIN pk : pk[i].eff = Unknown
                \/ \A i \in DOMAIN pk : pk[i].eff = i - 1
\* cpukinds.h: "If there is a single kind in the topology, its efficiency 0."
SingleKindZero(pk) == Len(pk) = 1 => pk[1].eff = 0

(* Forced efficiencies.  cpukinds.h does not say how the forced efficiency *)
(* of a kind is combined when registrations overlap; cpukinds.c (and       *)
(* tests/hwloc/cpukinds.c, which re-registers kinds to force a new         *)
(* ranking) let the latest registration that covers a PU win, a later -1   *)
(* included.  The relation therefore only speaks when, PU per PU, the      *)
(* latest forced efficiency is known, uniform inside every kind and        *)
(* distinct across kinds: then the kinds must be ranked, in that order.    *)
(* (If the latest one is known, "latest wins" and "latest known wins"      *)
(* agree, so nothing is demanded about a -1 overriding a known value.)     *)
KForced(k, req) == {req[a].lf : a \in k.cs \cap DOMAIN req}
KForcedKnown(k, req) == k.cs \subseteq DOMAIN req /\ Cardinality(KForced(k, req)) = 1 /\ Unknown \notin KForced(k, req)
ForcedKnownDistinct(pk, req) ==
  /\ \A i \in DOMAIN pk : KForcedKnown(pk[i], req)
  /\ \A i, j \in DOMAIN pk : i < j => KForced(pk[i], req) # KForced(pk[j], req)
TheForced(k, req) == CHOOSE f \in KForced(k, req) : TRUE
ForcedConsistent(pk, req) ==
  ForcedKnownDistinct(pk, req) =>
     /\ \A i \in DOMAIN pk : pk[i].eff = i - 1
     /\ \A i, j \in DOMAIN pk : i < j => TheForced(pk[i], req) < TheForced(pk[j], req)

Efficiencies(pk, req) == EffShape(pk) /\ SingleKindZero(pk) /\ ForcedConsistent(pk, req)

KindsOK(pk, req) ==
  /\ Partition(pk, req)
  /\ InfosAccumulate(pk, req)
  /\ NoDupInfos(pk)
  /\ NoForeignInfos(pk, req)
  /\ Efficiencies(pk, req)

\* what can be said of kinds whose registrations are unknown (bundled inputs after load)
KindsShapeOK(pk, complete) ==
  /\ NonEmptyKinds(pk) /\ DisjointKinds(pk)
  /\ \A i \in DOMAIN pk : pk[i].cs \subseteq complete
  /\ NoDupInfos(pk)
  /\ EffShape(pk) /\ SingleKindZero(pk)

\* hwloc_cpukinds_get_by_cpuset(S) returned ret (errno err when ret = -1)
GbcRel(pk, S, ret, err) ==
  IF S = {} THEN ret = -1 /\ err = "EINVAL"
  ELSE IF \E i \in DOMAIN pk : S \subseteq pk[i].cs
       THEN \E i \in DOMAIN pk : S \subseteq pk[i].cs /\ ret = i - 1          \* the kind containing the set
  ELSE IF \E i \in DOMAIN pk : S \cap pk[i].cs # {}
       THEN ret = -1 /\ err = "EXDEV"                                        \* straddles kinds or partially covered
  ELSE ret = -1 /\ err = "ENOENT"                                            \* touches none

\* register: empty or NULL cpuset, non-zero flags
RegisterRejected(S, isnull, flags) == isnull \/ S = {} \/ flags # 0

(***************************************************************************)
(* Part 1c.  "intersected with the topology after a restrict": which PUs   *)
(* a hwloc_topology_restrict(set, flags) leaves (hwloc.h, Modifying a      *)
(* loaded Topology).  The flag word decides which PUs disappear:           *)
(*   by cpuset (default)       the PUs outside the set go; with            *)
(*                             REMOVE_CPULESS the NUMA nodes that are left *)
(*                             without PU go as well                       *)
(*   BYNODESET                 the NUMA nodes outside the set go, no PU    *)
(*   BYNODESET|REMOVE_MEMLESS  ... and the PUs that are left without local *)
(*                             NUMA node go as well                        *)
(* ADAPT_MISC / ADAPT_IO do not change PUs or nodes.  The call is refused  *)
(* (EINVAL, nothing changes) for an illegal flag word, when the set keeps  *)
(* no allowed PU (resp. node), and when a REMOVE_ flag would leave no      *)
(* allowed node (resp. PU).                                                *)
(*   pus, nodes   PU atoms and NUMA node OS indexes of the topology        *)
(*   ncpus        node -> its local PUs (a PU is local to the nodes        *)
(*                attached to its ancestors, at any level)                 *)
(*   apus, anodes the allowed PUs / nodes                                  *)
(*   KP, KN       the PUs / nodes that the given set contains              *)
(***************************************************************************)
R_REMOVE_CPULESS == 1   R_ADAPT_MISC == 2   R_ADAPT_IO == 4   R_BYNODESET == 8   R_REMOVE_MEMLESS == 16
HasBit(f, b) == (f \div b) % 2 = 1
RestrictBadFlags(f) == \/ f < 0 \/ f > 31
                       \/ (HasBit(f, R_BYNODESET) /\ HasBit(f, R_REMOVE_CPULESS))
                       \/ (~HasBit(f, R_BYNODESET) /\ HasBit(f, R_REMOVE_MEMLESS))
RestrictOutcome(pus, nodes, ncpus, apus, anodes, f, KP, KN) ==
  LET bynode == HasBit(f, R_BYNODESET)
      p2 == IF ~bynode THEN pus \cap KP
            ELSE IF HasBit(f, R_REMOVE_MEMLESS) THEN {c \in pus : \E n \in nodes \cap KN : c \in ncpus[n]}
            ELSE pus
      n2 == IF bynode THEN nodes \cap KN
            ELSE IF HasBit(f, R_REMOVE_CPULESS) THEN {n \in nodes : ncpus[n] \cap p2 # {}}
            ELSE nodes
  IN [bad  |-> RestrictBadFlags(f),
      must |-> IF bynode THEN anodes \cap KN = {} ELSE apus \cap KP = {},
      may  |-> IF bynode THEN HasBit(f, R_REMOVE_MEMLESS) /\ apus \cap p2 = {}
               ELSE HasBit(f, R_REMOVE_CPULESS) /\ anodes \cap n2 = {},
      pus |-> p2, nodes |-> n2]
RestrictRefused(o) == o.bad \/ o.must \/ o.may

(***************************************************************************)
(* Part 2.  Constructive model of cpukinds.c.  A model kind is             *)
(* [cs, forced, eff, infos]; the array order is the internal order.        *)
(***************************************************************************)
Proj(ks) == [i \in DOMAIN ks |-> [cs |-> ks[i].cs, eff |-> ks[i].eff, infos |-> ks[i].infos]]

\* hwloc__cpukind_add_infos: append the pairs that are not there yet
RECURSIVE AddInfos(_, _)
AddInfos(have, more) ==
  IF more = <<>> THEN have
  ELSE AddInfos(IF Head(more) \in Range(have) THEN have ELSE Append(have, Head(more)), Tail(more))

\* the loop of hwloc_internal_cpukinds_register over the existing kinds (always with OVERWRITE_FORCED_EFFICIENCY
\* from the public entry point and from the XML import); returns <<existing kinds, new kinds, remaining cpuset>>
RECURSIVE RegLoop(_, _, _, _, _, _)
RegLoop(ks, new, rem, i, fe, infos) ==
  IF i > Len(ks) \/ rem = {} THEN <<ks, new, rem>>
  ELSE LET k == ks[i]
           inter == rem \cap k.cs
       IN IF inter = {} THEN RegLoop(ks, new, rem, i + 1, fe, infos)                      \* DIFFERENT
          ELSE IF k.cs \subseteq rem                                                       \* CONTAINS or EQUAL
          THEN RegLoop([ks EXCEPT ![i] = [k EXCEPT !.infos = AddInfos(k.infos, infos), !.forced = fe]],
                       new, rem \ k.cs, i + 1, fe, infos)
          ELSE RegLoop([ks EXCEPT ![i] = [k EXCEPT !.cs = k.cs \ inter]],                  \* INTERSECTS or INCLUDED
                       Append(new, [cs |-> inter, forced |-> fe, eff |-> Unknown,
                                    infos |-> AddInfos(AddInfos(<<>>, k.infos), infos)]),
                       rem \ inter, i + 1, fe, infos)

InternalRegister(ks, S, fe, infos) ==
  LET r == RegLoop(ks, <<>>, S, 1, fe, infos)
      last == IF r[3] = {} THEN <<>>
              ELSE <<[cs |-> r[3], forced |-> fe, eff |-> Unknown, infos |-> AddInfos(<<>>, infos)]>>
  IN r[1] \o r[2] \o last

\* ---- ranking (hwloc_internal_cpukinds_rank, default strategy) ----
\* atoi() of the info values used by the generators
NumTable == ("1000" :> 1000) @@ ("2000" :> 2000) @@ ("3000" :> 3000) @@ ("1500" :> 1500) @@ ("0" :> 0)
AtoI(v) == IF v \in DOMAIN NumTable THEN NumTable[v] ELSE 0

RECURSIVE Summ(_, _)
\* hwloc__cpukinds_summarize_info for one kind: later pairs overwrite earlier ones
Summ(infos, acc) ==
  IF infos = <<>> THEN acc
  ELSE LET p == Head(infos)
           nacc == IF p[1] = "FrequencyMaxMHz" THEN [acc EXCEPT !.max = AtoI(p[2])]
                   ELSE IF p[1] = "FrequencyBaseMHz" THEN [acc EXCEPT !.base = AtoI(p[2])]
                   ELSE IF p[1] = "CoreType" /\ p[2] = "IntelAtom" THEN [acc EXCEPT !.ct = 1]
                   ELSE IF p[1] = "CoreType" /\ p[2] = "IntelCore" THEN [acc EXCEPT !.ct = 2]
                   ELSE acc
       IN Summ(Tail(infos), nacc)

Distinct(rv) == \A i, j \in DOMAIN rv : i < j => rv[i] # rv[j]
\* qsort on unique ranking values, then efficiency = index
SortBy(ks, rv) ==
  [p \in DOMAIN ks |->
     LET i == CHOOSE i \in DOMAIN ks : Cardinality({j \in DOMAIN ks : rv[j] < rv[i]}) = p - 1
     IN [ks[i] EXCEPT !.eff = p - 1]]
Unranked(ks) == [i \in DOMAIN ks |-> [ks[i] EXCEPT !.eff = Unknown]]

Rank(ks) ==
  IF Len(ks) = 0 THEN ks
  ELSE IF Len(ks) = 1 THEN <<[ks[1] EXCEPT !.eff = 0]>>
  ELSE LET frv == [i \in DOMAIN ks |-> ks[i].forced]
       IN IF (\A i \in DOMAIN ks : frv[i] # Unknown) /\ Distinct(frv) THEN SortBy(ks, frv)
          ELSE LET sm == [i \in DOMAIN ks |-> Summ(ks[i].infos, [max |-> 0, base |-> 0, ct |-> 0])]
                   havemax == \A i \in DOMAIN ks : sm[i].max # 0
                   havebase == \A i \in DOMAIN ks : sm[i].base # 0
                   havect == \A i \in DOMAIN ks : sm[i].ct # 0
                   irv == [i \in DOMAIN ks |-> sm[i].ct * 1048576 + (IF havebase THEN sm[i].base ELSE sm[i].max)]
               IN IF (havect \/ havemax \/ havebase) /\ Distinct(irv) THEN SortBy(ks, irv)
                  ELSE Unranked(ks)

RegisterDo(ks, S, fe, infos) == Rank(InternalRegister(ks, S, Norm(fe), infos))

\* hwloc_internal_cpukinds_restrict: intersect, drop the kinds that got empty, rank again only if one was dropped
RestrictDo(ks, newtopo) ==
  LET cut == [i \in DOMAIN ks |-> [ks[i] EXCEPT !.cs = ks[i].cs \cap newtopo]]
      kept == SelectSeq(cut, LAMBDA k : k.cs # {})
  IN IF Len(kept) # Len(ks) THEN Rank(kept) ELSE kept

\* XML export + import: every kind is registered again, in order, with its own forced efficiency, then ranked
RECURSIVE ReRegister(_, _)
ReRegister(todo, acc) ==
  IF todo = <<>> THEN acc
  ELSE ReRegister(Tail(todo), InternalRegister(acc, Head(todo).cs, Head(todo).forced, Head(todo).infos))
XmlDo(ks) == Rank(ReRegister(ks, <<>>))

\* hwloc_cpukinds_get_by_cpuset: first kind that the set touches decides
RECURSIVE GbcLoop(_, _, _)
GbcLoop(ks, S, i) ==
  IF i > Len(ks) THEN <<-1, "ENOENT">>
  ELSE IF S \subseteq ks[i].cs THEN <<i - 1, "0">>
  ELSE IF S \cap ks[i].cs # {} THEN <<-1, "EXDEV">>
  ELSE GbcLoop(ks, S, i + 1)
GbcDo(ks, S) == IF S = {} THEN <<-1, "EINVAL">> ELSE GbcLoop(ks, S, 1)
=============================================================================
