------------------------------ MODULE MC_Lstopo ------------------------------
(***************************************************************************)
(* Bounded model of the C20 lstopo command lines (Calc.tla, section        *)
(* lstopo): which input, which output format given how (--of, long option, *)
(* -.ext, a file named by extension, an existing file with -f), which      *)
(* topology filter option, which words for --export-xml-flags and          *)
(* --export-synthetic-flags, which console display options, and which      *)
(* malformed variants.  One action per kind of input:                      *)
(*   LsA    a fixed input family (named in FamNames; sources in c20.py)    *)
(*   WideA  a generated member of a wide family: a synthetic description   *)
(*          with explicit OS index lists whose library export has exactly  *)
(*          the length T aimed at.  T ranges over values around the sizes  *)
(*          the tools' internal text buffers are known or likely to have   *)
(*          (powers of two) and well beyond them.                          *)
(* The export length of a member is steered (never judged) by arithmetic:  *)
(* a member differs from the family's smallest member only in the index    *)
(* list and the object count, which both appear verbatim once in the input *)
(* and once in the export, so Len(export) - Len(input) is the constant the *)
(* helper measured on the smallest member (BaseFile).  The trace records   *)
(* the achieved length; c20.py reports it in the evidence.                 *)
(***************************************************************************)
EXTENDS Calc, Json, SequencesExt

CONSTANTS FamNames,      \* set of names of the fixed input families
          BaseFile,      \* ndjson: a Topo event (library export included) of every wide family's smallest member per export flags
          WideRuns,      \* set of [fam, sw, T, dest, of]: wide family, synthetic flags word, export length aimed at, destination kind, format
          NStripes, Stripe
VARIABLES phase, pick

(* ------------------------------ command lines -------------------------- *)
LM(of, dest, filt, xw, sw, copts, extra) == [of |-> of, dest |-> dest, filt |-> filt, xw |-> xw, sw |-> sw, copts |-> copts, extra |-> extra]
Plain(of, filt) == LM(of, "of", filt, "", "", <<>>, <<>>)

FilterArgs == {"all:structure", "all:none", "all:all", "io:none", "io:all", "io:important", "io:structure", "cache:none", "cache:structure",
               "icache:none", "core:none", "core:structure", "core:important", "pack:none", "die:none", "group:none", "l2:none", "l1:structure",
               "bridge:none", "pci:none", "os:none", "misc:none", "pu:none", "numa:none"}
Filts == {<<>>, <<"--merge">>, <<"--no-io">>, <<"--whole-io">>, <<"--no-bridges">>, <<"--no-caches">>, <<"--no-useless-caches">>,
          <<"--no-icaches">>, <<"--no-smt">>, <<"--disallowed">>}
         \cup {<<"--filter", a>> : a \in FilterArgs}
         \cup {<<"--ignore", ty>> : ty \in {"core", "pack", "misc", "os", "pu", "bridge"}}
CoreFilts == {<<>>, <<"--merge">>, <<"--no-io">>}
SynWords == {"1", "2", "3", "4", "8", "9", "12", "15", "16", "none", "no_attr", "no_ext,no_attr", "v1", "ignore_mem", "NO_EXTENDED_TYPES",
             "no_ext,ignore_memory", "v1,no_ext", "Ignore_Memory,No_Attrs"}
BadSynWords == {"bogus", "no_", "flag", "no_attr,bogus", "v3"}
XmlWords == {"", "0", "2", "v2", "none", "V2", "xml_flag_v2"}
BadXmlWords == {"bogus", "v2,v3", "1", "3"}            \* 1 and 3: well-formed words, flags the library refuses
ConsoleOpts == {<<>>, <<"-v">>, <<"-p">>, <<"-l">>, <<"--cpuset">>, <<"--cpuset-only">>, <<"--only", "pu">>, <<"--only", "numa">>, <<"-s">>,
                <<"--distances">>, <<"--memattrs">>, <<"--cpukinds">>, <<"--cof", "list", "--cpuset">>, <<"--cof", "taskset", "--cpuset-only">>,
                <<"-v", "-p">>, <<"--only", "core", "-v">>}

\* the commands run on every family in every run ...
CoreLms == {Plain(of, f) : of \in {"xml", "synthetic"}, f \in CoreFilts}
           \cup {Plain("bogus", <<>>),
                 LM("xml", "of", <<>>, "", "", <<>>, <<"-.xml", "second.xml">>),
                 LM("xml", "of", <<>>, "", "", <<>>, <<"--export-xml-flags">>)}
\* ... and the ones that are striped
MoreLms ==
     {Plain(of, f) : of \in {"xml", "synthetic"}, f \in Filts \ CoreFilts}
\cup {LM("synthetic", "of", f, "", sw, <<>>, <<>>) : sw \in SynWords \cup BadSynWords, f \in {<<>>, <<"--no-io">>}}
\cup ({LM(of, "of", <<>>, xw, "", <<>>, <<>>) : of \in {"xml", "v2xml", "v3xml"}, xw \in XmlWords \cup BadXmlWords} \ CoreLms)
\cup {LM(of, d, <<>>, "", "", <<>>, <<>>) : of \in {"xml", "synthetic", "v2xml", "bogus"}, d \in {"long", "dash", "file", "filef"}}
\cup {LM("synthetic", d, <<"--no-io">>, "", "no_attr", <<>>, <<>>) : d \in {"file", "dash"}}
\cup {LM("console", "of", <<>>, "", "", c, <<>>) : c \in ConsoleOpts}
\cup {LM("console", d, f, "", "", <<>>, <<>>) : d \in {"long", "dash"}, f \in {<<"--merge">>, <<"--no-io">>, <<"--filter", "all:none">>}}
\cup {LM(of, "of", f, "", "", <<>>, <<>>) : of \in {"xml", "synthetic"},
                                           f \in {<<"--filter", "core:bogus">>, <<"--filter", "bogus:none">>, <<"--ignore", "cache">>, <<"--filter", ":none">>}}
\* (not generated: "--ignore <unknown type>", which lstopo only warns about - reported apart)
\cup {LM("xml", "of", <<>>, "", "", <<>>, e) : e \in {<<"--filter">>, <<"--export-synthetic-flags">>, <<"--bogus-option", "-.xml">>}}
CoreSeq == SetToSeq(CoreLms)
MoreSeq == SetToSeq(MoreLms)
FamSeq == SetToSeq(FamNames)

(* ------------------------------ wide families -------------------------- *)
RECURSIVE Pow10(_)
Pow10(k) == IF k = 0 THEN 1 ELSE 10 * Pow10(k - 1)
Digits(x) == Len(BS!Dec(x))
\* a ascending d-digit OS indexes followed by b (d+1)-digit ones: never 0 first, so the export lists them one by one
IdxVals(d, a, b) == [k \in 1..(a + b) |-> IF k <= a THEN Pow10(d - 1) + (k - 1) ELSE 3 * Pow10(d) + (k - a - 1)]
RECURSIVE JoinR(_, _, _)
JoinR(f, lo, hi) == IF lo = hi THEN f[lo] ELSE LET mid == (lo + hi) \div 2 IN JoinR(f, lo, mid) \o "," \o JoinR(f, mid + 1, hi)
ListTxt(vals) == JoinR([k \in DOMAIN vals |-> BS!Dec(vals[k])], 1, Len(vals))
Rev(s) == [k \in DOMAIN s |-> s[Len(s) + 1 - k]]
ListLen(d, a, b) == (d + 1) * a + (d + 2) * b - 1
\* wpu: two NUMA nodes in reverse order, the PUs below carry the long list (it survives IGNORE_MEMORY)
\* wnode: the NUMA nodes carry the long list in descending order, one PU each
WFams == {"wpu", "wnode"}
WSrc(fam, d, a, b) ==
  IF fam = "wpu" THEN "node:2(indexes=1,0) pu:" \o BS!Dec((a + b) \div 2) \o "(indexes=" \o ListTxt(IdxVals(d, a, b)) \o ")"
  ELSE "node:" \o BS!Dec(a + b) \o "(indexes=" \o ListTxt(Rev(IdxVals(d, a, b))) \o ") pu:1"
WFixed(fam) == IF fam = "wpu" THEN Len("node:2(indexes=1,0) pu:(indexes=)") ELSE Len("node:(indexes=) pu:1")
WCount(fam, n) == IF fam = "wpu" THEN n \div 2 ELSE n
WCountOK(fam, n) == IF fam = "wpu" THEN n % 2 = 0 /\ n >= 2 ELSE n >= 1
WSrcLen(fam, d, a, b) == WFixed(fam) + Digits(WCount(fam, a + b)) + ListLen(d, a, b)
WBaseSrc(fam) == WSrc(fam, 3, 2, 2)

Base == ndJsonDeserialize(BaseFile)
BaseOf(fam, f) == LET S == {k \in DOMAIN Base : Base[k].src = WBaseSrc(fam) /\ Base[k].synf = f /\ Base[k].synret = 0} IN
  IF S = {} THEN [ok |-> FALSE, delta |-> 0] ELSE LET e == Base[CHOOSE k \in S : TRUE] IN [ok |-> TRUE, delta |-> Len(e.syn) - Len(e.src)]
\* the index lists are exported when attributes are (no NO_ATTRS), the NUMA list when memory is (no IGNORE_MEMORY)
ListExported(fam, f) == (f \div 2) % 2 = 0 /\ (fam = "wnode" => (f \div 8) % 2 = 0)
Cands(fam, f, T) ==
  IF ~BaseOf(fam, f).ok \/ ~ListExported(fam, f) THEN {}
  ELSE {c \in [d : {3, 4}, b : 0..11, dg : 1..4] :
          LET L == T - BaseOf(fam, f).delta - WFixed(fam) - c.dg
              num == L + 1 - (c.d + 2) * c.b
              a == num \div (c.d + 1)
          IN /\ num > 0 /\ num % (c.d + 1) = 0 /\ a >= 1 /\ a <= 9 * Pow10(c.d - 1)
             /\ WCountOK(fam, a + c.b) /\ Digits(WCount(fam, a + c.b)) = c.dg}
Member(fam, f, T) ==
  LET C == Cands(fam, f, T)
      c == CHOOSE c \in C : \A o \in C : c.d < o.d \/ (c.d = o.d /\ c.b <= o.b)
      L == T - BaseOf(fam, f).delta - WFixed(fam) - c.dg
  IN [d |-> c.d, a |-> (L + 1 - (c.d + 2) * c.b) \div (c.d + 1), b |-> c.b]
WideSeq == SetToSeq(WideRuns)
WideFlags(w) == IF w.sw = "" THEN 0 ELSE FlagWordVal(w.sw, SynFlagNames)
WideLm(w) == LM(w.of, w.dest, <<>>, "", IF w.of = "synthetic" THEN w.sw ELSE "", <<>>, <<>>)

(* ------------------------------- the machine --------------------------- *)
vars == <<phase, pick>>
Init == phase = "init" /\ pick = <<"", 0, 0>>
InStripe(fi, li) == (fi * 37 + li * 101) % NStripes = Stripe
CoreA == /\ phase = "init"
         /\ \E fi \in DOMAIN FamSeq : \E li \in DOMAIN CoreSeq : pick' = <<"core", fi, li>>
         /\ phase' = "ls"
MoreA == /\ phase = "init"
         /\ \E fi \in DOMAIN FamSeq : \E li \in DOMAIN MoreSeq : InStripe(fi, li) /\ pick' = <<"more", fi, li>>
         /\ phase' = "ls"
WideA == /\ phase = "init"
         /\ \E wi \in DOMAIN WideSeq : Cands(WideSeq[wi].fam, WideFlags(WideSeq[wi]), WideSeq[wi].T) # {} /\ pick' = <<"wide", wi, 0>>
         /\ phase' = "wide"
Next == CoreA \/ MoreA \/ WideA
Spec == Init /\ [][Next]_vars

(* ------------------------------ invariants ----------------------------- *)
ASSUME \A lm \in CoreLms \cup MoreLms : LmOK(lm)
ASSUME \A w \in WideRuns : w.fam \in WFams /\ w.T \in Nat /\ w.dest \in LsDests /\ w.of \in LsOfs /\ WideFlags(w) >= 0
\* every well-formed flags word of the model has a value, every malformed one has none
ASSUME \A sw \in SynWords : FlagWordVal(sw, SynFlagNames) >= 0
ASSUME \A sw \in BadSynWords : FlagWordVal(sw, SynFlagNames) = -1
ASSUME \A xw \in XmlWords \ {""} : FlagWordVal(xw, XmlFlagNames) \in {0, 2}
TypeOK == phase \in {"init", "ls", "wide"}

(* ------------------------------- emission ------------------------------ *)
LsReload(lm) == ~LsMalformed(lm) /\ ((LsIsXml(lm) /\ LsXmlFlags(lm) = 0) \/ lm.of = "synthetic")
Out(fam, src, lm, T) == [fam |-> fam, src |-> src, lm |-> lm, cfg |-> LsCfg(lm), argv |-> LstopoArgv(lm, "@OUT@"), reload |-> LsReload(lm), T |-> T]
EmitEdge ==
  /\ (phase' = "ls") =>
        LET lm == IF pick'[1] = "core" THEN CoreSeq[pick'[3]] ELSE MoreSeq[pick'[3]] IN
        PrintT(<<"LSTOPO", ToJson(Out(FamSeq[pick'[2]], "", lm, 0))>>)
  /\ (phase' = "wide") =>
        LET w == WideSeq[pick'[2]]
            f == WideFlags(w)
            m == Member(w.fam, f, w.T)
            src == WSrc(w.fam, m.d, m.a, m.b)
        IN /\ Assert(Len(src) = WSrcLen(w.fam, m.d, m.a, m.b) /\ Len(src) + BaseOf(w.fam, f).delta = w.T, <<"wide member length", w, m>>)
           /\ PrintT(<<"LSTOPO", ToJson(Out(w.fam, src, WideLm(w), w.T))>>)
=============================================================================
