------------------------------- MODULE DiagXml -------------------------------
(* Diagnostic aid (not a check): for one logged xml_import event, where the  *)
(* imported topology (slot of the event) differs from the source (slot 0).    *)
EXTENDS XmlDoc, Json, IOUtils, TLC
Ev == ndJsonDeserialize(IOEnv.EVENT)[1]
ASSUME PrintT(<<"EQUIVDIFF", EquivDiff(Ev.topos[1], Ev.topos[Ev.slot + 1], Ev.flags)>>)
VARIABLE x
Init == x = 0
Next == x' = x
=============================================================================
