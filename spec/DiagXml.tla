------------------------------- MODULE DiagXml -------------------------------
(* Diagnostic aid (not a check): for one logged xml_import event, where the  *)
(* imported topology (slot of the event) differs from the source (slot 0).    *)
EXTENDS XmlDoc, Json, IOUtils, TLC
Ev == ndJsonDeserialize(IOEnv.EVENT)[1]
ASSUME PrintT(<<"EQUIVDIFF", EquivDiff(Ev.topos[1], Ev.topos[Ev.slot + 1], Ev.flags)>>)
\* the recorded finding "memory child moved by a level merge keeps the complete_cpuset of the removed object": the two projections differ
\* ONLY in the complete_cpuset of memory objects whose complete_cpuset differs from their parent's in the source and equals it after the reload
\* (compared as the trace specification compares them: tree and sets only when the document is a v2-format export, DOCV2 = "1")
MemCcsOnly(a0, b0) ==
  LET v2 == "DOCV2" \in DOMAIN IOEnv /\ IOEnv.DOCV2 = "1"
      a == IF v2 THEN TreeAndSets(a0) ELSE TopoCoreF(a0, Bit(Ev.flags, TOPO_FLAG_IMPORT_SUPPORT), Ev.flags)
      b == IF v2 THEN TreeAndSets(b0) ELSE TopoCoreF(b0, Bit(Ev.flags, TOPO_FLAG_IMPORT_SUPPORT), Ev.flags) IN
  /\ [a EXCEPT !.objs = <<>>] = [b EXCEPT !.objs = <<>>]
  /\ Len(a.objs) = Len(b.objs)
  /\ \A i \in 1..Len(a.objs) : LET x == a.objs[i]  y == b.objs[i] IN
        x # y => /\ IsMem(x) /\ [x EXCEPT !.ccs = y.ccs] = y
                 /\ x.parent \in 1..Len(a.objs) /\ x.ccs # a.objs[x.parent].ccs /\ y.ccs = b.objs[x.parent].ccs
  /\ \E i \in 1..Len(a.objs) : a.objs[i] # b.objs[i]
ASSUME PrintT(<<"MEMCCSONLY", MemCcsOnly(Ev.topos[1], Ev.topos[Ev.slot + 1])>>)
VARIABLE x
Init == x = 0
Next == x' = x
=============================================================================
