----------------------------- MODULE Lifecycle -----------------------------
(***************************************************************************)
(* The init / configure / load / destroy protocol of a topology handle and *)
(* the configuration relations (flags and type filters), as documented in  *)
(* hwloc.h.  A slot is                                                     *)
(*   [st |-> "none" | "init" | "loaded", flags, filters (sequence of 20),  *)
(*    origin, pristine]                                                    *)
(***************************************************************************)
EXTENDS Topology

DefaultFilters ==
  [ty \in 1..NTYPES |->
     IF (ty - 1) \in {L1I, L2I, L3I, MEMCACHE, MISC, BRIDGE, PCIDEV, OSDEV} THEN FILTER_KEEP_NONE
     ELSE IF ty - 1 = GROUP THEN FILTER_KEEP_STRUCTURE ELSE FILTER_KEEP_ALL]

\* origin: the XML document a topology was imported from (<<>> if none); pristine: not modified since
NoSlot   == [st |-> "none", flags |-> 0, filters |-> DefaultFilters, origin |-> <<>>, pristine |-> TRUE]
InitSlot == [st |-> "init", flags |-> 0, filters |-> DefaultFilters, origin |-> <<>>, pristine |-> TRUE]

(* ---- flags ---- *)
KnownFlagsMask == 1023                 \* the ten documented topology flags, bits 0..9
FLAG_IS_THISSYSTEM == 2
FLAG_RESTRICT_TO_CPUBINDING == 16
FLAG_RESTRICT_TO_MEMBINDING == 32
FlagsLegal(f) ==
  /\ f >= 0 /\ f <= KnownFlagsMask
  /\ Bit(f, FLAG_RESTRICT_TO_CPUBINDING) => Bit(f, FLAG_IS_THISSYSTEM)
  /\ Bit(f, FLAG_RESTRICT_TO_MEMBINDING) => Bit(f, FLAG_IS_THISSYSTEM)

\* relation for hwloc_topology_set_flags on a slot
SetFlagsRel(slot, f, ret, err, slot2) ==
  IF slot.st # "init" THEN ret = -1 /\ err = "EBUSY" /\ slot2 = slot
  ELSE IF FlagsLegal(f) THEN ret = 0 /\ slot2 = [slot EXCEPT !.flags = f]
  ELSE ret = -1 /\ err = "EINVAL" /\ slot2 = slot

(* ---- type filters ---- *)
\* is (type, filter) accepted, and what is stored.  KEEP_IMPORTANT is documented as equivalent to
\* KEEP_ALL for normal and memory types, and KEEP_ALL cannot be set for Group.
FilterLegal(ty, f) ==
  /\ ty \in {PU, NUMANODE, MACHINE} => f = FILTER_KEEP_ALL
  /\ ty \in (IOTypes \cup {MISC}) => f # FILTER_KEEP_STRUCTURE
  /\ ty = GROUP => f \notin {FILTER_KEEP_ALL, FILTER_KEEP_IMPORTANT}
FilterStored(ty, f) ==
  IF ty \notin (IOTypes \cup {MISC}) /\ f = FILTER_KEEP_IMPORTANT THEN FILTER_KEEP_ALL ELSE f
ApplyFilter(filters, ty, f) ==
  IF FilterLegal(ty, f) THEN [filters EXCEPT ![ty + 1] = FilterStored(ty, f)] ELSE filters
RECURSIVE ApplyFilterSeq(_, _, _)
ApplyFilterSeq(filters, tys, f) ==
  IF tys = <<>> THEN filters ELSE ApplyFilterSeq(ApplyFilter(filters, Head(tys), f), Tail(tys), f)

AllTypesSeq   == [k \in 1..NTYPES |-> k - 1]
CacheTypesSeq == [k \in 1..8 |-> k + 4]
ICacheTypesSeq == <<L1I, L2I, L3I>>
IOTypesSeq    == <<BRIDGE, PCIDEV, OSDEV>>

\* relation for the filter setters; which = type, or -1 all, -2 cache, -3 icache, -4 io
SetFilterRel(slot, which, f, ret, err, slot2) ==
  IF which >= NTYPES THEN ret = -1 /\ err = "EINVAL" /\ slot2 = slot
  ELSE IF slot.st # "init" THEN ret = -1 /\ err = "EBUSY" /\ slot2 = slot
  ELSE IF which >= 0 THEN
         IF FilterLegal(which, f) THEN ret = 0 /\ slot2 = [slot EXCEPT !.filters = ApplyFilter(slot.filters, which, f)]
         ELSE ret = -1 /\ err = "EINVAL" /\ slot2 = slot
  ELSE /\ ret = 0
       /\ slot2 = [slot EXCEPT !.filters =
                     ApplyFilterSeq(slot.filters,
                                    CASE which = -1 -> AllTypesSeq [] which = -2 -> CacheTypesSeq
                                      [] which = -3 -> ICacheTypesSeq [] which = -4 -> IOTypesSeq, f)]
=============================================================================
