----------------------------- MODULE Distances -----------------------------
(***************************************************************************)
(* Abstract semantics of the hwloc distances API (include/hwloc/distances.h*)
(* hwloc/distances.c), property C13: "what is added is what is returned,   *)
(* and it follows the objects".                                            *)
(*                                                                         *)
(* A stored distances structure is a record                                *)
(*    [name, hasname, kind, objs, types, vals]                             *)
(* objs  : sequence of object identities (gp_index on the real side, the   *)
(*         candidate number in the model), in the caller's order           *)
(* types : the object types, same length                                   *)
(* vals  : the n*n matrix, row-major (value from i to j at (i-1)*n + j)    *)
(* The list of stored structures is a sequence, but nothing in the         *)
(* documentation promises an order, so every comparison with what the      *)
(* library returns is a comparison of bags.                                *)
(*                                                                         *)
(* Only pure operators here: MC_Distances (model, behaviour generation)    *)
(* and TraceDistances (validation of recorded executions) both use them.   *)
(***************************************************************************)
EXTENDS Integers, Sequences, FiniteSets

\* ---------- kind words (enum hwloc_distances_kind_e) ----------
FROM_OS == 1   FROM_USER == 2   VAL_LAT == 4   VAL_BW == 8   HETERO == 16   VAL_HOPS == 32
FromBits  == {FROM_OS, FROM_USER}
ValueBits == {VAL_LAT, VAL_BW, VAL_HOPS}
HasBit(k, b) == (k \div b) % 2 = 1            \* b a power of two
NFrom(k)  == Cardinality({b \in FromBits : HasBit(k, b)})
NValue(k) == Cardinality({b \in ValueBits : HasBit(k, b)})
Base(k)   == IF HasBit(k, HETERO) THEN k - HETERO ELSE k      \* kind without the HETEROGENEOUS_TYPES bit

\* "Each distance matrix may have only one kind among FROM_* and exactly one kind VALUE_*";
\* bits outside the enum are invalid.  These must be rejected by add_create:
KindMustReject(k) == k < 0 \/ k >= 64 \/ NFrom(k) > 1 \/ NValue(k) > 1
\* these are valid beyond doubt and must be accepted:
KindMustAccept(k) == ~KindMustReject(k) /\ NFrom(k) = 1 /\ NValue(k) = 1 /\ ~HasBit(k, HETERO)
\* everything else (no FROM_, no VALUE_, HETERO given by the caller) is not determined by the
\* documentation: add_create may accept or reject; if it accepts, the rest of the property applies.

CommitFlagsKnown == 3        \* HWLOC_DISTANCES_ADD_FLAG_GROUP | GROUP_INACCURATE
CommitFlagsBad(f) == f < 0 \/ f > CommitFlagsKnown

\* ---------- small sequence helpers ----------
Range(s) == {s[i] : i \in DOMAIN s}
Min2(a, b) == IF a < b THEN a ELSE b
Positions(s, P(_)) == SelectSeq([i \in 1..Len(s) |-> i], LAMBDA i : P(s[i]))     \* increasing positions where P holds
Pick(s, pos) == [i \in 1..Len(pos) |-> s[pos[i]]]
Count(s, x) == Cardinality({i \in DOMAIN s : s[i] = x})
BagEq(s, t) == Len(s) = Len(t) /\ \A x \in Range(s) \cup Range(t) : Count(s, x) = Count(t, x)
SubBag(s, t) == \A x \in Range(s) : Count(s, x) <= Count(t, x)
RemoveAt(s, I) == Pick(s, SelectSeq([i \in 1..Len(s) |-> i], LAMBDA i : i \notin I))
RECURSIVE Gcd(_, _)
Gcd(a, b) == IF b = 0 THEN a ELSE Gcd(b, a % b)

\* ---------- matrices ----------
N(d) == Len(d.objs)
At(vals, n, i, j) == vals[(i - 1) * n + j]
\* the matrix restricted to the rows/columns listed in pos (a sequence of positions in 1..n)
SubMatrix(vals, n, pos) ==
  LET m == Len(pos) IN [k \in 1..(m * m) |-> At(vals, n, pos[((k - 1) \div m) + 1], pos[((k - 1) % m) + 1])]
TypesDiffer(types) == \E i, j \in DOMAIN types : types[i] # types[j]
WellFormed(d) == /\ Len(d.types) = N(d) /\ Len(d.vals) = N(d) * N(d)
                 /\ N(d) >= 2
                 /\ ~KindMustReject(d.kind)
                 /\ TypesDiffer(d.types) => HasBit(d.kind, HETERO)

Norm(d) == [d EXCEPT !.kind = Base(d.kind)]
NormSeq(ds) == [i \in DOMAIN ds |-> Norm(ds[i])]

\* d restricted to the objects whose identity is in alive; "dropped" when fewer than two survive
KeepPos(d, alive) == Positions(d.objs, LAMBDA g : g \in alive)
Survives(d, alive) == Len(KeepPos(d, alive)) >= 2
RestrictOne(d, alive) ==
  LET pos == KeepPos(d, alive) IN
  [d EXCEPT !.objs = Pick(d.objs, pos), !.types = Pick(d.types, pos), !.vals = SubMatrix(d.vals, N(d), pos)]
RestrictAll(ds, alive) ==
  LET kept == SelectSeq(ds, LAMBDA d : Survives(d, alive)) IN [i \in DOMAIN kept |-> RestrictOne(kept[i], alive)]

\* The HETEROGENEOUS_TYPES bit of an observed structure o, given the structures `expected` it can stem from:
\* set when the types differ; when they do not differ it may only be set if a structure it can stem from
\* already carried it (given by the caller, or the matrix was heterogeneous before objects disappeared).
HetOK(o, expected) ==
  /\ TypesDiffer(o.types) => HasBit(o.kind, HETERO)
  /\ (HasBit(o.kind, HETERO) /\ ~TypesDiffer(o.types)) =>
        \E i \in DOMAIN expected : Norm(expected[i]) = Norm(o) /\ HasBit(expected[i].kind, HETERO)
\* observed list `obs` is `expected` up to order and up to the slack on the HETERO bit
SameUpToHet(expected, obs) ==
  /\ BagEq(NormSeq(expected), NormSeq(obs))
  /\ \A i \in DOMAIN obs : HetOK(obs[i], expected)

\* ---------- adding ----------
NoHandle == [st |-> "none", name |-> "", hasname |-> FALSE, kind |-> 0, objs |-> <<>>, types |-> <<>>, vals |-> <<>>]
Created(name, hasname, kind) == [NoHandle EXCEPT !.st = "created", !.name = name, !.hasname = hasname, !.kind = kind]
NULLOBJ == -1
NonNullPos(objs) == Positions(objs, LAMBDA g : g # NULLOBJ)

CreateMustFail(kind, flags) == KindMustReject(kind) \/ flags # 0
CreateMustSucceed(kind, flags) == KindMustAccept(kind) /\ flags = 0
CreateRel(kind, flags, ok) == (CreateMustFail(kind, flags) => ~ok) /\ (CreateMustSucceed(kind, flags) => ok)

\* add_values(handle h, objs with NULLOBJ for NULL pointers, ...): "nbobjs must be at least 2", "flags must be 0".
\* NULL objects are not objects: fewer than two real objects must be rejected; with two or more real objects
\* besides NULLs the call may fail or keep exactly the real ones.  Giving values to a handle that already has
\* some is not described: it may fail (the handle is destroyed) or replace them.
ValuesMustFail(h, objs, flags) == flags # 0 \/ h.st = "none" \/ Len(NonNullPos(objs)) < 2
ValuesMustSucceed(h, objs, flags) == ~ValuesMustFail(h, objs, flags) /\ h.st = "created" /\ Len(NonNullPos(objs)) = Len(objs)
ValuesRel(h, objs, flags, ret) ==
  /\ ret \in {0, -1}
  /\ ValuesMustFail(h, objs, flags) => ret = -1
  /\ ValuesMustSucceed(h, objs, flags) => ret = 0
Filled(h, objs, types, vals) ==
  LET pos == NonNullPos(objs) IN
  [h EXCEPT !.st = "filled", !.objs = Pick(objs, pos), !.types = Pick(types, pos), !.vals = SubMatrix(vals, Len(objs), pos)]
\* "On error, the temporary distances structure and its content are destroyed."
AfterValues(h, objs, types, vals, ret) == IF ret = 0 THEN Filled(h, objs, types, vals) ELSE NoHandle

CommitMustFail(h, flags) == CommitFlagsBad(flags) \/ h.st # "filled"
CommitRel(h, flags, ret) == ret = (IF CommitMustFail(h, flags) THEN -1 ELSE 0)
Entry(h) == [name |-> h.name, hasname |-> h.hasname, kind |-> h.kind, objs |-> h.objs, types |-> h.types, vals |-> h.vals]
\* the kind as the library must report it when nothing is left open
EntryKind(h) == IF TypesDiffer(h.types) THEN Base(h.kind) + HETERO ELSE h.kind
AfterCommit(ds, h, ret) == IF ret = 0 THEN Append(ds, Entry(h)) ELSE ds

\* ---------- retrieving ----------
\* kind filter: "If it contains some FROM_*, only matrices whose kind matches one of these are returned.
\* If it contains some VALUE_*, only matrices whose kind matches one of these are returned."  0 = all.
KindFilterMatch(dkind, f) ==
  /\ (\E b \in FromBits : HasBit(f, b)) => (\E b \in FromBits : HasBit(f, b) /\ HasBit(dkind, b))
  /\ (\E b \in ValueBits : HasBit(f, b)) => (\E b \in ValueBits : HasBit(f, b) /\ HasBit(dkind, b))
\* type filter: a homogeneous matrix of objects of type t matches, one without any object of type t does not;
\* whether a matrix that is (or still is marked) heterogeneous and contains objects of type t "is for" type t
\* is not documented.
TypeMust(d, t) == ~HasBit(d.kind, HETERO) /\ \A i \in DOMAIN d.types : d.types[i] = t
TypeMay(d, t)  == HasBit(d.kind, HETERO) /\ \E i \in DOMAIN d.types : d.types[i] = t
NameMatch(d, name) == d.hasname /\ d.name = name

\* q = [by, arg (type or name), kind]; by \in {"kind","type","name"} (a depth is translated to its type first)
QMust(d, q) == CASE q.by = "kind" -> KindFilterMatch(d.kind, q.kind)
                 [] q.by = "type" -> KindFilterMatch(d.kind, q.kind) /\ TypeMust(d, q.arg)
                 [] q.by = "name" -> NameMatch(d, q.arg)
                 [] OTHER -> FALSE
QMay(d, q)  == q.by = "type" /\ KindFilterMatch(d.kind, q.kind) /\ TypeMay(d, q.arg)
MustIdx(ds, q) == {i \in DOMAIN ds : QMust(ds[i], q)}
MayIdx(ds, q)  == {i \in DOMAIN ds : QMay(ds[i], q)}

\* result of a successful get*: nr = number of matches "even if some of them couldn't be stored";
\* the stored ones (res, min(nr_in, nr) of them) are distinct matching structures;
\* slots of the caller's array past the matches are NULL or untouched (never a pointer).
QueryRel(ds, q, nr_in, nr, res, slots) ==
  \E S \in SUBSET MayIdx(ds, q) :
    LET sel == MustIdx(ds, q) \cup S
        selseq == Pick(ds, SelectSeq([i \in 1..Len(ds) |-> i], LAMBDA i : i \in sel))
    IN /\ nr = Cardinality(sel)
       /\ Len(res) = Min2(nr_in, nr)
       /\ SubBag(res, selseq)
       /\ \A i \in 1..Len(slots) :
            IF i <= Min2(nr_in, nr) THEN slots[i] = "P"
            ELSE IF i <= nr_in THEN slots[i] \in {"N", "S"}
            ELSE slots[i] = "S"                      \* past the announced size: must not be written

\* ---------- removing ----------
\* remove_by_depth / by_type for type t: exactly the matrices for objects of that type
RemovalRel(ds, t, after) ==
  \E S \in SUBSET {i \in DOMAIN ds : TypeMay(ds[i], t)} :
     BagEq(RemoveAt(ds, {i \in DOMAIN ds : TypeMust(ds[i], t)} \cup S), after)
\* release_remove of the structure `target`: exactly one such entry disappears
RemoveOneRel(ds, target, after) ==
  \E i \in DOMAIN ds : ds[i] = target /\ BagEq(RemoveAt(ds, {i}), after)

\* ---------- transforms on a caller's copy ----------
\* a copy: [kind, objs (NULLOBJ allowed), types, sw (is the object a switch port), vals]
XF_REMOVE_NULL == 0  XF_LINKS == 1  XF_MERGE == 2  XF_CLOSURE == 3
XfBadArgs(tr, flags, attr) == flags # 0 \/ attr # 0 \/ tr \notin 0..3
OffDiag(c) == {c.vals[(ij[1] - 1) * N(c) + ij[2]] : ij \in {p \in (1..N(c)) \X (1..N(c)) : p[1] # p[2]}} \ {0}
RECURSIVE GcdSet(_)
GcdSet(S) == IF S = {} THEN 0 ELSE LET x == CHOOSE y \in S : TRUE IN Gcd(x, GcdSet(S \ {x}))
MinSet(S) == CHOOSE x \in S : \A y \in S : x <= y

\* REMOVE_NULL: exactly the non-NULL rows/columns remain; -1/EINVAL when fewer than two remain;
\* "kind will be updated with or without HETEROGENEOUS_TYPES according to the remaining objects"
RemoveNullRel(in, ret, errno, out) ==
  LET pos == NonNullPos(in.objs) IN
  IF Len(pos) < 2 THEN ret = -1 /\ errno = "EINVAL"
  ELSE /\ ret = 0
       /\ out.objs = Pick(in.objs, pos) /\ out.types = Pick(in.types, pos)
       /\ out.vals = SubMatrix(in.vals, N(in), pos)
       /\ Base(out.kind) = Base(in.kind)
       /\ \/ HasBit(out.kind, HETERO) = TypesDiffer(out.types)
          \/ Len(pos) = N(in) /\ out.kind = in.kind          \* nothing to remove: may be left alone

\* LINKS: bandwidth matrices only; on success the diagonal is 0 and every other value is divided by a common
\* divisor that turns the smallest positive value into 1 ("usually all values will be either 0 or 1");
\* the call may fail only when the smallest positive value does not divide every value.
LinksRel(in, ret, out) ==
  LET n == N(in)  od == OffDiag(in)  g == GcdSet(od) IN
  IF ~HasBit(in.kind, VAL_BW) THEN ret = -1 \/ (ret = 0 /\ out = in)
  ELSE /\ ret \in {0, -1}
       /\ ret = -1 => (od # {} /\ MinSet(od) # g)
       /\ ret = 0 => /\ out.objs = in.objs /\ out.kind = in.kind /\ Len(out.vals) = n * n
                     /\ \A i \in 1..n : At(out.vals, n, i, i) = 0
                     /\ \A i \in 1..n, j \in 1..n : i # j =>
                           IF g = 0 THEN At(out.vals, n, i, j) = 0
                           ELSE At(out.vals, n, i, j) * g = At(in.vals, n, i, j)

\* MERGE_SWITCH_PORTS: every object that is not a switch port is kept with the values between them;
\* all ports are replaced by one (the first); without any port the call fails.
MergeBody(in, ret, out) ==
  LET n == N(in)
      ports == {i \in 1..n : in.objs[i] # NULLOBJ /\ in.sw[i]}
      others == {i \in 1..n : in.objs[i] # NULLOBJ /\ ~in.sw[i]}
      m == N(out)
  IN IF ports = {} THEN ret = -1 \/ RemoveNullRel(in, ret, "EINVAL", out)      \* nothing to merge: an error, or only the NULLs go
     ELSE IF Cardinality(others) + 1 < 2 THEN ret = -1
     ELSE /\ ret = 0
          /\ m = Cardinality(others) + 1
          /\ Len(out.vals) = m * m
          \* no NULL left, exactly one port left and it is one of the original ports
          /\ \A k \in 1..m : out.objs[k] # NULLOBJ
          /\ Cardinality({k \in 1..m : out.sw[k]}) = 1
          /\ \E p \in ports : \E k \in 1..m : out.sw[k] /\ out.objs[k] = in.objs[p] /\ \A p2 \in ports : p <= p2
          \* the non-switch objects survive, in their order, with the values between them
          /\ LET opos == SelectSeq([i \in 1..n |-> i], LAMBDA i : i \in others)
                 kpos == SelectSeq([k \in 1..m |-> k], LAMBDA k : ~out.sw[k])
             IN /\ Pick(out.objs, kpos) = Pick(in.objs, opos)
                /\ SubMatrix(out.vals, m, kpos) = SubMatrix(in.vals, n, opos)
                \* "the first port, now connected to all GPUs": linked to the merged port iff linked to some port
                /\ LET kp == CHOOSE k \in 1..m : out.sw[k] IN
                   \A a \in 1..Len(opos) :
                      /\ (At(out.vals, m, kpos[a], kp) > 0) = (\E p \in ports : At(in.vals, n, opos[a], p) > 0)
                      /\ (At(out.vals, m, kp, kpos[a]) > 0) = (\E p \in ports : At(in.vals, n, p, opos[a]) > 0)
          /\ Base(out.kind) = Base(in.kind)

\* the switch transforms are documented for the (bandwidth) NVLinkBandwidth matrix; on other kinds they may also refuse
MergeRel(in, ret, out) == IF HasBit(in.kind, VAL_BW) THEN MergeBody(in, ret, out) ELSE ret = -1 \/ MergeBody(in, ret, out)

\* TRANSITIVE_CLOSURE: objects untouched; bandwidth between two non-switch objects never decreases, is unchanged when
\* no switch connects them, and becomes positive when some port links them
ClosureBody(in, ret, out) ==
  LET n == N(in)
      ports == {i \in 1..n : in.objs[i] # NULLOBJ /\ in.sw[i]}
      others == (1..n) \ ports
  IN /\ ret = 0
     /\ out.objs = in.objs /\ out.kind = in.kind /\ Len(out.vals) = n * n
     /\ \A i \in 1..n, j \in 1..n :
          LET old == At(in.vals, n, i, j)  new == At(out.vals, n, i, j) IN
          IF i \in others /\ j \in others /\ i # j
          THEN /\ new >= old
               /\ (in.objs[i] # NULLOBJ /\ in.objs[j] # NULLOBJ) =>       \* (rows of NULLed objects: not described)
                  /\ ((\A p \in ports : At(in.vals, n, i, p) = 0) \/ (\A p \in ports : At(in.vals, n, p, j) = 0)) => new = old
                  /\ (\E p \in ports : At(in.vals, n, i, p) > 0 /\ At(in.vals, n, p, j) > 0) => new > 0
          ELSE new = old

ClosureRel(in, ret, out) == IF HasBit(in.kind, VAL_BW) THEN ClosureBody(in, ret, out) ELSE ret = -1 \/ ClosureBody(in, ret, out)

TransformRel(tr, flags, attr, in, ret, errno, out) ==
  IF XfBadArgs(tr, flags, attr) THEN ret = -1
  ELSE CASE tr = XF_REMOVE_NULL -> RemoveNullRel(in, ret, errno, out)
         [] tr = XF_LINKS -> LinksRel(in, ret, out)
         [] tr = XF_MERGE -> MergeRel(in, ret, out)
         [] tr = XF_CLOSURE -> ClosureRel(in, ret, out)
=============================================================================
