---------------------------- MODULE DiagSnapshot ----------------------------
(* Diagnostic aid (not a check) for property C18: for one logged load event  *)
(* whose topology breaks the WellFormed clause SetInclusions, is the ONLY    *)
(* broken inclusion the complete_cpuset of memory objects (NUMA nodes,       *)
(* memory-side caches) against their parent's complete_cpuset?  That is the  *)
(* recorded finding "a memory child moved to another parent by a level merge *)
(* keeps the complete_cpuset of the removed object" seen on a load.          *)
EXTENDS Topology, Json, IOUtils, TLC
Ev == ndJsonDeserialize(IOEnv.EVENT)[1]
Tp == Ev.topos[Ev.slot + 1]
\* SetInclusions of Topology.tla without the complete_cpuset inclusion of memory objects in their parent
InclusionsButMemCcs(t) ==
  \A i \in Pos(t) : LET o == O(t, i) IN
    HasSets(o) =>
      /\ CS(o) \subseteq CCS(o) /\ NS(o) \subseteq CNS(o)
      /\ (o.parent # 0 /\ HasSets(O(t, o.parent))) =>
           LET p == O(t, o.parent) IN
           /\ CS(o) \subseteq CS(p) /\ (IsMem(o) \/ CCS(o) \subseteq CCS(p))
           /\ NS(o) \subseteq NS(p) /\ CNS(o) \subseteq CNS(p)
MemCcsInclusionOnly(t) == LinksResolved(t) /\ ~SetInclusions(t) /\ InclusionsButMemCcs(t)
ASSUME PrintT(<<"MEMCCSINCLUSIONONLY", MemCcsInclusionOnly(Tp)>>)
VARIABLE x
Init == x = 0
Next == x' = x
=============================================================================
