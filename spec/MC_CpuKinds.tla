---------------------------- MODULE MC_CpuKinds ----------------------------
(***************************************************************************)
(* Bounded model of the cpukinds subsystem for C15: one action per public  *)
(* entry point that can change or copy the kinds (register, restrict, dup, *)
(* XML export + import).  The constructive operators of CpuKinds.tla       *)
(* (transcription of cpukinds.c) move the state, the relations of the      *)
(* property are checked as invariants in every state, and one behaviour    *)
(* per state-graph edge (BFS, striped) or per random walk (-simulate) is   *)
(* printed for replay on the real library.                                 *)
(***************************************************************************)
EXTENDS CpuKinds, Json

CONSTANTS NA,         \* atoms are 0..NA-1
          NTopo,      \* atoms 0..NTopo-1 are the PUs of the topology, the others lie outside
          RegMasks,   \* cpusets of registrations, as bit masks over the atoms
          ResMasks,   \* cpusets of restricts
          NodeMasks,  \* nodesets of restricts (BYNODESET), as bit masks over the atoms: NUMA node n is index n
          ResFlags,   \* legal flag words of restricts
          Fams,       \* topology families: sequence of [nodes |-> set of NUMA node indexes, cpus |-> [node -> its local PUs]]
          Forced,     \* forced efficiencies
          InfoArrs,   \* sequence of info arrays (sequences of <<name, value>>); index 0 stands for a NULL pointer
          MaxReg, MaxRes, MaxAux, MaxErr,
          NStripes, Stripe, SimLen

VARIABLES kinds, req, topo, nodes, fam, nreg, nres, naux, nerr, hist

Atoms == 0 .. NA - 1
RECURSIVE Pow2(_)
Pow2(n) == IF n = 0 THEN 1 ELSE 2 * Pow2(n - 1)
MaskSet(m) == IF m < 0 THEN {} ELSE {a \in Atoms : (m \div Pow2(a)) % 2 = 1}

vars == <<kinds, req, topo, nodes, fam, nreg, nres, naux, nerr, hist>>
\* the NUMA nodes only matter to a later restrict
View == <<kinds, req, topo, IF nres < MaxRes THEN nodes ELSE {}, fam, nreg, nres, naux, nerr>>

\* the family (the synthetic topology the behaviour is replayed on) is drawn first and never changes
Init == /\ kinds = <<>> /\ req = ReqInit(Atoms) /\ topo = 0 .. NTopo - 1
        /\ fam \in DOMAIN Fams /\ nodes = Fams[fam].nodes
        /\ nreg = 0 /\ nres = 0 /\ naux = 0 /\ nerr = 0 /\ hist = <<>>

\* hwloc_cpukinds_register(), accepted
Register(m, fe, ia) ==
  /\ nreg < MaxReg
  /\ LET S == MaskSet(m)
         infos == IF ia = 0 THEN <<>> ELSE InfoArrs[ia]
     IN /\ kinds' = RegisterDo(kinds, S, fe, infos)
        /\ req' = ReqRegister(req, S, fe, infos)
  /\ nreg' = nreg + 1
  /\ hist' = Append(hist, <<"register", m, fe, 0, ia>>)
  /\ UNCHANGED <<topo, nodes, fam, nres, naux, nerr>>

\* hwloc_cpukinds_register(), rejected: NULL cpuset (mask -1), empty cpuset (mask 0), non-zero flags
RegisterBad(m, fl) ==
  /\ nerr < MaxErr
  /\ RegisterRejected(MaskSet(m), m = -1, fl)
  /\ nerr' = nerr + 1
  /\ hist' = Append(hist, <<"register", m, 1, fl, 1>>)
  /\ UNCHANGED <<kinds, req, topo, nodes, fam, nreg, nres, naux>>

\* hwloc_topology_restrict(set, f) with a legal flag word: EINVAL when it is refused (nothing would remain), else the PUs that
\* RestrictOutcome drops leave the topology and the kinds are intersected with what is left.  All PUs and nodes are allowed.
Restrict(m, f) ==
  /\ nres < MaxRes
  /\ LET S == MaskSet(m)
         o == RestrictOutcome(topo, nodes, Fams[fam].cpus, topo, nodes, f, S, S)
     IN IF RestrictRefused(o) THEN UNCHANGED <<kinds, req, topo, nodes>>
        ELSE /\ topo' = o.pus
             /\ nodes' = o.nodes
             /\ kinds' = RestrictDo(kinds, topo')
             /\ req' = ReqRestrict(req, topo')
  /\ nres' = nres + 1
  /\ hist' = Append(hist, <<"restrict", m, 0, f, 0>>)
  /\ UNCHANGED <<fam, nreg, naux, nerr>>

\* hwloc_topology_restrict() with an illegal flag word: REMOVE_CPULESS by nodeset, REMOVE_MEMLESS by cpuset, unknown bit
RestrictBad(m, f) ==
  /\ nerr < MaxErr
  /\ RestrictBadFlags(f)
  /\ nerr' = nerr + 1
  /\ hist' = Append(hist, <<"restrict", m, 0, f, 0>>)
  /\ UNCHANGED <<kinds, req, topo, nodes, fam, nreg, nres, naux>>

\* hwloc_topology_dup(): v = 0 continue on the copy, v = 1 continue on the original
Dup(v) ==
  /\ naux < MaxAux
  /\ naux' = naux + 1
  /\ hist' = Append(hist, <<"dup", v, 0, 0, 0>>)
  /\ UNCHANGED <<kinds, req, topo, nodes, fam, nreg, nres, nerr>>

\* XML export to a buffer and import in a new topology: v = 0 current format, v = 1 v2 format
Xml(v) ==
  /\ naux < MaxAux
  /\ kinds' = XmlDo(kinds)
  /\ naux' = naux + 1
  /\ hist' = Append(hist, <<"xml", v, 0, 0, 0>>)
  /\ UNCHANGED <<req, topo, nodes, fam, nreg, nres, nerr>>

\* hwloc_topology_refresh(): ranks again
Refresh ==
  /\ naux < MaxAux
  /\ kinds' = Rank(kinds)
  /\ naux' = naux + 1
  /\ hist' = Append(hist, <<"refresh", 0, 0, 0, 0>>)
  /\ UNCHANGED <<req, topo, nodes, fam, nreg, nres, nerr>>

BadRegs == {<<-1, 0>>, <<0, 0>>, <<CHOOSE m \in RegMasks : TRUE, 1>>, <<CHOOSE m \in RegMasks : TRUE, 1073741824>>}
BadRes == {<<CHOOSE m \in NodeMasks : TRUE, R_BYNODESET + R_REMOVE_CPULESS>>, <<CHOOSE m \in ResMasks : TRUE, R_REMOVE_MEMLESS>>,
           <<CHOOSE m \in ResMasks : TRUE, R_REMOVE_CPULESS + R_REMOVE_MEMLESS>>, <<CHOOSE m \in ResMasks : TRUE, 32>>}
\* the sets a flag word is tried with
MasksFor(f) == IF HasBit(f, R_BYNODESET) THEN NodeMasks ELSE ResMasks

\* exhaustive search (SimLen = 0): every step of the alphabet, one TLC action per entry point
RegisterA    == SimLen = 0 /\ \E m \in RegMasks, fe \in Forced, ia \in 0 .. Len(InfoArrs) : Register(m, fe, ia)
RegisterBadA == SimLen = 0 /\ \E b \in BadRegs : RegisterBad(b[1], b[2])
RestrictA    == SimLen = 0 /\ \E f \in ResFlags : \E m \in MasksFor(f) : Restrict(m, f)
RestrictBadA == SimLen = 0 /\ \E b \in BadRes : RestrictBad(b[1], b[2])
DupA         == SimLen = 0 /\ \E v \in {0, 1} : Dup(v)
XmlA         == SimLen = 0 /\ \E v \in {0, 1} : Xml(v)
RefreshA     == SimLen = 0 /\ Refresh

\* random walks (-simulate, SimLen > 0): the step and its arguments are drawn with RandomElement, so that TLC builds one
\* to four successors per state instead of the whole alphabet and registrations do not crowd out the other steps
SimStep ==
  \/ \E m \in {RandomElement(RegMasks)}, fe \in {RandomElement(Forced)}, ia \in {RandomElement(0 .. Len(InfoArrs))} : Register(m, fe, ia)
  \/ \E c \in {RandomElement(1 .. 100)} : c <= 45 /\ \E f \in {RandomElement(ResFlags)} : \E m \in {RandomElement(MasksFor(f))} : Restrict(m, f)
  \/ \E c \in {RandomElement(1 .. 100)} : c <= 45 /\ \E v \in {RandomElement(0 .. 4)} :
        \/ v \in {0, 1} /\ Dup(v)
        \/ v \in {2, 3} /\ Xml(v - 2)
        \/ v = 4 /\ Refresh
  \/ \E c \in {RandomElement(1 .. 100)} : c <= 12 /\ \E b \in {RandomElement(BadRegs)} : RegisterBad(b[1], b[2])
  \/ \E c \in {RandomElement(1 .. 100)} : c <= 6 /\ \E b \in {RandomElement(BadRes)} : RestrictBad(b[1], b[2])
SimA == SimLen > 0 /\ Len(hist) < SimLen /\ SimStep
\* a walk stops at SimLen steps; its history is printed once, when TLC asks for the successors of its last state
SimEndA == SimLen > 0 /\ Len(hist) = SimLen /\ PrintT(<<"SIM", ToJson(<<fam>> \o hist)>>) /\ FALSE /\ UNCHANGED vars

Next == RegisterA \/ RegisterBadA \/ RestrictA \/ RestrictBadA \/ DupA \/ XmlA \/ RefreshA \/ SimA \/ SimEndA

Spec == Init /\ [][Next]_vars

----------------------------------------------------------------------------
\* the property, on the model
TypeOK == /\ topo \subseteq Atoms /\ topo # {}
          /\ nodes \subseteq Fams[fam].nodes /\ nodes # {}
          /\ \A i \in DOMAIN kinds : kinds[i].cs \subseteq Atoms /\ kinds[i].forced >= Unknown
PropertyHolds == KindsOK(Proj(kinds), req)
LookupHolds == LET pk == Proj(kinds) IN
               \A S \in SUBSET Atoms : LET r == GbcDo(kinds, S) IN GbcRel(pk, S, r[1], r[2])
\* model-level expectations (not part of the oracle): an XML round trip and a refresh do not change what is observable
XmlStable == Proj(XmlDo(kinds)) = Proj(kinds)
RankStable == Proj(Rank(kinds)) = Proj(kinds)

----------------------------------------------------------------------------
\* emission
RECURSIVE HSum(_)
HSum(h) == IF h = <<>> THEN 0
           ELSE LET o == Head(h) IN (Len(o[1]) + 7 * (o[2] + 1) + 3 * (o[3] + 8) + 5 * (o[4] % 1000) + 11 * o[5] + 3 * HSum(Tail(h))) % 1000003
EmitEdge == ((HSum(hist') + fam) % NStripes = Stripe) => PrintT(<<"EDGE", ToJson(<<fam>> \o hist')>>)
=============================================================================
