--------------------------- MODULE MC_IndepCalls ---------------------------
(***************************************************************************)
(* Generator of independent histories for property C17: Threads threads,   *)
(* each with its own IndepCalls state; a step is one whole call of one     *)
(* thread (hist records the interleaving at call granularity).             *)
(*  - Mode "bfs" (one thread): breadth-first search under the view "set of *)
(*    enabled outcome classes"; every generated transition prints its      *)
(*    history, so every outcome class of the alphabet that is enabled in   *)
(*    an explored state is the last call of some emitted history;          *)
(*  - Mode "sim" (2+ threads): random interleaved walks of MaxLen calls    *)
(*    (thread, then operation name, then instance drawn uniformly), the    *)
(*    schedule is printed at the end of the walk.                          *)
(* The recorder runs an emitted history three times: single-threaded (the  *)
(* reference), with the emitted schedule forced call by call, and with the *)
(* threads free-running.                                                   *)
(***************************************************************************)
EXTENDS IndepCalls, Sequences, Json

CONSTANTS Threads, MaxLen, Mode
VARIABLES ts, hist
vars == <<ts, hist>>

Init == ts = [i \in Threads |-> TState0] /\ hist = <<>>

Do(i, op) == /\ ts' = [ts EXCEPT ![i] = Effect(ts[i], op)]
             /\ hist' = Append(hist, [t |-> i, op |-> op, c |-> Class(ts[i], op)])

BfsStep == /\ Mode = "bfs" /\ Len(hist) < MaxLen
           /\ \E i \in Threads : \E op \in Enabled(ts[i]) : Do(i, op)

\* coverage-guided draw: seven times out of eight among the operations whose outcome class the thread has not exercised yet in
\* this walk (the calls that are always enabled and always fail are then taken once, and the walk moves on to the states
\* where the deeper classes are enabled), otherwise among all enabled operations
SimStep == /\ Mode = "sim" /\ Len(hist) < MaxLen
           /\ \E i \in {RandomElement(Threads)} :
                LET en == Enabled(ts[i])
                    seen == {hist[k].c : k \in {k \in 1..Len(hist) : hist[k].t = i}}
                    fresh == {o \in en : Class(ts[i], o) \notin seen}
                IN
                \E pool \in {IF fresh # {} /\ RandomElement(1..8) > 1 THEN fresh ELSE en} :
                  \E n \in {RandomElement({op[1] : op \in pool})} :
                    \E op \in {RandomElement({o \in pool : o[1] = n})} : Do(i, op)
SimEnd == /\ Mode = "sim" /\ Len(hist) = MaxLen
          /\ PrintT(<<"SIM", ToJson(hist)>>)
          /\ FALSE /\ UNCHANGED vars

Next == BfsStep \/ SimStep \/ SimEnd
Spec == Init /\ [][Next]_vars

View == [i \in Threads |-> Classes(ts[i])]
Emit == Mode = "bfs" => PrintT(<<"EDGE", ToJson(hist')>>)

(* the model never lets a thread touch what it does not own, and its own accounting obeys the balance law: the number of *)
(* topologies a thread owns is the sum of the net effects of its calls (Registry.tla) - what TraceConcurrency.tla then    *)
(* demands of the real user count                                                                                        *)
Owned(i) == Cardinality({s \in Slots : ts[i].slot[s].k # "free"})
RECURSIVE NetOf(_, _, _)
NetOf(i, k, before) ==
  IF k > Len(hist) THEN 0
  ELSE LET h == hist[k] IN
       IF h.t # i THEN NetOf(i, k + 1, before)
       ELSE LET after == Effect(before, h.op)
                grew == Cardinality({s \in Slots : after.slot[s].k # "free"}) - Cardinality({s \in Slots : before.slot[s].k # "free"})
            IN Net(h.op[1], grew = 1) + NetOf(i, k + 1, after)
ModelBalanced == \A i \in Threads : Owned(i) = NetOf(i, 1, TState0)
AlphabetOK == \A i \in Threads : \A op \in Enabled(ts[i]) : op[1] \in AllOps
=============================================================================
