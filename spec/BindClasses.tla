---------------------------- MODULE BindClasses ----------------------------
(***************************************************************************)
(* C10 - boundary classes of the inputs of the binding API, computed from  *)
(* the clauses of the oracle (Bind.tla).  Generation only (nothing here    *)
(* accepts or rejects a trace):                                            *)
(*   ShapeSig   which of the set identities the oracle's FixSet / Whole /  *)
(*              conversion clauses rely on hold in a topology;             *)
(*   CpuSig, NodeSig  which branch of CpuBad / CpuFix / MemSetBad /        *)
(*              Unmappable / MemFix / NativeSetMem a set takes;            *)
(*   Reps       the smallest member of every class.                        *)
(* A topology tp is the record of Bind.tla.  Sets are sets of integers; in *)
(* the bounded model OutAtom is outside every complete set and InfAtom is  *)
(* the infinite tail.                                                      *)
(***************************************************************************)
EXTENDS Bind

OutAtom == 7
InfAtom == 8

(* ------------------------------------------------------------------ *)
(* topologies                                                          *)
(* ------------------------------------------------------------------ *)
\* <<no disallowed PU, no disallowed node, no CPU-less node, no PU without a local node, some node has PUs>>
ShapeSig(tp) == <<tp.cs = tp.cc,
                  tp.ns = tp.nc,
                  NodesOf(tp, tp.cs) = tp.ns,
                  CpusOf(tp, tp.ns) = tp.cs,
                  CpusOf(tp, tp.ns) # {}>>

(* ------------------------------------------------------------------ *)
(* sets                                                                *)
(* ------------------------------------------------------------------ *)
Size3(S) == IF Cardinality(S) < 2 THEN Cardinality(S) ELSE 2      \* none / one / several

\* a cpuset argument of a memory binding call (no HWLOC_MEMBIND_BYNODESET)
CpuSig(tp, S) ==
  IF S = {} THEN <<"empty">>
  ELSE IF ~(S \subseteq tp.cc) THEN <<"outside", InfAtom \in S, S \cap tp.cc # {}>>
  ELSE LET N == NodesOf(tp, S) IN
       <<"valid",
         tp.cs \subseteq S,                 \* covers the topology: replaced by the complete set
         S = tp.cc,
         S \cap (tp.cc \ tp.cs) # {},       \* names a disallowed PU
         Size3(N),                          \* converts to no / one / several nodes
         tp.ns \subseteq N,                 \* the conversion covers the topology nodeset
         N \cap tp.kmems # {}>>             \* the kernel can serve some of it

\* a nodeset argument (HWLOC_MEMBIND_BYNODESET)
NodeSig(tp, N) ==
  IF N = {} THEN <<"empty">>
  ELSE IF ~(N \subseteq tp.nc) THEN <<"outside", InfAtom \in N, N \cap tp.nc # {}>>
  ELSE <<"valid",
         tp.ns \subseteq N,                 \* covers the topology: replaced by the complete set
         N = tp.nc,
         N \cap (tp.nc \ tp.ns) # {},       \* names a disallowed node
         Size3(N),
         CpusOf(tp, N) = {},                \* only CPU-less nodes
         N \cap tp.kmems # {},
         N \subseteq tp.kmems>>

\* the smallest member (the first in TLC's order among equals) of every class of F under Sig(_)
Reps(F, Sig(_)) ==
  LET Least(C) == CHOOSE S \in C : \A S2 \in C : Cardinality(S) <= Cardinality(S2)
  IN {Least({S \in F : Sig(S) = g}) : g \in {Sig(S) : S \in F}}

CpuClasses(tp, atoms)  == LET Sig(S) == CpuSig(tp, S)  IN Reps(SUBSET atoms, Sig)
NodeClasses(tp, atoms) == LET Sig(S) == NodeSig(tp, S) IN Reps(SUBSET atoms, Sig)
=============================================================================
