-------------------------- MODULE TraceDistances --------------------------
(***************************************************************************)
(* Trace validation for C13: every event recorded from the real library by *)
(* harness/hwv_distances must be explained by the relations of Distances.  *)
(* The state is what the property talks about: the bag of committed        *)
(* structures (ds) and the half-built add handle (h).  Every event carries *)
(* the complete observable state after the call ("obs": hwloc_distances_get*)
(* with a large array), which must be the state the relation allows.       *)
(* Every logged field of every event is bound by some conjunct.            *)
(***************************************************************************)
EXTENDS Distances, Json, IOUtils, TLC

T == ndJsonDeserialize(IOEnv.TRACE)

VARIABLES l, ds, h
vars == <<l, ds, h>>

\* ---------- projections of logged structures ----------
\* logged object: <<gp, type, here, sw>>; here = the pointer is an object of the topology that was queried
ObjId(o)   == [i \in 1..Len(o.objs) |-> o.objs[i][1]]
ObjType(o) == [i \in 1..Len(o.objs) |-> o.objs[i][2]]
ObjSw(o)   == [i \in 1..Len(o.objs) |-> o.objs[i][4] = 1]
AllHere(o) == \A i \in 1..Len(o.objs) : o.objs[i][3] = 1
Shape(o)   == o.n = Len(o.objs) /\ Len(o.vals) = o.n * o.n /\ \A k \in 1..Len(o.vals) : o.vals[k] \in Nat
\* a structure as stored in the topology (objects all real)
D(o) == [name |-> o.name, hasname |-> o.hasname = 1, kind |-> o.kind, objs |-> ObjId(o), types |-> ObjType(o), vals |-> o.vals]
StoredOK(o) == /\ Shape(o) /\ AllHere(o) /\ \A i \in 1..Len(o.objs) : o.objs[i][1] >= 0
               /\ o.hasname \in {0, 1} /\ (o.hasname = 0 => o.name = "")
               /\ WellFormed(D(o))
\* a caller's copy handed to hwloc_distances_transform (NULL objects possible)
C(o) == [kind |-> o.kind, objs |-> ObjId(o), types |-> ObjType(o), sw |-> ObjSw(o), vals |-> o.vals]

ObsR(o) == [i \in 1..Len(o.l) |-> D(o.l[i])]
ObsROK(o) == /\ o.ret = 0 /\ o.nr = Len(o.l)
             /\ \A i \in 1..Len(o.l) : StoredOK(o.l[i])
Obs(e) == ObsR(e.obs)
ObsOK(e) == ObsROK(e.obs)
\* the call left the committed structures alone
Untouched(e) == ObsOK(e) /\ BagEq(ds, Obs(e)) /\ ds' = Obs(e)
Alive(e) == {e.surv[i][1] : i \in {j \in 1..Len(e.surv) : e.surv[j][2] = 1}}
Mentioned(e) == {e.surv[i][1] : i \in 1..Len(e.surv)}

IsEvent(name) == l <= Len(T) /\ T[l].e = name /\ l' = l + 1
e == T[l]

Init == l = 1 /\ ds = <<>> /\ h = NoHandle

TReset == /\ IsEvent("Reset")
          /\ e.ok = 1 /\ e.mode \in {"synth", "xml"} /\ e.src # "" /\ e.beh \in Int
          /\ \A i \in 1..Len(e.cands) : e.cands[i][1] > 0 /\ e.cands[i][2] # "" /\ e.cands[i][3] \in {0, 1}
          /\ ObsOK(e)
          /\ (e.mode = "synth" => e.obs.nr = 0)
          \* root sets and per-object sets only help the orchestration to choose restrict sets; they must describe
          \* exactly the objects the stored structures mention
          /\ Len(e.root) = 2 /\ e.root[1] # ""
          /\ {e.objsets[i][1] : i \in 1..Len(e.objsets)} = UNION {Range(ObjId(e.obs.l[i])) : i \in 1..Len(e.obs.l)}
          /\ \A i \in 1..Len(e.objsets) : Len(e.objsets[i]) = 4 /\ e.objsets[i][2] # ""
          /\ ds' = Obs(e) /\ h' = NoHandle

TCreate == /\ IsEvent("create")
           /\ e.hasname \in {0, 1} /\ (e.hasname = 0 => e.name = "")
           /\ CreateRel(e.kind, e.flags, e.ok = 1)
           /\ e.ok \in {0, 1} /\ (e.ok = 1 <=> e.errno = "0")
           /\ h' = IF e.ok = 1 THEN Created(e.name, e.hasname = 1, e.kind) ELSE NoHandle
           /\ Untouched(e)

TValues == /\ IsEvent("values")
           /\ Shape(e) /\ AllHere(e)
           /\ ValuesRel(h, ObjId(e), e.flags, e.ret)
           /\ (e.ret = 0 <=> e.errno = "0")
           /\ h' = AfterValues(h, ObjId(e), ObjType(e), e.vals, e.ret)
           /\ Untouched(e)

TCommit == /\ IsEvent("commit")
           /\ CommitRel(h, e.flags, e.ret)
           /\ (e.ret = 0 <=> e.errno = "0")
           \* when grouping was requested hwloc_topology_check() ran (in a child process) and must have returned;
           \* otherwise the recorder does not run it (-1)
           /\ e.check_ok = (IF HasBit(e.flags, 1) THEN 1 ELSE -1)
           /\ ObsOK(e)
           /\ IF e.ret = 0 THEN SameUpToHet(Append(ds, Entry(h)), Obs(e)) ELSE BagEq(ds, Obs(e))
           /\ ds' = Obs(e) /\ h' = NoHandle

\* get / get_by_type / get_by_depth / get_by_name
QOf == [by |-> IF e.by = "depth" THEN "type" ELSE e.by,
        arg |-> IF e.by = "depth" THEN e.dtype ELSE e.arg,
        kind |-> e.kind]
TQuery == /\ IsEvent("q")
          /\ e.by \in {"kind", "type", "depth", "name"}
          /\ e.by = "depth" => e.depth \in Int
          /\ e.nr_in >= 0 /\ Len(e.slots) = e.nr_in + 1
          /\ \A i \in 1..Len(e.res) : StoredOK(e.res[i])
          /\ e.ret \in {0, -1} /\ (e.ret = 0 <=> e.errno = "0")
          /\ LET good == /\ e.ret = 0
                         /\ QueryRel(ds, QOf, e.nr_in, e.nr, [i \in 1..Len(e.res) |-> D(e.res[i])], e.slots)
                 failed == e.ret = -1 /\ e.res = <<>> /\ \A i \in 1..Len(e.slots) : e.slots[i] # "P"
             IN IF e.flags # 0 THEN failed \/ good                      \* "flags ... should be 0"
                ELSE IF e.by = "depth" /\ e.dtype = "" THEN failed \/ (good /\ e.nr = 0)    \* no such level
                ELSE good
          /\ Untouched(e) /\ UNCHANGED h

TXf == /\ IsEvent("xf")
       /\ StoredOK(e.before) /\ e.k \in 0..(Len(ds) - 1) /\ \E i \in DOMAIN ds : ds[i] = D(e.before)
       /\ Shape(e.input) /\ AllHere(e.input) /\ Shape(e.after) /\ AllHere(e.after)
       /\ e.input.n = e.before.n /\ e.input.kind = e.before.kind /\ e.input.vals = e.before.vals
       /\ \A i \in 1..e.input.n : e.input.objs[i] = e.before.objs[i] \/ (e.input.objs[i][1] = NULLOBJ /\ HasBit(e.mask, 2 ^ (i - 1)))
       /\ e.ret \in {0, -1} /\ (e.ret = 0 <=> e.errno = "0")
       /\ TransformRel(e.tr, e.flags, e.attr, C(e.input), e.ret, e.errno, C(e.after))
       /\ Untouched(e) /\ UNCHANGED h                  \* a transform works on the caller's copy only

TRr == /\ IsEvent("rr")
       /\ StoredOK(e.target) /\ e.k \in 0..(Len(ds) - 1)
       /\ e.ret = 0 /\ e.errno = "0" /\ e.ret2 = 0 /\ e.errno2 = "0"
       /\ ObsOK(e) /\ RemoveOneRel(ds, D(e.target), Obs(e))
       /\ ds' = Obs(e) /\ UNCHANGED h
\* the same structure obtained twice: the second release_remove finds nothing to remove
TRr2 == /\ IsEvent("rr2")
        /\ StoredOK(e.target) /\ e.k \in 0..(Len(ds) - 1)
        /\ e.ret = 0 /\ e.errno = "0" /\ e.ret2 = -1 /\ e.errno2 # "0"
        /\ ObsOK(e) /\ RemoveOneRel(ds, D(e.target), Obs(e))
        /\ ds' = Obs(e) /\ UNCHANGED h

TRemove == /\ IsEvent("remove")
           /\ e.ret = 0 /\ e.errno = "0"
           /\ ObsOK(e) /\ Obs(e) = <<>>
           /\ ds' = <<>> /\ UNCHANGED h

TRmDepth == /\ IsEvent("rmdepth")
            /\ e.depth \in Int /\ (e.ret = 0 <=> e.errno = "0")
            /\ ObsOK(e)
            /\ IF e.dtype = "" THEN e.ret \in {0, -1} /\ BagEq(ds, Obs(e))
               ELSE e.ret = 0 /\ RemovalRel(ds, e.dtype, Obs(e))
            /\ ds' = Obs(e) /\ UNCHANGED h
TRmType == /\ IsEvent("rmtype")
           /\ e.ret = 0 /\ e.errno = "0"
           /\ ObsOK(e)
           /\ IF e.tdepth \in {-1, -2} THEN BagEq(ds, Obs(e))         \* UNKNOWN / MULTIPLE: documented no-op
              ELSE RemovalRel(ds, e.type, Obs(e))
           /\ ds' = Obs(e) /\ UNCHANGED h

\* restrict / dup / XML round trip: the structures follow the objects
Follows == /\ ObsOK(e)
           /\ \A i \in DOMAIN ds : Range(ds[i].objs) \subseteq Mentioned(e)
           /\ SameUpToHet(RestrictAll(ds, Alive(e)), Obs(e))
           /\ ds' = Obs(e)
TRestrict == /\ IsEvent("restrict")
             /\ e.flags \in Nat /\ e.set # ""
             /\ h.st # "filled"
             /\ e.ret \in {0, -1} /\ (e.ret = 0 <=> e.errno = "0")
             /\ IF e.ret = 0 THEN Follows ELSE Untouched(e)             \* a failed restrict removes nothing
             /\ UNCHANGED h
TDup == /\ IsEvent("dup")
        /\ h.st = "none"
        /\ e.ret = 0 /\ e.errno = "0"
        /\ Follows /\ UNCHANGED h
TXml == /\ IsEvent("xml")
        /\ h.st = "none" /\ e.flags \in Nat
        /\ e.ret = 0 /\ e.errno = "0" /\ e.lret = 0 /\ e.lerrno = "0"
        /\ Follows /\ UNCHANGED h

\* shared-memory adoption: the adopted topology shows the same structures, on its own objects, and is read-only
TShm == /\ IsEvent("shm")
        /\ e.lret = 0
        /\ IF e.wret = 0 /\ e.aret = 0
           THEN /\ e.werrno = "0" /\ e.aerrno = "0"
                /\ ObsROK(e.adopted.obs)
                /\ \A i \in DOMAIN ds : Range(ds[i].objs) \subseteq Mentioned(e)
                /\ SameUpToHet(RestrictAll(ds, Alive(e)), ObsR(e.adopted.obs))
                /\ e.rmret = -1 /\ e.rmerrno # "0" /\ e.crok = 0 /\ e.crerrno # "0"       \* "the topology is read-only"
                /\ e.adopted2 = e.adopted
           ELSE /\ "EBUSY" \in {e.werrno, e.aerrno}                 \* the mapping address was not available: nothing to see
                /\ e.surv = <<>> /\ e.rmret = 0 /\ e.crok = 0
        /\ Untouched(e) /\ UNCHANGED h

\* a call the recorder could not make
TSkip == /\ IsEvent("skip")
         /\ CASE e.op \in {"values", "commit"} -> h.st = "none" /\ e.handle = 0
              [] e.op \in {"xf", "rr", "rr2"} -> e.k \notin 0..(Len(ds) - 1) /\ e.nr = Len(ds)
              [] e.op = "restrict" -> h.st = "filled" /\ e.filled = 1
              [] e.op \in {"dup", "xml"} -> h.st # "none" /\ e.handle = 1
              [] OTHER -> FALSE
         /\ UNCHANGED <<ds, h>>

Next == TReset \/ TCreate \/ TValues \/ TCommit \/ TQuery \/ TXf \/ TRr \/ TRr2 \/ TRemove \/ TRmDepth \/ TRmType
        \/ TRestrict \/ TDup \/ TXml \/ TShm \/ TSkip
Spec == Init /\ [][Next]_vars

Accepted == TLCGet("stats").diameter - 1 = Len(T)
=============================================================================
