--------------------------- MODULE TraceMemAttrs ---------------------------
(***************************************************************************)
(* Trace validation for C14: every event recorded from the real library by *)
(* harness/hwv_memattrs must be explained by the abstract state of         *)
(* MemAttrs.tla (topology, registered attributes, reference table, weak    *)
(* targets) and the relations of the property.  All fields are logged, so  *)
(* the state is a function of the prefix and the search is linear.         *)
(* The topology after restrict / dup / XML import is taken from the log    *)
(* (what restrict removes is property C08); the attributes are judged      *)
(* relative to it.                                                         *)
(***************************************************************************)
EXTENDS MemAttrs, Json, IOUtils

CONSTANTS Advisory,    \* TRUE: also demand the advisory maximality of the default nodeset (never used for verdicts)
          Diag         \* TRUE: print the first logged query that breaks its relation (diagnosis of a rejected replay)

\* a checked item: with Diag, the failing one is printed
Chk(tag, item, ok) == ok \/ (Diag /\ PrintT("FAILED " \o tag \o ": " \o ToString(item)) /\ FALSE)

T == ndJsonDeserialize(IOEnv.TRACE)

VARIABLES l,      \* position in the trace
          S,      \* abstract state [topo, user, ref, weak]
          nos,    \* NUMA node id -> OS index
          ncs,    \* number of declared query cpusets (-1: candidates chosen by the recorder)
          pend    \* a loaded topology whose stored values have not been adopted yet
vars == <<l, S, nos, ncs, pend>>

(* ---------------- decoding of the log ---------------- *)
IniOf(js) == IF js[1] = "c" THEN CpuIni(ToSet(js[2]))
             ELSE IF js[1] = "o" THEN ObjIni(js[2])
             ELSE [k |-> js[1], s |-> {}, o |-> ""]
NodeIdx(js, n) == CHOOSE i \in DOMAIN js.nodes : js.nodes[i][1] = n
ObjIdx(js, o) == CHOOSE i \in DOMAIN js.objs : js.objs[i][1] = o
TopoOf(js) ==
  LET nodes == {js.nodes[i][1] : i \in DOMAIN js.nodes}
      decl == {js.objs[i][1] : i \in DOMAIN js.objs}
  IN [pus |-> ToSet(js.pus), nodes |-> nodes,
      ncpus |-> [n \in nodes |-> ToSet(js.nodes[NodeIdx(js, n)][3])],
      nmem |-> [n \in nodes |-> js.nodes[NodeIdx(js, n)][4]],
      objs |-> {o \in decl : js.objs[ObjIdx(js, o)][2] = 1},
      ocpus |-> [o \in decl |-> ToSet(js.objs[ObjIdx(js, o)][3])],
      ohas |-> [o \in decl |-> js.objs[ObjIdx(js, o)][4] = 1]]
NosOf(js) == [n \in {js.nodes[i][1] : i \in DOMAIN js.nodes} |-> js.nodes[NodeIdx(js, n)][2]]
\* the projection is self-consistent: distinct nodes, the topology nodeset is the set of their OS indexes,
\* cpusets inside the machine cpuset
TopoWF(js) ==
  /\ \A i, j \in DOMAIN js.nodes : i # j => (js.nodes[i][1] # js.nodes[j][1] /\ js.nodes[i][2] # js.nodes[j][2])
  /\ ToSet(js.ns) = {js.nodes[i][2] : i \in DOMAIN js.nodes}
  /\ \A i \in DOMAIN js.nodes : ToSet(js.nodes[i][3]) \subseteq ToSet(js.pus)
  /\ \A i, j \in DOMAIN js.objs : i # j => js.objs[i][1] # js.objs[j][1]
  /\ \A i \in DOMAIN js.objs : js.objs[i][1] \notin {js.nodes[k][1] : k \in DOMAIN js.nodes}

\* get_name / get_flags for every identifier, the first invalid identifier, get_by_name
ListingOK(e, user) ==
  LET all == Predef \o user IN
  /\ Len(e.al) = Len(all)
  /\ \A i \in DOMAIN e.al : e.al[i][1] = i - 1 /\ e.al[i][2] = all[i].name /\ e.al[i][3] = all[i].flags
  /\ e.inv = <<Len(all), -1, "EINVAL", -1, "EINVAL">>
  /\ \A k \in DOMAIN e.bn :
       LET b == e.bn[k]   ai == AttrInfo(user, b[1]) IN
       IF ai.known THEN b[2] = 0 /\ b[4] = ai.id ELSE b[2] = -1 /\ b[3] = "EINVAL" /\ b[4] = -1
UserOfListing(al) == [i \in 1..(Len(al) - NPredef) |-> [name |-> al[NPredef + i][2], flags |-> al[NPredef + i][3]]]

(* ---------------- one observed attribute ---------------- *)
FilledInis(f) == [i \in DOMAIN f |-> <<IniOf(f[i][1]), f[i][2]>>]
ObsAttrOK(St, ar) ==
  LET a == ar.n   ai == AttrInfo(St.user, a)
      ntg == Cardinality(St.topo.nodes) + Cardinality(St.topo.objs)
      ncand == 3 + ncs + Cardinality(St.topo.objs)
  IN /\ ar.id = ai.id /\ ar.fl = ai.flags
     /\ ncs >= 0 => /\ Len(ar.gv) = ntg * (ncand + 1)
                    /\ Len(ar.bt) = ncand + 1
                    /\ Len(ar.bi) = ntg
     /\ \A i \in DOMAIN ar.gv :
          LET g == ar.gv[i] IN Chk("get_value " \o a, g, HasObj(St.topo, g[1]) /\ GetValueOK(St, ai, a, g[1], IniOf(g[2]), g[3], g[4], g[5], g[6]))
     /\ \A i \in DOMAIN ar.gt :
          LET g == ar.gt[i] IN Chk("get_targets " \o a, g, GetTargetsOK(St, ai, a, IniOf(g[1]), g[2], g[3], g[4], g[5], g[6]))
     /\ \A i \in DOMAIN ar.gi :
          LET g == ar.gi[i] IN Chk("get_initiators " \o a, g, HasObj(St.topo, g[1]) /\ GetInitiatorsOK(St, ai, a, g[1], g[2], g[3], g[4], g[5], FilledInis(g[6])))
     /\ \A i \in DOMAIN ar.bt :
          LET g == ar.bt[i] IN Chk("get_best_target " \o a, g, BestTargetOK(St, ai, a, IniOf(g[1]), g[2], g[3], g[4], g[5], g[6]))
     /\ \A i \in DOMAIN ar.bi :
          LET g == ar.bi[i] IN Chk("get_best_initiator " \o a, g, HasObj(St.topo, g[1]) /\ BestInitiatorOK(St, ai, a, g[1], g[2], g[3], IniOf(g[4]), g[5]))
     \* every nr_in variant of the enumerations was exercised for every target / candidate
     /\ ncs >= 0 => /\ {IniOf(ar.gt[i][1]) : i \in DOMAIN ar.gt} = {IniOf(ar.bt[i][1]) : i \in DOMAIN ar.bt}
                    /\ {ar.gi[i][1] : i \in DOMAIN ar.gi} = St.topo.nodes \cup St.topo.objs
                    /\ \A i \in DOMAIN ar.gt : \E j \in DOMAIN ar.gt : ar.gt[j][1] = ar.gt[i][1] /\ ar.gt[j][2] > ar.gt[j][5]
                    /\ \A i \in DOMAIN ar.gi : \E j \in DOMAIN ar.gi : ar.gi[j][1] = ar.gi[i][1] /\ ar.gi[j][2] > ar.gi[j][5]

(* ---------------- adoption of a loaded store (bundled inputs) ---------------- *)
\* the stored entries as enumerated by get_targets / get_initiators with a large enough array
AdoptAttr(user, ar) ==
  LET a == ar.n   ai == AttrInfo(user, a) IN
  IF ~ai.known \/ IsConv(a) THEN {}
  ELSE IF NeedIni(ai.flags) THEN
       UNION {{Entry(a, ar.gi[i][1], IniOf(ar.gi[i][6][k][1]), ar.gi[i][6][k][2]) : k \in DOMAIN ar.gi[i][6]} :
              i \in {j \in DOMAIN ar.gi : ar.gi[j][3] = 0 /\ ar.gi[j][2] >= ar.gi[j][5]}}
  ELSE UNION {{Entry(a, ar.gt[i][6][k][1], NoIni, ar.gt[i][6][k][2]) : k \in DOMAIN ar.gt[i][6]} :
              i \in {j \in DOMAIN ar.gt : ar.gt[j][1][1] = "n" /\ ar.gt[j][3] = 0 /\ ar.gt[j][2] >= ar.gt[j][5]}}
AdoptRef(user, as) == UNION {AdoptAttr(user, as[k]) : k \in DOMAIN as}
AdoptWeak(ref) == {<<e.a, e.t>> : e \in {x \in ref : \E y \in ref : y # x /\ y.a = x.a /\ y.t = x.t /\
                                             (y.ini = x.ini \/ (x.ini.k = "c" /\ y.ini.k = "c" /\ x.ini.s \cap y.ini.s # {}))}}

(* ---------------- actions ---------------- *)
\* Each action is  IsEvent /\ Holds(<check of every logged field>) /\ <next state as a function of the event>.
\* Holds() makes TLC evaluate the check as one Boolean (quantifiers and disjunctions inside an action would
\* otherwise be enumerated as alternative successor states).
Holds(b) == b = TRUE

Init == /\ l = 1
        /\ S = [topo |-> [pus |-> {}, nodes |-> {}, ncpus |-> <<>>, nmem |-> <<>>, objs |-> {}, ocpus |-> <<>>, ohas |-> <<>>],
                user |-> <<>>, ref |-> {}, weak |-> {}, pool |-> {}]
        /\ nos = <<>> /\ ncs = 0 /\ pend = FALSE

IsEvent(e) == l <= Len(T) /\ T[l].e = e /\ l' = l + 1
Running(e) == IsEvent(e) /\ ~pend /\ pend' = pend /\ ncs' = ncs

ResetUser(e) == IF e.adopt = 1 THEN UserOfListing(e.al) ELSE <<>>
ResetCheck(e) ==
  /\ e.ok = 1 /\ e.adopt \in {0, 1}
  /\ TopoWF(e.topo)
  /\ \A i, j \in DOMAIN e.cs : i # j => e.cs[i] # e.cs[j]
  /\ Len(e.al) >= NPredef
  /\ ListingOK(e, ResetUser(e))
  /\ \A i \in DOMAIN ResetUser(e) : LegalFlags(ResetUser(e)[i].flags)
TReset ==
  /\ IsEvent("Reset")
  /\ Holds(ResetCheck(T[l]))
  /\ S' = [topo |-> TopoOf(T[l].topo), user |-> ResetUser(T[l]), ref |-> {}, weak |-> {}, pool |-> {}]
  /\ nos' = NosOf(T[l].topo)
  /\ ncs' = IF T[l].adopt = 1 THEN -1 ELSE Len(T[l].cs)
  /\ pend' = (T[l].adopt = 1)

AdoptState(e) == LET ref == AdoptRef(S.user, e.a) IN
  [S EXCEPT !.ref = ref, !.weak = AdoptWeak(ref), !.pool = {[a |-> x.a, t |-> x.t, val |-> x.val] : x \in ref}]
AdoptCheck(e) ==
  LET St == AdoptState(e) IN
  /\ ListingOK(e, S.user)
  /\ {e.a[k].n : k \in DOMAIN e.a} = {e.al[i][2] : i \in DOMAIN e.al}
  /\ \A x \in St.ref : HasObj(S.topo, x.t)
  /\ \A k \in DOMAIN e.a : ObsAttrOK(St, e.a[k])
TAdopt ==
  /\ IsEvent("Adopt") /\ pend /\ pend' = FALSE /\ ncs' = ncs
  /\ Holds(AdoptCheck(T[l]))
  /\ S' = AdoptState(T[l])
  /\ UNCHANGED nos

RegisterNext(e) == IF e.ret = 0 THEN RegisterApply(S, e.name, e.flags) ELSE S
RegisterCheck(e) ==
  /\ RegisterOK(S, e.name, e.flags, e.ret, e.errno, e.id)
  /\ e.ret # 0 => e.id = -1
  /\ ListingOK(e, RegisterNext(e).user)
TRegister ==
  /\ Running("Register")
  /\ Holds(RegisterCheck(T[l]))
  /\ S' = RegisterNext(T[l])
  /\ UNCHANGED nos

SetNext(e) ==
  IF e.skip = 1 \/ e.ret # 0 THEN S ELSE SetApply(S, AttrInfo(S.user, e.attr), e.attr, e.t, IniOf(e.ini), e.v)
SetCheck(e) ==
  LET q == IniOf(e.ini)   ai == AttrInfo(S.user, e.attr) IN
  IF e.skip = 1 THEN
     \* the recorder could not find the target or the initiator object: they are indeed absent
     ~HasObj(S.topo, e.t) \/ (q.k = "o" /\ ~HasObj(S.topo, q.o))
  ELSE
     /\ HasObj(S.topo, e.t) /\ (q.k = "o" => HasObj(S.topo, q.o))
     /\ e.id = ai.id
     /\ SetRetOK(S, ai, e.attr, e.t, q, e.flags, e.ret, e.errno)
TSetValue ==
  /\ Running("SetValue")
  /\ Holds(SetCheck(T[l]))
  /\ S' = SetNext(T[l])
  /\ UNCHANGED nos

RestrictCheck(e) ==
  LET t2 == TopoOf(e.topo) IN
  /\ TopoWF(e.topo)
  /\ e.by \in {"c", "n"}
  /\ IF e.ret = 0 THEN /\ RestrictTopoOK(S.topo, t2)
                       /\ \A n \in t2.nodes : NosOf(e.topo)[n] = nos[n]
     ELSE e.ret = -1 /\ t2 = S.topo /\ NosOf(e.topo) = nos      \* a failed restrict leaves the topology alone
TRestrict ==
  /\ Running("Restrict")
  /\ Holds(RestrictCheck(T[l]))
  /\ S' = IF T[l].ret = 0 THEN RestrictApply(S, TopoOf(T[l].topo)) ELSE S
  /\ nos' = NosOf(T[l].topo)

\* hwloc_topology_dup: the copy (Dup: the behaviour continues on it; DupDrop: it is destroyed, the original goes on)
DupCheck(e) ==
  /\ e.ret = 0
  /\ TopoWF(e.topo) /\ TopoOf(e.topo) = S.topo /\ NosOf(e.topo) = nos
  /\ ListingOK(e, S.user)
TDup ==
  /\ (Running("Dup") \/ Running("DupDrop"))
  /\ Holds(DupCheck(T[l]))
  /\ UNCHANGED <<S, nos>>

\* XML export + import.  Default format: same topology, same attributes (identifiers may be reassigned), same
\* values.  v2 format (flag 2): the header warns that it "may miss some details", so nothing is demanded beyond
\* success; the reloaded store has to be adopted afresh (next event) before anything else is judged.
XmlCheck(e) ==
  /\ e.ret = 0 /\ e.lret = 0 /\ e.flags \in {0, 2}
  /\ TopoWF(e.topo)
  /\ Len(e.al) >= NPredef
  /\ ListingOK(e, UserOfListing(e.al))
  /\ e.flags = 0 => /\ TopoOf(e.topo) = S.topo /\ NosOf(e.topo) = nos
                    /\ Len(e.al) = NPredef + Len(S.user)
                    /\ ToSet(UserOfListing(e.al)) = ToSet(S.user)
  /\ e.flags = 2 => \A i \in DOMAIN UserOfListing(e.al) : LegalFlags(UserOfListing(e.al)[i].flags)
TXml ==
  /\ IsEvent("Xml") /\ ~pend
  /\ Holds(XmlCheck(T[l]))
  /\ S' = IF T[l].flags = 0 THEN [S EXCEPT !.user = UserOfListing(T[l].al)]
          ELSE [topo |-> TopoOf(T[l].topo), user |-> UserOfListing(T[l].al), ref |-> {}, weak |-> {}, pool |-> {}]
  /\ nos' = IF T[l].flags = 0 THEN nos ELSE NosOf(T[l].topo)
  /\ pend' = (T[l].flags = 2)
  /\ ncs' = ncs

TRefresh ==
  /\ Running("Refresh")
  /\ T[l].ret = 0
  /\ UNCHANGED <<S, nos>>

ObsCheck(e) ==
  /\ Chk("attribute listing", e.al, ListingOK(e, S.user))
  /\ \A k \in DOMAIN e.a : ObsAttrOK(S, e.a[k])
TObs ==
  /\ Running("Obs")
  /\ Holds(ObsCheck(T[l]))
  /\ UNCHANGED <<S, nos>>

LocalCheck(e) ==
  /\ TopoOf(e.topo) = S.topo /\ NosOf(e.topo) = nos
  /\ \A i \in DOMAIN e.ln :
       LET g == e.ln[i]   q == IniOf(g[1]) IN
       /\ q.k = "o" => HasObj(S.topo, q.o)
       /\ Chk("get_local_numanode_objs", g, LocalNodesOK(S.topo, q, g[2], g[3], g[4], g[5], g[6], g[7]))
  /\ \A i \in DOMAIN e.dn :
       LET g == e.dn[i] IN
       /\ Chk("get_default_nodeset", g, DefaultNodesetOK(S.topo, nos, g[1], g[2], ToSet(g[4])))
       /\ (Advisory /\ g[1] = 0 /\ g[2] = 0) => DefaultNodesetMaximal(S.topo, nos, ToSet(g[4]))
TLocal ==
  /\ Running("Local")
  /\ Holds(LocalCheck(T[l]))
  /\ UNCHANGED <<S, nos>>

Next == TReset \/ TAdopt \/ TRegister \/ TSetValue \/ TRestrict \/ TDup \/ TXml \/ TRefresh \/ TObs \/ TLocal
Spec == Init /\ [][Next]_vars

Accepted == TLCGet("stats").diameter - 1 = Len(T)
=============================================================================
