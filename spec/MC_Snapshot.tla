---------------------------- MODULE MC_Snapshot ----------------------------
(***************************************************************************)
(* Model of property C18: TLC enumerates (BFS) or draws (simulation) the   *)
(* tuples (snapshot, fault set, configuration) and the protocol of calls   *)
(* that makes the four relations of Snapshot.tla observable on each tuple: *)
(* per flag word, load twice (Deterministic), reload the first from its    *)
(* own XML export (XmlSelfConsistent), destroy; the flag words of a tuple  *)
(* are run default first so that the INCLUDE_DISALLOWED load finds the     *)
(* outcome of the default load (DisallowedRel).                            *)
(*                                                                         *)
(* The path tables come from tools/props/c18.py (one JSON record per       *)
(* extracted snapshot, paths sorted):                                      *)
(*   np, removable[i] in {0,1}  (0: a numbered instance directory),        *)
(*   type[i] (file / symlink / dir) and last[i] (last character of path i) *)
(*   key    global files and directories; summary and last PU file of a     *)
(*          CPUID dump; top: the few of them that every enumeration run    *)
(*          removes on their own under every configuration                 *)
(*   cand   the other removable paths of the core area (sys/devices/system, *)
(*          proc, the CPUID dump), rest: the removable paths outside of it *)
(*   w      share (percent) of the per-snapshot budget of single removals  *)
(*   classes  lists of removable paths that are the same attribute of      *)
(*          different instances (same path once digit runs and PCI bus     *)
(*          addresses are erased); the first ncore ones touch the core area *)
(*   feat   the feature classes of the snapshot (what its content makes     *)
(*          special: CPU-less NUMA nodes, heterogeneous memory, KNL, sparse *)
(*          numbering, offline CPUs, CPU kinds; or "plain")                 *)
(*   inst   per path class (node.cpumap, node.distance, node.meminfo,      *)
(*          node.hmat, cpu.topology, cpu.cache, cpu.online, cpu.kind, ...)  *)
(*          a matrix rows[instance][attribute] of the removable paths that  *)
(*          are an attribute of ONE numbered NUMA node / CPU instance       *)
(*   types  the object types of the unmodified snapshot loaded with every   *)
(*          type kept (found by a first pass of the recorder)               *)
(* Fault sets: none; single paths (striped); per-instance attributes of    *)
(* NUMA nodes and CPUs removed singly: every instance for the (feature     *)
(* class, path class) pairs of Interesting, a few instances otherwise;     *)
(* pairs of core paths for small snapshots; whole classes (striped); in    *)
(* simulation up to SimMax paths and possibly a class; staggered removals   *)
(* (SnStaggered pairs of Snapshot.tla: the attributes that partition the   *)
(* instances, CPU kinds): the j-th attribute class of the matrix is        *)
(* removed on the instances of ONE residue class modulo m, a different one *)
(* per attribute class, for every modulus of StagMods and offset of        *)
(* StagOffs: the partitions of the attributes stop nesting.                *)
(* Configurations: component selection x filter preset, optionally followed *)
(* by ONE type filter (type, filter) on a type the snapshot really has     *)
(* (TargetModes: the type removed with the rest default / kept; the type   *)
(* alone kept; the type kept only when structuring) x flag words.          *)
(***************************************************************************)
EXTENDS Snapshot, Json, IOUtils, TLC, Randomization

CONSTANTS TableFile,     \* ndjson file with the path tables
          Sel,           \* indexes of the snapshots this run covers
          NKeys,         \* about how many of the key paths are removed on their own per snapshot
          NSingles,      \* about how many single removals per snapshot in the core area ...
          NRest,         \* ... and outside of it
          NClasses,      \* about how many class removals per snapshot among the classes of the core area ...
          NRClasses,     \* ... and among the other classes
          PairMax,       \* pairs are enumerated for snapshots with at most PairMax core paths (0: none)
          Seed,
          FlagSeqs,      \* sequences of flag words run on each tuple
          CfgStride,     \* 1: every configuration on every fault set; n: one out of n (all of them on the empty fault set)
          SimMode, SimMax,
          InstFull,      \* FALSE: in an Interesting pair of a CPU path class every instance loses ONE attribute (the attribute
                         \* rotates with the instance); TRUE: every instance loses every attribute on its own (at most InstMax per class)
          InstMax,
          NInstPlain,    \* how many instances lose an attribute on their own in a pair that is not Interesting
          InstCfgs,      \* how many (component selection, preset) pairs a per-instance removal is run under
          InstFlagSeqs,  \* flag words run on the per-instance removals and on the type-targeted configurations
          TargetTypes,   \* types whose filter a targeted configuration sets
          TargetModes,   \* sequence of <<preset, filter>>: the filter given to the type after the preset
          StagMods,      \* moduli of the staggered removals ({}: none)
          StagOffs,      \* their offsets (taken modulo the modulus)
          TargetStride   \* 1: every mode for every type of the unmodified snapshot; n: the first mode and one out of n of the others

Tabs == ndJsonDeserialize(TableFile)
NSnap == Len(Tabs)

ASSUME /\ Sel \subseteq 1..NSnap
       /\ \A k \in Sel : LET tab == Tabs[k] IN
            /\ tab.kind \in SnKinds
            /\ Len(tab.removable) = tab.np /\ Len(tab.type) = tab.np /\ Len(tab.last) = tab.np
            \* the table's removable flags obey the rule of the property (type and last character of every path)
            /\ \A i \in 1..tab.np : tab.removable[i] = 1 => SnRemovable(tab.type[i], tab.last[i])
            /\ \A j \in DOMAIN tab.key : tab.key[j] \in 1..tab.np /\ tab.removable[tab.key[j]] = 1
            /\ SeqSet(tab.top) \subseteq SeqSet(tab.key)
            /\ \A j \in DOMAIN tab.cand : tab.cand[j] \in 1..tab.np /\ tab.removable[tab.cand[j]] = 1
            /\ \A j \in DOMAIN tab.rest : tab.rest[j] \in 1..tab.np /\ tab.removable[tab.rest[j]] = 1
            /\ tab.ncore \in 0..Len(tab.classes)
            /\ \A c \in DOMAIN tab.classes : /\ Len(tab.classes[c]) >= 2
                                             /\ \A j \in DOMAIN tab.classes[c] : tab.removable[tab.classes[c][j]] = 1
            /\ SeqSet(tab.feat) \subseteq SnFeatureClasses /\ tab.feat # <<>>
            /\ \A c \in DOMAIN tab.inst : /\ tab.inst[c].pc \in SnPathClasses
                                          /\ \A i \in DOMAIN tab.inst[c].rows : /\ tab.inst[c].rows[i] # <<>>
                                                                                /\ \A j \in DOMAIN tab.inst[c].rows[i] : tab.removable[tab.inst[c].rows[i][j]] = 1
            /\ SeqSet(tab.types) \subseteq 0..(NTYPES - 1)
       /\ \A fs \in FlagSeqs \cup InstFlagSeqs : \A j \in DOMAIN fs : FlagsLegal(fs[j])
       /\ TargetTypes \subseteq SnTargetable
       /\ StagMods \subseteq (Nat \ {0, 1}) /\ StagOffs \subseteq Nat
       /\ \A m \in DOMAIN TargetModes : TargetModes[m][1] \in SnPresetSet /\ TargetModes[m][2] \in 0..3

VARIABLES pc, sn, rs, how, cfg, todo, hist
vars == <<pc, sn, rs, how, cfg, todo, hist>>
NoCfg == [comp |-> "", filt |-> -1, tty |-> -1, tf |-> -1, flagseq |-> <<>>]

\* striped selection of about n positions of a sequence
SelIdx(seq, n) == IF n <= 0 THEN {}
                  ELSE IF n >= Len(seq) THEN DOMAIN seq
                  ELSE LET stride == Len(seq) \div n IN {j \in DOMAIN seq : (j + Seed) % stride = 0}
Small(k) == PairMax > 0 /\ Len(Tabs[k].cand) + Len(Tabs[k].key) <= PairMax
Share(k, n) == IF n = 0 THEN 0 ELSE LET m == (n * Tabs[k].w) \div 100 IN IF m < 1 THEN 1 ELSE m
\* constant tables (evaluated once)
SingleSel == [k \in 1..NSnap |-> IF k \notin Sel THEN {} ELSE
                (IF NKeys > 0 THEN SeqSet(Tabs[k].top) ELSE {})
                \cup {Tabs[k].key[j] : j \in (IF Small(k) THEN DOMAIN Tabs[k].key ELSE SelIdx(Tabs[k].key, NKeys))}
                \cup {Tabs[k].cand[j] : j \in (IF Small(k) THEN DOMAIN Tabs[k].cand ELSE SelIdx(Tabs[k].cand, Share(k, NSingles)))}
                \cup {Tabs[k].rest[j] : j \in SelIdx(Tabs[k].rest, Share(k, NRest))}]
SelRange(lo, hi, n) == IF n <= 0 \/ hi < lo THEN {}
                       ELSE IF n >= hi - lo + 1 THEN lo..hi
                       ELSE LET stride == (hi - lo + 1) \div n IN {j \in lo..hi : (j + Seed) % stride = 0}
\* the first ncore classes have a member in the core area
ClassSel == [k \in 1..NSnap |-> IF k \notin Sel THEN {} ELSE
               SelRange(1, Tabs[k].ncore, NClasses) \cup SelRange(Tabs[k].ncore + 1, Len(Tabs[k].classes), NRClasses)]
CandSet == [k \in 1..NSnap |-> IF k \notin Sel THEN {} ELSE SeqSet(Tabs[k].cand) \cup SeqSet(Tabs[k].key)]
RestSet == [k \in 1..NSnap |-> IF k \notin Sel THEN {} ELSE SeqSet(Tabs[k].rest)]

\* ---- per-instance attributes (one file / symlink / directory below ONE numbered nodeN or cpuN) ----
\* is the pair (a feature class of snapshot k, the path class of its c-th matrix) Interesting?
Hot(k, c) == \E fc \in SeqSet(Tabs[k].feat) : SnInteresting(fc, Tabs[k].inst[c].pc)
\* the attribute instance i loses when only one per instance is removed: it rotates with the instance
Diag(row, i) == row[((i + Seed) % Len(row)) + 1]
RowSet(rows, I) == UNION {SeqSet(rows[i]) : i \in I}
InstPicks(k, c) ==
  LET ic == Tabs[k].inst[c]  rows == ic.rows  n == Len(rows) IN
  IF Hot(k, c) /\ (InstFull \/ ic.pc \in SnNodePathClasses)
  THEN LET all == RowSet(rows, 1..n) IN
       IF Cardinality(all) <= InstMax THEN all
       ELSE {Diag(rows[i], i) : i \in 1..n} \cup {x \in all : (x + Seed) % ((Cardinality(all) \div InstMax) + 1) = 0}
  ELSE IF Hot(k, c) THEN {Diag(rows[i], i) : i \in 1..n}
  ELSE {Diag(rows[i], i) : i \in SelIdx(rows, NInstPlain)}
InstOn == NInstPlain > 0 \/ InstFull              \* a run that enumerates other fault sets only turns both off
InstSel == [k \in 1..NSnap |-> IF k \notin Sel \/ ~InstOn THEN {} ELSE UNION {InstPicks(k, c) : c \in DOMAIN Tabs[k].inst}]
InstAll == [k \in 1..NSnap |-> IF k \notin Sel THEN {} ELSE UNION {RowSet(Tabs[k].inst[c].rows, DOMAIN Tabs[k].inst[c].rows) : c \in DOMAIN Tabs[k].inst}]
\* the enumeration is exhaustive over the instances of every Interesting pair: each of them loses an attribute on its own
ASSUME \A k \in Sel : \A c \in DOMAIN Tabs[k].inst :
         (Hot(k, c) /\ InstOn) => \A i \in DOMAIN Tabs[k].inst[c].rows : SeqSet(Tabs[k].inst[c].rows[i]) \cap InstSel[k] # {}

\* ---- staggered removals: the attribute classes of a matrix, each removed on a different residue class of instances ----
\* the attribute classes of the c-th matrix: the classes (same attribute of different instances) made of its paths only,
\* in path order; the j-th of them (from 0) loses its path on the instances i with SnStaggerLoses(i, j, m, s)
StagClasses(k, c) == LET all == RowSet(Tabs[k].inst[c].rows, DOMAIN Tabs[k].inst[c].rows) IN
                     {cl \in DOMAIN Tabs[k].classes : SeqSet(Tabs[k].classes[cl]) \subseteq all}
StagSet(k, c, m, s) ==
  LET rows == Tabs[k].inst[c].rows
      KC == StagClasses(k, c)
      members == [cl \in KC |-> SeqSet(Tabs[k].classes[cl])]
      rank == [cl \in KC |-> Cardinality({x \in KC : x < cl})]
  IN UNION {{p \in SeqSet(rows[i]) : \E cl \in KC : p \in members[cl] /\ SnStaggerLoses(i, rank[cl], m, s)} : i \in DOMAIN rows}
StagMatrices(k) == {c \in DOMAIN Tabs[k].inst : \E fc \in SeqSet(Tabs[k].feat) : SnStaggered(fc, Tabs[k].inst[c].pc)}
\* constant table: per snapshot the fault sets <<matrix, modulus, offset, paths>> (those that remove nothing or one path only
\* are no stagger)
StagSel == [k \in 1..NSnap |-> IF k \notin Sel THEN {} ELSE
              {x \in {<<c, m, s % m, StagSet(k, c, m, s % m)>> : c \in StagMatrices(k), m \in StagMods, s \in StagOffs} : Cardinality(x[4]) >= 2}]

\* ---- type-targeted configurations: types of the unmodified snapshot whose filter the model sets on its own ----
TargetSet == [k \in 1..NSnap |-> IF k \notin Sel THEN {} ELSE SeqSet(Tabs[k].types) \cap TargetTypes]
\* a targeted configuration must differ from the preset it starts from
TargetChanges(base, ty, f) == FilterLegal(ty, f) /\ SnCfgFilters(base, ty, f) # SnPresetFilters(base)

RECURSIVE SumSet(_)
SumSet(S) == IF S = {} THEN 0 ELSE LET x == CHOOSE y \in S : TRUE IN (x % 1000) + SumSet(S \ {x})
Min2(a, b) == IF a < b THEN a ELSE b

Init == pc = "pick" /\ sn = 0 /\ rs = {} /\ how = "none" /\ cfg = NoCfg /\ todo = <<>> /\ hist = <<>>

Pick == /\ pc = "pick"
        /\ \E k \in (IF SimMode THEN {RandomElement(Sel)} ELSE Sel) :
             sn' = k /\ hist' = <<<<"snap", k>>>>
        /\ pc' = "faults"
        /\ UNCHANGED <<rs, how, cfg, todo>>

\* one path; a second one (larger index) for the small snapshots
RemoveOne ==
  /\ pc = "faults" /\ ~SimMode
  /\ \/ /\ how = "none"
        /\ \E i \in SingleSel[sn] : rs' = {i} /\ hist' = Append(hist, <<"rm", i>>)
        /\ how' = "single"
     \/ /\ how = "none"
        /\ \E i \in InstSel[sn] : rs' = {i} /\ hist' = Append(hist, <<"rminst", i>>)
        /\ how' = "inst"
     \/ /\ how = "single" /\ Small(sn) /\ rs \subseteq CandSet[sn]
        /\ \E i \in CandSet[sn] : /\ \A j \in rs : i > j
                                  /\ rs' = rs \cup {i} /\ hist' = Append(hist, <<"rm", i>>)
        /\ how' = "pair"
  /\ UNCHANGED <<pc, sn, cfg, todo>>

\* one attribute of every instance (what another kernel version or architecture produces)
RemoveClass ==
  /\ pc = "faults" /\ ~SimMode /\ how = "none"
  /\ \E c \in ClassSel[sn] : rs' = SeqSet(Tabs[sn].classes[c]) /\ hist' = Append(hist, <<"rmclass", c>>)
  /\ how' = "class"
  /\ UNCHANGED <<pc, sn, cfg, todo>>

\* the attributes that partition the instances, each removed on a different part of them
RemoveStaggered ==
  /\ pc = "faults" /\ ~SimMode /\ how = "none"
  /\ \E x \in StagSel[sn] : rs' = x[4] /\ hist' = Append(hist, <<"rmstag", x[4], x[1], x[2], x[3]>>)
  /\ how' = "stag"
  /\ UNCHANGED <<pc, sn, cfg, todo>>

\* simulation: up to SimMax paths, three quarters of them in the core area, and a class every other time
RemoveMany ==
  /\ pc = "faults" /\ SimMode /\ how = "none"
  /\ \E n \in {RandomElement(2..SimMax)} :
       LET n1 == Min2(n - (n \div 4), Cardinality(CandSet[sn]))
           n2 == Min2(n \div 4, Cardinality(RestSet[sn]))
           nc == Len(Tabs[sn].classes)
       IN \E A \in {RandomSubset(n1, CandSet[sn])}, B \in {RandomSubset(n2, RestSet[sn])},
             c \in {IF nc = 0 THEN 0 ELSE RandomElement(0..(2 * nc))} :
            LET C == IF c >= 1 /\ c <= nc THEN SeqSet(Tabs[sn].classes[c]) ELSE {} IN
            /\ rs' = A \cup B \cup C
            /\ hist' = Append(hist, <<"rmset", A \cup B, IF C = {} THEN 0 ELSE c>>)
  /\ how' = "multi"
  /\ UNCHANGED <<pc, sn, cfg, todo>>

TopSet == [k \in 1..NSnap |-> IF k \notin Sel THEN {} ELSE SeqSet(Tabs[k].top)]
CfgSelected(ci, fi) ==
  IF how = "inst"
  THEN \* InstCfgs consecutive (component selection, preset) pairs, starting at a pair that rotates with the removed path
       LET n == Len(SnComps(Tabs[sn].kind)) * Len(SnPresets)
           idx == (ci - 1) * Len(SnPresets) + (fi - 1)
       IN (idx + n - ((SumSet(rs) + Seed) % n)) % n < InstCfgs
  ELSE \/ rs = {} \/ CfgStride = 1
       \/ (how = "single" /\ rs \subseteq TopSet[sn])
       \/ (SumSet(rs) + ci + fi + Seed) % CfgStride = 0
Configure ==
  /\ pc = "faults" /\ (SimMode => how # "none")
  /\ LET comps == SnComps(Tabs[sn].kind) IN
     \E ci \in (IF SimMode THEN {RandomElement(DOMAIN comps)} ELSE DOMAIN comps),
        fi \in (IF SimMode THEN {RandomElement(DOMAIN SnPresets)} ELSE DOMAIN SnPresets),
        fs \in (IF SimMode THEN {RandomElement(FlagSeqs)} ELSE IF how = "inst" THEN InstFlagSeqs ELSE FlagSeqs),
        \* simulation: every other faulted tuple also sets one type filter after the preset
        tm \in (IF SimMode /\ TargetSet[sn] # {} THEN {RandomElement(0..(2 * Len(TargetModes)))} ELSE {0}),
        ty \in (IF SimMode /\ TargetSet[sn] # {} THEN {RandomElement(TargetSet[sn])} ELSE {-1}) :
       LET base == IF tm \in DOMAIN TargetModes THEN TargetModes[tm][1] ELSE SnPresets[fi]
           tf == IF tm \in DOMAIN TargetModes /\ TargetChanges(base, ty, TargetModes[tm][2]) THEN TargetModes[tm][2] ELSE -1 IN
       /\ SimMode \/ CfgSelected(ci, fi)
       /\ cfg' = [comp |-> comps[ci], filt |-> base, tty |-> (IF tf = -1 THEN -1 ELSE ty), tf |-> tf, flagseq |-> fs]
       /\ todo' = fs
       /\ hist' = Append(hist, <<"cfg", comps[ci], base, IF tf = -1 THEN -1 ELSE ty, tf>>)
  /\ pc' = "A"
  /\ UNCHANGED <<sn, rs, how>>

\* the unmodified snapshot under a preset followed by ONE type filter, for the types it really contains
TargetSelected(k, ci, ty, m) == \/ TargetStride = 1
                                \/ (m = 1 /\ ci = 1)
                                \/ (m > 1 /\ (k + ci + ty + m + Seed) % TargetStride = 0 /\ (ci + k + ty + Seed) % Len(SnComps(Tabs[k].kind)) = 0)
ConfigureTargeted ==
  /\ pc = "faults" /\ ~SimMode /\ how = "none"
  /\ LET comps == SnComps(Tabs[sn].kind) IN
     \E ci \in DOMAIN comps, ty \in TargetSet[sn], m \in DOMAIN TargetModes, fs \in InstFlagSeqs :
       /\ TargetChanges(TargetModes[m][1], ty, TargetModes[m][2])
       /\ TargetSelected(sn, ci, ty, m)
       /\ cfg' = [comp |-> comps[ci], filt |-> TargetModes[m][1], tty |-> ty, tf |-> TargetModes[m][2], flagseq |-> fs]
       /\ todo' = fs
       /\ hist' = Append(hist, <<"cfg", comps[ci], TargetModes[m][1], ty, TargetModes[m][2]>>)
  /\ pc' = "A"
  /\ UNCHANGED <<sn, rs, how>>

Step(from, to, ev) == pc = from /\ pc' = to /\ hist' = Append(hist, ev) /\ UNCHANGED <<sn, rs, how, cfg>>
LoadA   == todo # <<>> /\ Step("A", "B", <<"load", 0, cfg.filt, Head(todo), cfg.tty, cfg.tf>>) /\ UNCHANGED todo
LoadB   == todo # <<>> /\ Step("B", "X", <<"load", 1, cfg.filt, Head(todo), cfg.tty, cfg.tf>>) /\ UNCHANGED todo
XmlTrip == Step("X", "D", <<"xml_import", 0, 2>>) /\ UNCHANGED todo
Destroy == /\ pc = "D" /\ todo # <<>>
           /\ pc' = (IF Tail(todo) = <<>> THEN "done" ELSE "A")
           /\ todo' = Tail(todo)
           /\ hist' = Append(hist, <<"destroy">>)
           /\ UNCHANGED <<sn, rs, how, cfg>>
\* simulation prints a finished history from a last, never enabled, disjunct
SimEnd == SimMode /\ pc = "done" /\ PrintT(<<"TUPLE", ToJson(hist)>>) /\ FALSE /\ UNCHANGED vars

Next == Pick \/ RemoveOne \/ RemoveClass \/ RemoveStaggered \/ RemoveMany \/ Configure \/ ConfigureTargeted \/ LoadA \/ LoadB \/ XmlTrip \/ Destroy \/ SimEnd
Spec == Init /\ [][Next]_vars
SnView == <<pc, sn, rs, how, cfg, todo>>

(* ---- invariants: about the enumeration itself ---- *)
TypeOK == /\ pc \in {"pick", "faults", "A", "B", "X", "D", "done"}
          /\ sn \in 0..NSnap /\ (pc # "pick" => sn \in Sel)
          /\ how \in {"none", "single", "inst", "pair", "class", "stag", "multi"}
          /\ (pc \in {"pick", "faults"}) = (cfg = NoCfg)
\* only removable paths are ever removed: a numbered instance directory never is, on its own
RuleOK == sn # 0 => FaultSetOK(Tabs[sn], rs)
BudgetOK == /\ how = "none" => rs = {}
            /\ how = "single" => Cardinality(rs) = 1
            \* a per-instance removal is one attribute of one numbered NUMA node / CPU
            /\ how = "inst" => Cardinality(rs) = 1 /\ rs \subseteq InstAll[sn]
            /\ how = "pair" => Cardinality(rs) = 2 /\ Small(sn) /\ rs \subseteq CandSet[sn]
            /\ how = "class" => \E c \in DOMAIN Tabs[sn].classes : rs = SeqSet(Tabs[sn].classes[c])
            \* a staggered removal takes per-instance attributes of ONE matrix of a SnStaggered pair only
            /\ how = "stag" => \E c \in StagMatrices(sn), m \in StagMods : \E s \in 0..(m - 1) :
                                  /\ rs = StagSet(sn, c, m, s) /\ Cardinality(rs) >= 2
                                  /\ rs \subseteq RowSet(Tabs[sn].inst[c].rows, DOMAIN Tabs[sn].inst[c].rows)
            /\ how = "multi" => \E c \in {0} \cup DOMAIN Tabs[sn].classes :
                                  Cardinality(rs \ (IF c = 0 THEN {} ELSE SeqSet(Tabs[sn].classes[c]))) <= SimMax
CfgOK == cfg # NoCfg => /\ cfg.comp \in SeqSet(SnComps(Tabs[sn].kind))
                        /\ cfg.filt \in SnPresetSet /\ cfg.flagseq \in FlagSeqs \cup InstFlagSeqs
                        \* a type filter is legal, changes the preset and names a type the unmodified snapshot contains
                        /\ (cfg.tty = -1) = (cfg.tf = -1)
                        /\ cfg.tty # -1 => cfg.tty \in TargetSet[sn] /\ TargetChanges(cfg.filt, cfg.tty, cfg.tf)
\* the protocol makes every relation observable: loads come in pairs; the XML trip follows its pair; a finished history
\* with an INCLUDE_DISALLOWED load has the load of the same filter preset without the flag (before or after it: the
\* trace specification relates them whichever comes first) whenever the tuple has both flag words
IsLoad(k) == hist[k][1] = "load"
ProtocolOK ==
  /\ \A k \in DOMAIN hist : (IsLoad(k) /\ hist[k][2] = 1) => k > 1 /\ hist[k - 1] = <<"load", 0, hist[k][3], hist[k][4], hist[k][5], hist[k][6]>>
  /\ \A k \in DOMAIN hist : hist[k][1] = "xml_import" => k > 2 /\ IsLoad(k - 1) /\ IsLoad(k - 2)
  /\ pc = "done" =>
       \A k \in DOMAIN hist : (IsLoad(k) /\ Bit(hist[k][4], FLAG_INCLUDE_DISALLOWED)) =>
          ((\E j \in DOMAIN cfg.flagseq : cfg.flagseq[j] = hist[k][4] - FLAG_INCLUDE_DISALLOWED)
             => \E j \in DOMAIN hist : IsLoad(j) /\ hist[j][3] = hist[k][3] /\ hist[j][5] = hist[k][5] /\ hist[j][6] = hist[k][6]
                                          /\ hist[j][4] = hist[k][4] - FLAG_INCLUDE_DISALLOWED)
  /\ pc = "done" => Cardinality({k \in DOMAIN hist : IsLoad(k)}) = 2 * Len(cfg.flagseq)

EmitDone == (~SimMode /\ pc = "done") => PrintT(<<"TUPLE", ToJson(hist)>>)
=============================================================================
