------------------------------ MODULE MemAttrs ------------------------------
(***************************************************************************)
(* Memory attributes of hwloc (property C14).                              *)
(*                                                                         *)
(* Part 1 (abstract): the property itself.  The abstract state is          *)
(*    S = [topo, user, ref, weak, pool]                                    *)
(*  topo  what the attributes depend on: PUs, NUMA nodes with cpuset and   *)
(*        local memory, and the other objects used as targets/initiators   *)
(*  user  sequence of [name, flags] of the registered attributes           *)
(*  ref   the reference table: set of entries [a, t, ini, val] = "value    *)
(*        val was stored last for attribute a, target t, initiator ini"    *)
(*  weak  set of <<a, t>> whose stored cpuset initiators are not pairwise  *)
(*        disjoint (or were given outside the topology): the property      *)
(*        promises nothing precise for them, only the weak contract        *)
(*        "a query returns some stored value or fails".                    *)
(*  pool  set of [a, t, val]: every value stored for <<a, t>> since it last *)
(*        had no entry at all - the "some stored value" of the weak         *)
(*        contract (restrict may clip away the entry a value was given for  *)
(*        while the value legitimately lives on in an overlapping one).     *)
(* Every public query has a relation  <Query>OK(S, arguments, results)     *)
(* which is the only thing a recorded execution is judged by.              *)
(*                                                                         *)
(* Part 2 (constructive): a transcription of hwloc/memattrs.c (ordered     *)
(* target and initiator arrays, first-match lookup, lazy refresh guarded   *)
(* by a cache-valid flag, XML export/import by replay of set_value).  It   *)
(* is used by MC_MemAttrs to generate behaviours and to check, on the      *)
(* model, that this design satisfies the relations of part 1.  It is never *)
(* compared with the implementation.                                       *)
(*                                                                         *)
(* 64-bit quantities (values, flags, memory) are triples of base-2^22      *)
(* limbs, most significant first.                                          *)
(***************************************************************************)
EXTENDS Integers, Sequences, FiniteSets, TLC

(* ---------------- values ---------------- *)
VInt(n) == <<0, 0, n>>
VLt(a, b) == \/ a[1] < b[1]
             \/ a[1] = b[1] /\ a[2] < b[2]
             \/ a[1] = b[1] /\ a[2] = b[2] /\ a[3] < b[3]
VLeq(a, b) == a = b \/ VLt(a, b)
Min2(a, b) == IF a <= b THEN a ELSE b
ToSet(s) == {s[i] : i \in DOMAIN s}

(* ---------------- attribute flags ---------------- *)
Bit(w, b) == (w \div b) % 2 = 1
\* register(): exactly one of HIGHER_FIRST (1) / LOWER_FIRST (2), optionally NEED_INITIATOR (4), nothing else
LegalFlags(f) == f[1] = 0 /\ f[2] = 0 /\ f[3] \in 0..7 /\ (Bit(f[3], 1) # Bit(f[3], 2))
NeedIni(f) == Bit(f[3], 4)
HigherFirst(f) == Bit(f[3], 1)
\* v is at least as good as w
Better(f, v, w) == IF HigherFirst(f) THEN VLeq(w, v) ELSE VLeq(v, w)

\* the predefined attributes; identifier = position - 1 (hwloc_memattr_id_e)
Predef == << [name |-> "Capacity",       flags |-> VInt(1)],
             [name |-> "Locality",       flags |-> VInt(2)],
             [name |-> "Bandwidth",      flags |-> VInt(5)],
             [name |-> "Latency",        flags |-> VInt(6)],
             [name |-> "ReadBandwidth",  flags |-> VInt(5)],
             [name |-> "WriteBandwidth", flags |-> VInt(5)],
             [name |-> "ReadLatency",    flags |-> VInt(6)],
             [name |-> "WriteLatency",   flags |-> VInt(6)] >>
NPredef == Len(Predef)
IsConv(a) == a \in {"Capacity", "Locality"}

PredefIdx(a) == CASE a = "Capacity" -> 1 [] a = "Locality" -> 2 [] a = "Bandwidth" -> 3 [] a = "Latency" -> 4
                  [] a = "ReadBandwidth" -> 5 [] a = "WriteBandwidth" -> 6 [] a = "ReadLatency" -> 7
                  [] a = "WriteLatency" -> 8 [] OTHER -> 0
UserIdx(user, a) == IF \E i \in DOMAIN user : user[i].name = a THEN CHOOSE i \in DOMAIN user : user[i].name = a ELSE 0
\* [known, id, flags] of the attribute called a (relations take it as argument `ai`, computed once by the caller)
AttrInfo(user, a) ==
  LET p == PredefIdx(a) IN
  IF p # 0 THEN [known |-> TRUE, id |-> p - 1, flags |-> Predef[p].flags]
  ELSE LET u == UserIdx(user, a) IN
       IF u # 0 THEN [known |-> TRUE, id |-> NPredef + u - 1, flags |-> user[u].flags]
       ELSE [known |-> FALSE, id |-> -1, flags |-> <<-1, -1, -1>>]
Known(user, a) == PredefIdx(a) # 0 \/ UserIdx(user, a) # 0

(* ---------------- initiators ---------------- *)
\* k: "n" no initiator (NULL), "c" cpuset, "o" object,
\*    "x" object location with a NULL object, "z" cpuset location with a NULL cpuset (invalid arguments)
NoIni == [k |-> "n", s |-> {}, o |-> ""]
CpuIni(s) == [k |-> "c", s |-> s, o |-> ""]
ObjIni(o) == [k |-> "o", s |-> {}, o |-> o]
BadIni(k) == [k |-> k, s |-> {}, o |-> ""]
\* an argument that cannot designate an initiator
Unusable(q) == q.k \in {"x", "z"} \/ (q.k = "c" /\ q.s = {})

\* a query location matches a stored initiator: cpuset included in the stored one, same object
Matches(q, ini) == CASE q.k = "c" -> ini.k = "c" /\ q.s # {} /\ q.s \subseteq ini.s
                     [] q.k = "o" -> ini.k = "o" /\ ini.o = q.o
                     [] OTHER -> FALSE

(* ---------------- topology ---------------- *)
\* topo = [pus, nodes, ncpus, nmem, objs, ocpus, ohas]: nodes = identifiers of the NUMA nodes, objs = the other
\* declared objects that exist; ncpus/nmem/ocpus functions over them (ocpus: the cpuset of the object or, for
\* I/O and Misc objects, of the parent they are attached to; ohas: the object has a cpuset of its own)
HasObj(topo, id) == id \in topo.nodes \/ id \in topo.objs
CpusOf(topo, id) == IF id \in topo.nodes THEN topo.ncpus[id] ELSE topo.ocpus[id]

(* ---------------- the reference table ---------------- *)
Entry(a, t, ini, v) == [a |-> a, t |-> t, ini |-> ini, val |-> v]
\* entries of attribute a for target t; Capacity and Locality are derived from the topology
E(S, a, t) ==
  IF a = "Capacity" THEN (IF t \in S.topo.nodes THEN {Entry(a, t, NoIni, S.topo.nmem[t])} ELSE {})
  ELSE IF a = "Locality" THEN (IF t \in S.topo.nodes THEN {Entry(a, t, NoIni, VInt(Cardinality(S.topo.ncpus[t])))} ELSE {})
  ELSE {e \in S.ref : e.a = a /\ e.t = t}
TargetsOf(S, a) == IF IsConv(a) THEN S.topo.nodes ELSE {e.t : e \in {x \in S.ref : x.a = a}}
AnyVals(S, a, t) == {e.val : e \in E(S, a, t)}
PoolVals(S, a, t) == {p.val : p \in {x \in S.pool : x.a = a /\ x.t = t}}
\* the weak contract applies
Loose(S, a, f, t, q) == NeedIni(f) /\ (<<a, t>> \in S.weak \/ (q.k = "c" /\ q.s = {}))
MatchVals(S, a, f, t, q) ==
  IF ~NeedIni(f) THEN AnyVals(S, a, t)
  ELSE {e.val : e \in {x \in E(S, a, t) : Matches(q, x.ini)}}

\* stored cpuset initiators of a set of entries intersect (or repeat)
Overlapping(es) == \E e1, e2 \in es : e1 # e2 /\ e1.ini.k = "c" /\ e2.ini.k = "c" /\ e1.ini.s \cap e2.ini.s # {}
SameKeyTwice(es) == \E e1, e2 \in es : e1 # e2 /\ e1.ini = e2.ini

(* ======================= relations: the property ======================= *)

\* hwloc_memattr_register
RegisterOK(S, name, f, ret, errno, id) ==
  LET bad == ~LegalFlags(f)   busy == Known(S.user, name) IN
  IF bad \/ busy THEN /\ ret = -1
                      /\ errno \in ((IF bad THEN {"EINVAL"} ELSE {}) \cup (IF busy THEN {"EBUSY"} ELSE {}))
  ELSE ret = 0 /\ id = NPredef + Len(S.user)
RegisterApply(S, name, f) == [S EXCEPT !.user = Append(@, [name |-> name, flags |-> f])]

\* hwloc_memattr_set_value: which outcomes are allowed (ai = AttrInfo(S.user, a))
SetRetOK(S, ai, a, t, q, qf, ret, errno) ==
  IF ~ai.known \/ qf # 0 THEN ret = -1
  ELSE IF IsConv(a) THEN ret = -1                       \* read-only
  ELSE IF ~NeedIni(ai.flags) THEN (IF Unusable(q) THEN ret \in {0, -1} ELSE ret = 0)   \* initiator ignored
  ELSE IF q.k = "n" \/ Unusable(q) THEN ret = -1        \* an initiator is required
  ELSE ret = 0
\* the state after a successful set_value
SetApply(S, ai, a, t, q, v) ==
  IF ~NeedIni(ai.flags) THEN [S EXCEPT !.ref = {e \in @ : ~(e.a = a /\ e.t = t)} \cup {Entry(a, t, NoIni, v)}]
  ELSE LET es == E(S, a, t)
           wasweak == <<a, t>> \in S.weak
           nowweak == \/ wasweak
                      \/ q.k = "c" /\ ~(q.s \subseteq S.topo.pus)
                      \/ q.k = "c" /\ \E e \in es : e.ini.k = "c" /\ e.ini.s # q.s /\ e.ini.s \cap q.s # {}
       IN [S EXCEPT !.ref = (IF wasweak THEN @ ELSE {e \in @ : ~(e.a = a /\ e.t = t /\ e.ini = q)}) \cup {Entry(a, t, q, v)},
                    !.weak = IF nowweak THEN @ \cup {<<a, t>>} ELSE @,
                    !.pool = @ \cup {[a |-> a, t |-> t, val |-> v]}]

\* restrict: entries of removed targets, of removed initiator objects and of emptied initiator cpusets disappear,
\* the others keep their value (cpusets are clipped to the remaining PUs)
IniSurvives(ini, topo2) == CASE ini.k = "c" -> ini.s \cap topo2.pus # {}
                             [] ini.k = "o" -> HasObj(topo2, ini.o)
                             [] OTHER -> TRUE
ClipIni(ini, topo2) == IF ini.k = "c" THEN CpuIni(ini.s \cap topo2.pus) ELSE ini
ClipRef(ref, topo2) == {[e EXCEPT !.ini = ClipIni(e.ini, topo2)] : e \in {x \in ref : HasObj(topo2, x.t) /\ IniSurvives(x.ini, topo2)}}
ClipWeak(weak, ref2) == {w \in weak : \E e \in ref2 : e.a = w[1] /\ e.t = w[2]}
RestrictApply(S, topo2) ==
  LET r2 == ClipRef(S.ref, topo2) IN
  [S EXCEPT !.topo = topo2, !.ref = r2, !.weak = ClipWeak(@, r2),
            !.pool = {p \in @ : \E e \in r2 : e.a = p.a /\ e.t = p.t}]
\* what restrict may do to the part of the topology the attributes depend on
RestrictTopoOK(t1, t2) ==
  /\ t2.pus \subseteq t1.pus /\ t2.nodes \subseteq t1.nodes /\ t2.objs \subseteq t1.objs
  /\ \A n \in t2.nodes : t2.ncpus[n] = t1.ncpus[n] \cap t2.pus /\ t2.nmem[n] = t1.nmem[n]
  /\ \A o \in t2.objs : t2.ocpus[o] = t1.ocpus[o] \cap t2.pus

\* hwloc_memattr_get_value
GetValueOK(S, ai, a, t, q, qf, ret, errno, val) ==
  IF ~ai.known \/ qf # 0 THEN ret = -1 /\ errno = "EINVAL"
  ELSE IF a = "Capacity" THEN (IF t \in S.topo.nodes THEN ret = 0 /\ val = S.topo.nmem[t] ELSE ret = -1)
  ELSE IF a = "Locality" THEN (IF t \in S.topo.nodes \/ S.topo.ohas[t] THEN ret = 0 /\ val = VInt(Cardinality(CpusOf(S.topo, t)))
                               ELSE ret = -1)                 \* "target_node must have a CPU set"
  ELSE LET f == ai.flags IN
       IF Loose(S, a, f, t, q) THEN ret = -1 \/ (ret = 0 /\ val \in PoolVals(S, a, t))
       ELSE LET mv == MatchVals(S, a, f, t, q) IN
            IF mv = {} THEN ret = -1 ELSE ret = 0 /\ val \in mv

\* hwloc_memattr_get_targets; filled = the min(nrin, nrout) first array slots as <<target, value>>
GetTargetsOK(S, ai, a, q, nrin, ret, errno, nrout, filled) ==
  IF ~ai.known THEN ret = -1
  ELSE LET f == ai.flags
           T == TargetsOf(S, a)
           filter == NeedIni(f) /\ q.k # "n"
           W(t) == NeedIni(f) /\ <<a, t>> \in S.weak
           must == {t \in T : ~W(t) /\ (~filter \/ (~Loose(S, a, f, t, q) /\ MatchVals(S, a, f, t, q) # {}))}
           may == must \cup {t \in T : W(t) \/ (filter /\ Loose(S, a, f, t, q))}
           ValOK(t, v) == IF ~NeedIni(f) THEN v \in AnyVals(S, a, t)
                          ELSE IF ~filter THEN TRUE                  \* no initiator given: the value is unspecified
                          ELSE IF Loose(S, a, f, t, q) THEN v \in PoolVals(S, a, t)
                          ELSE v \in MatchVals(S, a, f, t, q)
       IN \/ filter /\ Unusable(q) /\ ret = -1                        \* an invalid location may also be refused
          \/ /\ ret = 0
             /\ Cardinality(must) <= nrout /\ nrout <= Cardinality(may)
             /\ Len(filled) = Min2(nrin, nrout)
             /\ \A i \in DOMAIN filled : filled[i][1] \in may /\ ValOK(filled[i][1], filled[i][2])
             /\ \A i, j \in DOMAIN filled : i # j => filled[i][1] # filled[j][1]
             /\ (nrin >= nrout => must \subseteq {filled[i][1] : i \in DOMAIN filled})

\* hwloc_memattr_get_initiators; filled = <<initiator, value>> slots
GetInitiatorsOK(S, ai, a, t, nrin, ret, errno, nrout, filled) ==
  IF ~ai.known THEN ret = -1
  ELSE LET f == ai.flags   es == E(S, a, t) IN
       IF ~NeedIni(f) THEN ret = 0 /\ nrout = 0 /\ filled = <<>>
       ELSE IF es = {} THEN ret = -1 \/ (ret = 0 /\ nrout = 0 /\ filled = <<>>)
       ELSE IF <<a, t>> \in S.weak THEN
            \/ ret = -1
            \/ /\ ret = 0 /\ Len(filled) = Min2(nrin, nrout)
               /\ \A i \in DOMAIN filled : filled[i][2] \in PoolVals(S, a, t)
       ELSE /\ ret = 0 /\ nrout = Cardinality(es) /\ Len(filled) = Min2(nrin, nrout)
            /\ \A i \in DOMAIN filled : \E e \in es : e.ini = filled[i][1] /\ e.val = filled[i][2]
            /\ \A i, j \in DOMAIN filled : i # j => filled[i][1] # filled[j][1]

\* hwloc_memattr_get_best_target
BestTargetOK(S, ai, a, q, qf, ret, errno, t, val) ==
  IF ~ai.known \/ qf # 0 THEN ret = -1 /\ errno = "EINVAL"
  ELSE LET f == ai.flags
           T == TargetsOf(S, a)
           strong == UNION {{<<t2, v>> : v \in MatchVals(S, a, f, t2, q)} : t2 \in {x \in T : ~Loose(S, a, f, x, q)}}
           loose == UNION {{<<t2, v>> : v \in PoolVals(S, a, t2)} : t2 \in {x \in T : Loose(S, a, f, x, q)}}
       IN \/ ret = 0 /\ <<t, val>> \in (strong \cup loose) /\ \A p \in strong : Better(f, val, p[2])
          \/ ret = -1 /\ errno = "ENOENT" /\ strong = {}
          \/ ret = -1 /\ errno = "EINVAL" /\ NeedIni(f) /\ Unusable(q)     \* an invalid location may also be refused

\* hwloc_memattr_get_best_initiator
BestInitiatorOK(S, ai, a, t, ret, errno, ini, val) ==
  IF ~ai.known THEN ret = -1
  ELSE LET f == ai.flags   es == E(S, a, t) IN
       IF ~NeedIni(f) THEN ret = -1 /\ errno = "EINVAL"
       \* no value at all for this target: the header promises ENOENT "if there are no matching initiators";
       \* "no such target for this attribute" is reported as EINVAL by every other entry point; both are accepted
       ELSE IF es = {} THEN ret = -1 /\ errno \in {"ENOENT", "EINVAL"}
       ELSE IF <<a, t>> \in S.weak THEN ret = -1 \/ (ret = 0 /\ val \in PoolVals(S, a, t))
       ELSE ret = 0 /\ \E e \in es : e.ini = ini /\ e.val = val /\ \A e2 \in es : Better(f, val, e2.val)

\* hwloc_get_local_numanode_objs: flags LARGER_LOCALITY 1, SMALLER_LOCALITY 2, ALL 4
LocalNodes(topo, cs, fl) ==
  {n \in topo.nodes : \/ Bit(fl, 4)
                      \/ Bit(fl, 1) /\ cs \subseteq topo.ncpus[n]
                      \/ Bit(fl, 2) /\ topo.ncpus[n] \subseteq cs
                      \/ topo.ncpus[n] = cs}
LocalNodesOK(topo, q, fl, nrin, ret, errno, nrout, filled) ==
  IF fl \notin 0..7 THEN ret \in {0, -1}                       \* other bits: not documented
  ELSE LET cs == IF q.k = "c" THEN q.s ELSE IF q.k = "o" THEN CpusOf(topo, q.o) ELSE {}
           exp == LocalNodes(topo, cs, fl)
       IN /\ ret = 0 /\ nrout = Cardinality(exp) /\ Len(filled) = Min2(nrin, nrout)
          /\ \A i \in DOMAIN filled : filled[i] \in exp
          /\ \A i, j \in DOMAIN filled : i # j => filled[i] # filled[j]

\* hwloc_topology_get_default_nodeset: existing nodes, pairwise disjoint cpusets.  nos = node id -> OS index
DefaultNodesetOK(topo, nos, fl, ret, set) ==
  IF fl # 0 THEN ret = -1
  ELSE /\ ret = 0
       /\ set \subseteq {nos[n] : n \in topo.nodes}
       /\ \A n1, n2 \in topo.nodes : (n1 # n2 /\ nos[n1] \in set /\ nos[n2] \in set) => topo.ncpus[n1] \cap topo.ncpus[n2] = {}
\* what the heuristic additionally aims at (advisory, outside the fixed statement): "find more nodes to cover the
\* entire topology cpuset" - no non-empty node that is disjoint from every selected one is left out
DefaultNodesetMaximal(topo, nos, set) ==
  \A n \in topo.nodes : (topo.ncpus[n] # {} /\ nos[n] \notin set) =>
     \E m \in topo.nodes : nos[m] \in set /\ topo.ncpus[n] \cap topo.ncpus[m] # {}

(* ===================== constructive model of memattrs.c ===================== *)
\* impl = sequence over all attributes (position = id + 1) of
\*   [name, flags, valid, tgs]  tgs = sequence of [t, noini, inis]  inis = sequence of [ini, val]
RECURSIVE Flat(_)
Flat(ss) == IF ss = <<>> THEN <<>> ELSE Head(ss) \o Flat(Tail(ss))
FirstIdx(s, P(_)) == IF \E i \in DOMAIN s : P(s[i]) THEN CHOOSE i \in DOMAIN s : P(s[i]) /\ \A j \in 1..(i-1) : ~P(s[j]) ELSE 0

ImplInit == [i \in 1..NPredef |-> [name |-> Predef[i].name, flags |-> Predef[i].flags, valid |-> TRUE, tgs |-> <<>>]]
ImplIdOf(impl, a) == FirstIdx(impl, LAMBDA at : at.name = a) - 1       \* -1: unknown

\* match_internal_location()
IMatch(q, ini) == q.k = ini.k /\ (q.k = "c" => q.s \subseteq ini.s) /\ (q.k = "o" => q.o = ini.o)

\* hwloc__imi_refresh / hwloc__imtg_refresh / hwloc__imattr_refresh
IRefreshTg(topo, f, tg) ==
  IF ~HasObj(topo, tg.t) THEN <<>>
  ELSE IF ~NeedIni(f) THEN <<tg>>
  ELSE LET clipped == [i \in DOMAIN tg.inis |-> [tg.inis[i] EXCEPT !.ini = ClipIni(@, topo)]]
           kept == SelectSeq(clipped, LAMBDA x : IF x.ini.k = "c" THEN x.ini.s # {} ELSE HasObj(topo, x.ini.o))
       IN IF kept = <<>> THEN <<>> ELSE <<[tg EXCEPT !.inis = kept]>>
IRefresh(topo, at) == [at EXCEPT !.valid = TRUE, !.tgs = Flat([i \in DOMAIN at.tgs |-> IRefreshTg(topo, at.flags, at.tgs[i])])]
IEnsure(topo, at) == IF at.valid THEN at ELSE IRefresh(topo, at)
IRefreshAll(topo, impl) == [i \in DOMAIN impl |-> IEnsure(topo, impl[i])]
\* hwloc_internal_memattrs_need_refresh(): convenience attributes are skipped
IInvalidate(impl) == [i \in DOMAIN impl |-> IF IsConv(impl[i].name) THEN impl[i] ELSE [impl[i] EXCEPT !.valid = FALSE]]

\* hwloc__internal_memattr_set_value() on one attribute record (refresh decided by the caller)
ISetIn(at, t, q, v) ==
  LET j0 == FirstIdx(at.tgs, LAMBDA tg : tg.t = t)
      at1 == IF j0 # 0 THEN at
             ELSE [at EXCEPT !.tgs = Append(@, [t |-> t, noini |-> VInt(0), inis |-> <<>>]), !.valid = FALSE]
      j == IF j0 # 0 THEN j0 ELSE Len(at1.tgs)
      tg == at1.tgs[j]
  IN IF ~NeedIni(at.flags) THEN [at1 EXCEPT !.tgs[j].noini = v]
     ELSE LET k == FirstIdx(tg.inis, LAMBDA x : IMatch(q, x.ini)) IN
          IF k # 0 THEN [at1 EXCEPT !.tgs[j].inis[k].val = v]
          ELSE [at1 EXCEPT !.tgs[j].inis = Append(@, [ini |-> q, val |-> v])]

\* hwloc_memattr_set_value(); result [ret, errno, impl]
ISetValue(topo, impl, a, t, q, v, qf) ==
  LET id == ImplIdOf(impl, a)
      fail(e) == [ret |-> -1, errno |-> e, impl |-> impl]
  IN IF qf # 0 THEN fail("EINVAL")
     ELSE IF q.k # "n" /\ Unusable(q) THEN fail("EINVAL")             \* to_internal_location()
     ELSE IF id < 0 THEN fail("EINVAL")
     ELSE LET at == impl[id + 1] IN
          IF NeedIni(at.flags) /\ q.k = "n" THEN fail("EINVAL")
          ELSE IF IsConv(a) THEN fail("EINVAL")
          ELSE [ret |-> 0, errno |-> "0", impl |-> [impl EXCEPT ![id + 1] = ISetIn(IEnsure(topo, at), t, q, v)]]

\* hwloc_memattr_register(); result [ret, errno, id, impl]
IRegister(impl, name, f) ==
  IF ~LegalFlags(f) THEN [ret |-> -1, errno |-> "EINVAL", id |-> -1, impl |-> impl]
  ELSE IF ImplIdOf(impl, name) >= 0 THEN [ret |-> -1, errno |-> "EBUSY", id |-> -1, impl |-> impl]
  ELSE [ret |-> 0, errno |-> "0", id |-> Len(impl),
        impl |-> Append(impl, [name |-> name, flags |-> f, valid |-> TRUE, tgs |-> <<>>])]

\* XML export (no refresh before it) followed by import into a fresh topology and the refresh that ends load()
IXmlValues(at) ==
  Flat([j \in DOMAIN at.tgs |->
          IF NeedIni(at.flags) THEN [k \in DOMAIN at.tgs[j].inis |-> [t |-> at.tgs[j].t, q |-> at.tgs[j].inis[k].ini, v |-> at.tgs[j].inis[k].val]]
          ELSE <<[t |-> at.tgs[j].t, q |-> NoIni, v |-> at.tgs[j].noini]>>])
RECURSIVE IImportValues(_, _)
IImportValues(at, vs) == IF vs = <<>> THEN at ELSE IImportValues(ISetIn(at, Head(vs).t, Head(vs).q, Head(vs).v), Tail(vs))
RECURSIVE IImport(_, _, _)
IImport(impl2, impl, i) ==
  IF i > Len(impl) THEN impl2
  ELSE LET at == impl[i] IN
       IF i <= 2 \/ (i <= NPredef /\ at.tgs = <<>>) THEN IImport(impl2, impl, i + 1)      \* not exported
       ELSE LET id0 == ImplIdOf(impl2, at.name)
                impl3 == IF id0 < 0 THEN IRegister(impl2, at.name, at.flags).impl ELSE impl2
                id == ImplIdOf(impl3, at.name)
            IN IF impl3[id + 1].flags # at.flags THEN IImport(impl3, impl, i + 1)
               ELSE IImport([impl3 EXCEPT ![id + 1] = IImportValues(@, IXmlValues(at))], impl, i + 1)
IXml(topo, impl) == IRefreshAll(topo, IInvalidate(IImport(ImplInit, impl, 1)))

(* ---- queries on a refreshed attribute record `at` (or on an unknown identifier: known = FALSE) ---- *)
Res(ret, errno) == [ret |-> ret, errno |-> errno]
IFindIni(tg, q) == IF q.k = "n" \/ Unusable(q) THEN 0 ELSE FirstIdx(tg.inis, LAMBDA x : IMatch(q, x.ini))
IConvVal(topo, a, t) == IF a = "Capacity" THEN topo.nmem[t] ELSE VInt(Cardinality(CpusOf(topo, t)))

IGetValue(topo, known, at, t, q, qf) ==
  IF qf # 0 \/ ~known THEN [ret |-> -1, errno |-> "EINVAL", val |-> VInt(0)]
  ELSE IF IsConv(at.name) THEN
       (IF at.name = "Capacity" /\ t \notin topo.nodes THEN [ret |-> -1, errno |-> "EINVAL", val |-> VInt(0)]
        ELSE IF at.name = "Locality" /\ t \notin topo.nodes /\ ~topo.ohas[t] THEN [ret |-> -1, errno |-> "EINVAL", val |-> VInt(0)]
        ELSE [ret |-> 0, errno |-> "0", val |-> IConvVal(topo, at.name, t)])
  ELSE LET j == FirstIdx(at.tgs, LAMBDA tg : tg.t = t) IN
       IF j = 0 THEN [ret |-> -1, errno |-> "EINVAL", val |-> VInt(0)]
       ELSE IF ~NeedIni(at.flags) THEN [ret |-> 0, errno |-> "0", val |-> at.tgs[j].noini]
       ELSE LET k == IFindIni(at.tgs[j], q) IN
            IF k = 0 THEN [ret |-> -1, errno |-> "EINVAL", val |-> VInt(0)]
            ELSE [ret |-> 0, errno |-> "0", val |-> at.tgs[j].inis[k].val]

\* the full list get_targets() walks through, as <<target, value>>; nodeseq = the NUMA nodes in level order
ITargetList(topo, nodeseq, at, q) ==
  IF IsConv(at.name) THEN [i \in DOMAIN nodeseq |-> <<nodeseq[i], IConvVal(topo, at.name, nodeseq[i])>>]
  ELSE Flat([j \in DOMAIN at.tgs |->
         IF ~NeedIni(at.flags) THEN << <<at.tgs[j].t, at.tgs[j].noini>> >>
         ELSE IF q.k = "n" THEN << <<at.tgs[j].t, VInt(0)>> >>
         ELSE LET k == IFindIni(at.tgs[j], q) IN
              IF k = 0 THEN <<>> ELSE << <<at.tgs[j].t, at.tgs[j].inis[k].val>> >>])
IGetTargets(topo, nodeseq, known, at, q, nrin) ==
  IF ~known THEN [ret |-> -1, errno |-> "EINVAL", nrout |-> 0, filled |-> <<>>]
  ELSE LET l == ITargetList(topo, nodeseq, at, q) IN
       [ret |-> 0, errno |-> "0", nrout |-> Len(l), filled |-> SubSeq(l, 1, Min2(nrin, Len(l)))]

IGetInitiators(known, at, t, nrin) ==
  IF ~known THEN [ret |-> -1, errno |-> "EINVAL", nrout |-> 0, filled |-> <<>>]
  ELSE IF ~NeedIni(at.flags) THEN [ret |-> 0, errno |-> "0", nrout |-> 0, filled |-> <<>>]
  ELSE LET j == FirstIdx(at.tgs, LAMBDA tg : tg.t = t) IN
       IF j = 0 THEN [ret |-> -1, errno |-> "EINVAL", nrout |-> 0, filled |-> <<>>]
       ELSE LET l == [k \in DOMAIN at.tgs[j].inis |-> <<at.tgs[j].inis[k].ini, at.tgs[j].inis[k].val>>] IN
            [ret |-> 0, errno |-> "0", nrout |-> Len(l), filled |-> SubSeq(l, 1, Min2(nrin, Len(l)))]

\* hwloc__update_best_target(): keep the first one, replace on strict improvement
RECURSIVE IBestOf(_, _, _)
IBestOf(f, l, best) ==
  IF l = <<>> THEN best
  ELSE LET c == Head(l)
           take == best = <<>> \/ (IF HigherFirst(f) THEN VLt(best[1][2], c[2]) ELSE VLt(c[2], best[1][2]))
       IN IBestOf(f, Tail(l), IF take THEN <<c>> ELSE best)
IBestTarget(topo, nodeseq, known, at, q, qf) ==
  IF qf # 0 \/ ~known THEN [ret |-> -1, errno |-> "EINVAL", t |-> "", val |-> VInt(0)]
  ELSE LET l == IF ~IsConv(at.name) /\ NeedIni(at.flags) /\ q.k = "n" THEN <<>> ELSE ITargetList(topo, nodeseq, at, q)
           b == IBestOf(at.flags, l, <<>>)
       IN IF b = <<>> THEN [ret |-> -1, errno |-> "ENOENT", t |-> "", val |-> VInt(0)]
          ELSE [ret |-> 0, errno |-> "0", t |-> b[1][1], val |-> b[1][2]]
IBestInitiator(known, at, t) ==
  IF ~known THEN [ret |-> -1, errno |-> "EINVAL", ini |-> NoIni, val |-> VInt(0)]
  ELSE IF ~NeedIni(at.flags) THEN [ret |-> -1, errno |-> "EINVAL", ini |-> NoIni, val |-> VInt(0)]
  ELSE LET j == FirstIdx(at.tgs, LAMBDA tg : tg.t = t) IN
       IF j = 0 THEN [ret |-> -1, errno |-> "EINVAL", ini |-> NoIni, val |-> VInt(0)]
       ELSE LET l == [k \in DOMAIN at.tgs[j].inis |-> <<at.tgs[j].inis[k].ini, at.tgs[j].inis[k].val>>]
                b == IBestOf(at.flags, l, <<>>)
            IN IF b = <<>> THEN [ret |-> -1, errno |-> "ENOENT", ini |-> NoIni, val |-> VInt(0)]
               ELSE [ret |-> 0, errno |-> "0", ini |-> b[1][1], val |-> b[1][2]]

\* hwloc_topology_get_default_nodeset(), as intended by its comments (nodes by OS index; the first one, then the
\* non-intersecting ones of the same subtype, then whatever non-empty node still fits)
\* nodes = sequence of [os, cpus, sub] sorted by os
RECURSIVE IDefPass(_, _, _, _, _)
IDefPass(nodes, i, acc, pass2, sub1) ==
  \* acc = [set, rem]
  IF i > Len(nodes) \/ acc.rem = {} THEN acc
  ELSE LET n == nodes[i]
           fits == n.cpus \subseteq acc.rem
           take == IF pass2 THEN n.os \notin acc.set /\ fits /\ n.cpus # {} ELSE n.sub = sub1 /\ fits
       IN IDefPass(nodes, i + 1, IF take THEN [set |-> acc.set \cup {n.os}, rem |-> acc.rem \ n.cpus] ELSE acc, pass2, sub1)
IDefaultNodeset(pus, nodes) ==
  LET a0 == [set |-> {nodes[1].os}, rem |-> pus \ nodes[1].cpus]
      a1 == IDefPass(nodes, 2, a0, FALSE, nodes[1].sub)
  IN IDefPass(nodes, 2, a1, TRUE, "").set
=============================================================================
