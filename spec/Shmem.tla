------------------------------- MODULE Shmem -------------------------------
(***************************************************************************)
(* Shared-memory topologies (property C19): hwloc/shmem.h.                 *)
(*                                                                         *)
(* Abstract state shared by the bounded model (MC_Shmem) and the trace     *)
(* specification (TraceShmem):                                             *)
(*   images  what successful hwloc_shmem_topology_write() calls left in    *)
(*           the file: the header [version, header length, mmap address,   *)
(*           mmap length] at a file offset + payload; `bad` = header /     *)
(*           ABI fields damaged since                                      *)
(*   free    the pages of the adopting process that are not mapped         *)
(*   live    the adopted topologies of that process and their pages        *)
(* The operators below say what each entry point must answer; they only    *)
(* transcribe hwloc/shmem.h and the property statement.  Where those do    *)
(* not determine a unique answer the expectation is a set.                 *)
(***************************************************************************)
EXTENDS TopoOps

(* ---- pages touched by the byte range [pg*page + rem, pg*page + rem + len) ---- *)
PagesOf(pg, rem, len, page) ==
  IF len <= 0 THEN {} ELSE pg .. (pg + ((rem + len + page - 1) \div page) - 1)

\* the recorder's preparation of the address space before a call (hwv_shmem.c, punch()):
\* mode 1 unmaps exactly the requested pages, mode 2 maps them again, mode 0 leaves them;
\* a range that touches an adopted topology is never prepared
Prepared(free, livepages, pages, mode) ==
  IF pages \cap livepages # {} THEN free
  ELSE IF mode = 1 THEN free \cup pages
  ELSE IF mode = 2 THEN free \ pages
  ELSE free
\* a hinted mmap() lands on the hint exactly when every page of the range is unmapped
Avail(free, pages) == pages # {} /\ pages \subseteq free

(* ---- images ---- *)
\* (`off` identifies the file offset and is only compared for equality: a number of bytes in the bounded model, a pair
\*  <<pages, remainder>> in the traces, where offsets of 2 GiB and more do not fit TLC's integers)
HeaderFields == {"version", "hdrlen", "addr", "len", "abi"}
Image(off, pg, rem, len, snap) == [off |-> off, pg |-> pg, rem |-> rem, len |-> len, snap |-> snap, bad |-> {}]
Toggle(S, x) == IF x \in S THEN S \ {x} ELSE S \cup {x}
\* the images that a request (file offset, address, length) designates exactly and that are still intact
Matching(imgs, off, pg, rem, len) ==
  {i \in imgs : i.off = off /\ i.pg = pg /\ i.rem = rem /\ i.len = len /\ i.bad = {}}

(* ---- expectations: [succeed |-> may return 0, fail |-> may return -1, errs |-> errno values allowed then] ---- *)
AnyErr == {"EINVAL", "EBUSY", "EPERM", "ENOMEM", "ENOSYS", "0"}
Must(errs)  == [succeed |-> FALSE, fail |-> TRUE, errs |-> errs]
Works       == [succeed |-> TRUE, fail |-> FALSE, errs |-> {}]
Either(errs) == [succeed |-> TRUE, fail |-> TRUE, errs |-> errs]

\* hwloc_shmem_topology_get_length: "Flags are currently unused, must be 0"
GetLengthExpect(flags) == IF flags = 0 THEN Works ELSE Must(AnyErr)

\* hwloc_shmem_topology_write with a length obtained from get_length (dlen >= 0 pages more than that):
\*  -1/EBUSY if the mapping isn't available, -1/EINVAL if offset, address or length aren't page-aligned.
\*  (An unaligned address is also an unavailable mapping, an unaligned length is rounded by mmap: either answer.)
WriteExpect(offrem, arem, lrem, flags, avail) ==
  IF flags # 0 THEN Must(AnyErr)
  ELSE IF offrem # 0 THEN Must({"EINVAL"})
  ELSE IF arem # 0 THEN Must({"EINVAL", "EBUSY"})
  ELSE IF ~avail THEN Must({"EBUSY"})
  ELSE IF lrem # 0 THEN Either({"EINVAL"})
  ELSE Works

\* hwloc_shmem_topology_adopt: the file, offset, address and length "must be identical to what was given to
\* hwloc_shmem_topology_write() earlier": otherwise -1/EINVAL; incompatible layout (ABI): -1/EINVAL;
\* mapping not available: -1/EBUSY.  When both apply the header says nothing about which one is reported.
AdoptExpect(imgs, off, pg, rem, len, flags, avail) ==
  LET m == Matching(imgs, off, pg, rem, len) # {} IN
  IF flags # 0 THEN Must(AnyErr)
  ELSE IF ~m THEN Must(IF avail THEN {"EINVAL"} ELSE {"EINVAL", "EBUSY"})
  ELSE IF ~avail THEN Must({"EBUSY"})
  ELSE Works

(* ---- the public calls tried on an adopted topology ---- *)
\* "the topology is read-only": these must be refused, whatever their arguments
ModifyingOps == {"restrict", "insert_misc", "alloc_group", "insert_group", "free_group",
                 "dist_add_create", "dist_remove", "dist_remove_by_depth", "dist_release_remove",
                 "memattr_register", "memattr_set_value", "cpukinds_register", "diff_apply", "set_subtype"}
\* configuration calls are refused on every loaded topology
ConfigOps == {"set_flags", "set_type_filter", "set_synthetic", "load"}
\* consulting calls: "can be used just like any topology"
ConsultOps == {"observe", "export_xml", "dup", "get_length", "check", "set_userdata", "bind_get", "abi_check", "refresh", "reshare"}
\* the documented exception, and the private topology infos
SpecialOps == {"allow", "tinfo_add"}
AllOps == ModifyingOps \cup ConfigOps \cup ConsultOps \cup SpecialOps

\* abstract effect of hwloc_topology_allow on the allowed sets: does the call change them?
AllowAccepted(disallowed, flags, hascs, hasns) ==
  /\ disallowed
  /\ \/ flags = 1 /\ ~hascs /\ ~hasns
     \/ flags = 4
=============================================================================
