----------------------------- MODULE TraceTopo -----------------------------
(***************************************************************************)
(* Trace validation of topology-level behaviours recorded by               *)
(* harness/hwv_topo (C01: load; C02/C08/C12: modifying calls, in           *)
(* TopoOps.tla).  Spec state: per slot the lifecycle/configuration record  *)
(* (Lifecycle.tla) and the last projection of the topology.                *)
(***************************************************************************)
EXTENDS XmlDoc, Json, IOUtils, TLC

T == ndJsonDeserialize(IOEnv.TRACE)

VARIABLES l, slots, topos, docs      \* docs: path -> document record (XmlDoc.tla)

NoTopo == [n |-> 0]
Live(t) == t.n > 0

Init == l = 1 /\ slots = <<>> /\ topos = <<>> /\ docs = <<>>

IsEvent(e) == l <= Len(T) /\ T[l].e = e /\ l' = l + 1
E == T[l]
S == E.slot + 1

\* the logged projections of all slots: dead slots log n = 0
LoggedTopos == [s \in 1..Len(E.topos) |-> IF E.topos[s].n > 0 THEN E.topos[s] ELSE NoTopo]
\* frame condition: every slot other than s reports exactly what it reported before
OthersUnchanged(s) == \A k \in 1..Len(topos) : k # s => LoggedTopos[k] = topos[k]
AllUnchanged == LoggedTopos = topos
\* lazy store observation (recorder option "stores 2"): before the first xml_export event the projections carry no store queries (hasst = 0),
\* so that the recorder does not refresh what the exporter must refresh by itself; that event is the first one with them
SameModStores(a, b) == IF a.n = 0 \/ b.n = 0 \/ a.hasst = b.hasst THEN a = b
                       ELSE [a EXCEPT !.stores = <<>>, !.hasst = 0] = [b EXCEPT !.stores = <<>>, !.hasst = 0]
AllUnchangedModStores == /\ Len(LoggedTopos) = Len(topos)
                         /\ \A k \in 1..Len(topos) : SameModStores(LoggedTopos[k], topos[k])

TReset == /\ IsEvent("Reset")
          /\ slots' = [s \in 1..E.nslots |-> NoSlot]
          /\ topos' = [s \in 1..E.nslots |-> NoTopo]
          /\ docs' = <<>>

TEnv == IsEvent("env") /\ UNCHANGED <<slots, topos, docs>>
\* the process changes its own CPU binding (what RESTRICT_TO_CPUBINDING looks at): no topology moves
TBind == IsEvent("bind") /\ E.ret \in {0, -1} /\ AllUnchanged /\ UNCHANGED <<slots, topos, docs>>
\* range lists: no common element
RDisjoint(a, b) == \A k \in DOMAIN a : \A j \in DOMAIN b : a[k][2] < b[j][1] \/ b[j][2] < a[k][1]

TInit == /\ IsEvent("init")
         /\ slots[S].st = "none"
         /\ E.ret = 0
         /\ AllUnchanged
         /\ slots' = [slots EXCEPT ![S] = InitSlot]
         /\ UNCHANGED topos
         /\ UNCHANGED docs

TDestroy == /\ IsEvent("destroy")
            /\ OthersUnchanged(S)
            /\ slots' = [slots EXCEPT ![S] = NoSlot]
            /\ topos' = [topos EXCEPT ![S] = NoTopo]
            /\ UNCHANGED docs

\* the source setters may accept or refuse (C07 and C06 refine this); never anything else
TSource == /\ (IsEvent("synthetic") \/ IsEvent("xml") \/ IsEvent("xmlbuffer"))
           /\ slots[S].st = "init"
           /\ E.ret \in {0, -1}
           /\ AllUnchanged
           /\ UNCHANGED <<slots, topos>>
           /\ UNCHANGED docs

TFlags == /\ IsEvent("flags")
          /\ \E s2 \in {slots[S], [slots[S] EXCEPT !.flags = E.flags]} :
                SetFlagsRel(slots[S], E.flags, E.ret, E.errno, s2) /\ slots' = [slots EXCEPT ![S] = s2]
          /\ AllUnchanged
          /\ UNCHANGED topos
          /\ UNCHANGED docs

TFilter == /\ IsEvent("filter")
           /\ LET s2 == [slots[S] EXCEPT !.filters = E.now] IN
                /\ SetFilterRel(slots[S], E.type, E.filter, E.ret, E.errno, s2)   \* the filters now reported are the documented ones
                /\ slots' = [slots EXCEPT ![S] = s2]
           /\ AllUnchanged
           /\ UNCHANGED topos
           /\ UNCHANGED docs

\* C01: whenever load returns 0 the topology is well formed and carries the configuration
TLoad == /\ IsEvent("load")
         /\ slots[S].st = "init"
         /\ OthersUnchanged(S)
         /\ \/ /\ E.ret = 0
               /\ LET t == E.topos[S] IN
                    /\ t.n > 0
                    /\ WellFormed(t)
                    /\ t.flags = slots[S].flags
                    /\ t.filters = slots[S].filters
                    /\ \A i \in Pos(t) : O(t, i).ud = 0          \* userdata starts NULL
                    \* RESTRICT_TO_CPUBINDING (hwloc.h: "do not consider resources outside of the process CPU binding"): nothing outside the
                    \* binding is left, unless the binding names no processor of this topology at all (then it cannot be honoured)
                    /\ (Bit(slots[S].flags, FLAG_RESTRICT_TO_CPUBINDING) /\ "binding" \in DOMAIN E)
                          => (RSubset(O(t, 1).cs, E.binding) \/ RDisjoint(O(t, 1).cs, E.binding))
               /\ slots' = [slots EXCEPT ![S].st = "loaded"]
               /\ topos' = [topos EXCEPT ![S] = Tagged(E.topos[S])]
            \/ /\ E.ret = -1
               /\ E.topos[S].n = 0
               /\ slots' = [slots EXCEPT ![S] = NoSlot]           \* the recorder destroys a topology whose load failed
               /\ UNCHANGED topos
         /\ UNCHANGED docs

TObserve == /\ IsEvent("observe")
            /\ slots[S].st = "loaded"
            /\ AllUnchanged
            /\ UNCHANGED <<slots, topos>>
            /\ UNCHANGED docs

\* exporting is a consulting call: nothing moves (C05 judges the exported bytes)
TExport == /\ IsEvent("export_xml")
           /\ slots[S].st = "loaded"
           /\ E.ret \in {0, -1}
           /\ AllUnchanged
           /\ UNCHANGED <<slots, topos>>
           /\ UNCHANGED docs

\* C12, equivalence under everything the API can do next: the same call (same name, same argument text) made on two topologies that
\* were observably equal - a copy and its original - returns the same answers and leaves the second one exactly as it left the first one.
\* (Userdata is left out of "observably equal": the recorder tags new objects after it has logged them.)
NoUd(t) == IF t.n = 0 THEN t ELSE [t EXCEPT !.objs = [i \in DOMAIN t.objs |-> [t.objs[i] EXCEPT !.ud = 0]]]
\* objects the call created may be numbered differently in the two topologies (gp_index is only promised to be unique within a topology,
\* and a copy does not continue the numbering where its original stood): their gp_index is left out, and so are the XML digest (which
\* contains it) when there is such an object, and the gp_index the call returns
NewBlind(t, old) == IF t.n = 0 THEN t
                    ELSE [t EXCEPT !.objs = [i \in DOMAIN t.objs |-> IF t.objs[i].gp \in old THEN t.objs[i] ELSE [t.objs[i] EXCEPT !.gp = 0]],
                                   !.xd = IF \A i \in DOMAIN t.objs : t.objs[i].gp \in old THEN t.xd ELSE <<>>]
Results(e) == [x \in DOMAIN e \ {"slot", "topos", "obj"} |-> e[x]]
TwinOK == (/\ l > 2 /\ Len(E.topos) = 2
           /\ "slot" \in DOMAIN T[l - 1] /\ T[l - 1].e = E.e /\ T[l - 1].slot # E.slot /\ T[l - 1].args = E.args
           /\ "topos" \in DOMAIN T[l - 2] /\ Len(T[l - 2].topos) = 2 /\ T[l - 2].topos[1].n > 0
           /\ NoUd(T[l - 2].topos[1]) = NoUd(T[l - 2].topos[2]))
          => LET old == GpSet(T[l - 2].topos[1]) IN
               /\ Results(E) = Results(T[l - 1])
               /\ NewBlind(E.topos[S], old) = NewBlind(T[l - 1].topos[T[l - 1].slot + 1], old)

\* modifying calls (TopoOps.tla): relation between the projection before and after, then adopt the logged one
TModify == /\ l <= Len(T) /\ T[l].e \in ModifyingEvents /\ l' = l + 1
           /\ slots[S].st = "loaded"
           /\ ModifyRel(E, topos[S], E.topos[S], slots[S])
           /\ TwinOK
           /\ OthersUnchanged(S)
           /\ topos' = [topos EXCEPT ![S] = Tagged(E.topos[S])]
           /\ slots' = [slots EXCEPT ![S].pristine = FALSE]
           /\ UNCHANGED docs

TDup == /\ IsEvent("dup")
        /\ slots[S].st = "loaded" /\ slots[E.dst + 1].st = "none"
        /\ DupRel(E, topos[S], E.topos[S], E.topos[E.dst + 1])
        /\ \A k \in 1..Len(topos) : (k # S /\ k # E.dst + 1) => LoggedTopos[k] = topos[k]
        /\ slots' = [slots EXCEPT ![E.dst + 1] = IF E.ret = 0 THEN slots[S] ELSE NoSlot]
        /\ topos' = [topos EXCEPT ![E.dst + 1] = LoggedTopos[E.dst + 1]]
        /\ UNCHANGED docs

\* ---- C05: XML export and import ----
DocOf(path) == CHOOSE k \in DOMAIN docs : docs[k].path = path
HasDoc(path) == \E k \in DOMAIN docs : docs[k].path = path

\* exporting is a consulting call; the same topology exported twice with the same flags gives the same bytes
TXmlExport ==
  /\ IsEvent("xml_export")
  /\ slots[S].st = "loaded"
  /\ E.ret = 0 /\ E.len > 0 /\ E.cbfail = 0
  /\ AllUnchangedModStores
  /\ E.ud = 0 => E.deliv = <<>>
  \* the export callback is invoked exactly for the objects whose userdata is not NULL (all of them are tagged)
  /\ E.ud = 1 => {E.deliv[k][1] : k \in DOMAIN E.deliv} = GpSet(topos[S])
  /\ LET d == [path |-> E.path, src |-> LoggedTopos[S], flags |-> E.flags, digest |-> E.digest, len |-> E.len, deliv |-> E.deliv,
               srcflags |-> slots[S].flags] IN
       \* fixpoint: a topology that was itself imported from a document exported with the same flags re-exports the same bytes
       \* (an importer told to ignore distances / memattrs / cpukinds legitimately re-exports less)
       /\ (slots[S].origin # <<>> /\ slots[S].origin.flags = E.flags /\ slots[S].origin.ud = E.ud /\ slots[S].pristine
           /\ ~Bit(slots[S].flags, 128) /\ ~Bit(slots[S].flags, 256) /\ ~Bit(slots[S].flags, 512)) =>
              (E.digest = slots[S].origin.digest /\ E.len = slots[S].origin.len)
       /\ docs' = Append(SelectSeq(docs, LAMBDA x : x.path # E.path), d)
  /\ topos' = LoggedTopos
  /\ UNCHANGED slots

TXmlImport ==
  /\ IsEvent("xml_import")
  /\ slots[S].st = "none"
  /\ HasDoc(E.path)
  /\ OthersUnchanged(S)
  /\ LET d == docs[DocOf(E.path)]  t == E.topos[S] IN
       /\ E.set = 0 /\ E.load = 0 /\ E.ret = 0             \* what hwloc exported, hwloc loads
       /\ t.n > 0 /\ WellFormed(t)
       /\ E.setflags = 0 /\ t.flags = E.flags
       /\ (E.keepall = 1 /\ E.flags = d.srcflags) =>
             IF Bit(d.flags, XML_FLAG_V2) THEN SameTreeAndSets(d.src, t) ELSE Equivalent(d.src, t, E.flags)
       \* userdata: delivered exactly as many times, with the same name, bytes and length, as it was exported
       \* (the built-in exporter runs the export callback in two identical passes, a dry run that sizes the buffer and the
       \*  real one, so the callback-side list may be the delivered list twice)
       /\ E.ud = 1 => (E.deliv = d.deliv \/ E.deliv \o E.deliv = d.deliv)
       /\ E.ud = 0 => E.deliv = <<>>
       /\ slots' = [slots EXCEPT ![S] = [st |-> "loaded", flags |-> E.flags, filters |-> t.filters,
                                          origin |-> [flags |-> d.flags, digest |-> d.digest, len |-> d.len, ud |-> IF d.deliv = <<>> THEN 0 ELSE 1],
                                          pristine |-> TRUE]]
       /\ topos' = [topos EXCEPT ![S] = Tagged(t)]
  /\ UNCHANGED docs

Next == TXmlExport \/ TXmlImport \/ TReset \/ TEnv \/ TBind \/ TInit \/ TDestroy \/ TSource \/ TFlags \/ TFilter \/ TLoad \/ TObserve \/ TExport \/ TModify \/ TDup
Spec == Init /\ [][Next]_<<l, slots, topos, docs>>

Accepted == TLCGet("stats").diameter - 1 = Len(T)
=============================================================================
