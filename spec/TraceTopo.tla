----------------------------- MODULE TraceTopo -----------------------------
(***************************************************************************)
(* Trace validation of topology-level behaviours recorded by               *)
(* harness/hwv_topo (C01: load; C02/C08/C12: modifying calls, in           *)
(* TopoOps.tla).  Spec state: per slot the lifecycle/configuration record  *)
(* (Lifecycle.tla) and the last projection of the topology.                *)
(***************************************************************************)
EXTENDS TopoOps, Json, IOUtils, TLC

T == ndJsonDeserialize(IOEnv.TRACE)

VARIABLES l, slots, topos

NoTopo == [n |-> 0]
Live(t) == t.n > 0

Init == l = 1 /\ slots = <<>> /\ topos = <<>>

IsEvent(e) == l <= Len(T) /\ T[l].e = e /\ l' = l + 1
E == T[l]
S == E.slot + 1

\* the logged projections of all slots: dead slots log n = 0
LoggedTopos == [s \in 1..Len(E.topos) |-> IF E.topos[s].n > 0 THEN E.topos[s] ELSE NoTopo]
\* frame condition: every slot other than s reports exactly what it reported before
OthersUnchanged(s) == \A k \in 1..Len(topos) : k # s => LoggedTopos[k] = topos[k]
AllUnchanged == LoggedTopos = topos

TReset == /\ IsEvent("Reset")
          /\ slots' = [s \in 1..E.nslots |-> NoSlot]
          /\ topos' = [s \in 1..E.nslots |-> NoTopo]

TEnv == IsEvent("env") /\ UNCHANGED <<slots, topos>>

TInit == /\ IsEvent("init")
         /\ slots[S].st = "none"
         /\ E.ret = 0
         /\ AllUnchanged
         /\ slots' = [slots EXCEPT ![S] = InitSlot]
         /\ UNCHANGED topos

TDestroy == /\ IsEvent("destroy")
            /\ OthersUnchanged(S)
            /\ slots' = [slots EXCEPT ![S] = NoSlot]
            /\ topos' = [topos EXCEPT ![S] = NoTopo]

\* the source setters may accept or refuse (C07 and C06 refine this); never anything else
TSource == /\ (IsEvent("synthetic") \/ IsEvent("xml") \/ IsEvent("xmlbuffer"))
           /\ slots[S].st = "init"
           /\ E.ret \in {0, -1}
           /\ AllUnchanged
           /\ UNCHANGED <<slots, topos>>

TFlags == /\ IsEvent("flags")
          /\ \E s2 \in {slots[S], [slots[S] EXCEPT !.flags = E.flags]} :
                SetFlagsRel(slots[S], E.flags, E.ret, E.errno, s2) /\ slots' = [slots EXCEPT ![S] = s2]
          /\ AllUnchanged
          /\ UNCHANGED topos

TFilter == /\ IsEvent("filter")
           /\ LET s2 == [slots[S] EXCEPT !.filters = E.now] IN
                /\ SetFilterRel(slots[S], E.type, E.filter, E.ret, E.errno, s2)   \* the filters now reported are the documented ones
                /\ slots' = [slots EXCEPT ![S] = s2]
           /\ AllUnchanged
           /\ UNCHANGED topos

\* C01: whenever load returns 0 the topology is well formed and carries the configuration
TLoad == /\ IsEvent("load")
         /\ slots[S].st = "init"
         /\ OthersUnchanged(S)
         /\ \/ /\ E.ret = 0
               /\ LET t == E.topos[S] IN
                    /\ t.n > 0
                    /\ WellFormed(t)
                    /\ t.flags = slots[S].flags
                    /\ t.filters = slots[S].filters
                    /\ \A i \in Pos(t) : O(t, i).ud = 0          \* userdata starts NULL
               /\ slots' = [slots EXCEPT ![S].st = "loaded"]
               /\ topos' = [topos EXCEPT ![S] = Tagged(E.topos[S])]
            \/ /\ E.ret = -1
               /\ E.topos[S].n = 0
               /\ slots' = [slots EXCEPT ![S] = NoSlot]           \* the recorder destroys a topology whose load failed
               /\ UNCHANGED topos

TObserve == /\ IsEvent("observe")
            /\ slots[S].st = "loaded"
            /\ AllUnchanged
            /\ UNCHANGED <<slots, topos>>

\* exporting is a consulting call: nothing moves (C05 judges the exported bytes)
TExport == /\ IsEvent("export_xml")
           /\ slots[S].st = "loaded"
           /\ E.ret \in {0, -1}
           /\ AllUnchanged
           /\ UNCHANGED <<slots, topos>>

\* modifying calls (TopoOps.tla): relation between the projection before and after, then adopt the logged one
TModify == /\ l <= Len(T) /\ T[l].e \in ModifyingEvents /\ l' = l + 1
           /\ slots[S].st = "loaded"
           /\ ModifyRel(E, topos[S], E.topos[S], slots[S])
           /\ OthersUnchanged(S)
           /\ topos' = [topos EXCEPT ![S] = Tagged(E.topos[S])]
           /\ UNCHANGED slots

TDup == /\ IsEvent("dup")
        /\ slots[S].st = "loaded" /\ slots[E.dst + 1].st = "none"
        /\ DupRel(E, topos[S], E.topos[S], E.topos[E.dst + 1])
        /\ \A k \in 1..Len(topos) : (k # S /\ k # E.dst + 1) => LoggedTopos[k] = topos[k]
        /\ slots' = [slots EXCEPT ![E.dst + 1] = IF E.ret = 0 THEN slots[S] ELSE NoSlot]
        /\ topos' = [topos EXCEPT ![E.dst + 1] = LoggedTopos[E.dst + 1]]

Next == TReset \/ TEnv \/ TInit \/ TDestroy \/ TSource \/ TFlags \/ TFilter \/ TLoad \/ TObserve \/ TExport \/ TModify \/ TDup
Spec == Init /\ [][Next]_<<l, slots, topos>>

Accepted == TLCGet("stats").diameter - 1 = Len(T)
=============================================================================
