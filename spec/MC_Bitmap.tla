----------------------------- MODULE MC_Bitmap -----------------------------
(* Exhaustive model of the bitmap register machine over one block map.     *)
(* Emits one behaviour per distinct state (path to it) and, striped, one   *)
(* per state-graph edge, for replay on the real library.                   *)
EXTENDS BitmapOps, Json

CONSTANTS Lo, Hi, R, NStripes, Stripe, SimLen
VARIABLES reg, hist

M == [lo |-> Lo, hi |-> Hi]
ASSUME MapOK(M)
\* for the exhaustive configurations: a word count always falls on a block boundary
WordAligned == \A p \in Blocks(M) : \E q \in Blocks(M) : Hi[q] + 1 = 64 * Need(Hi[p])

OpT(o) == <<o.op, o.d, o.a, o.b, o.x, o.y, o.bl>>

Init == /\ reg = [r \in 1..R |-> [v |-> Empty, cnt |-> 1]]
        /\ hist = <<>>

Next == \E o \in Ops(M, R) :
          /\ Enabled(M, reg, o)
          /\ reg' = ApplyOp(M, reg, o)
          /\ hist' = Append(hist, OpT(o))

Spec == Init /\ [][Next]_<<reg, hist>>

View == reg

TypeOK == \A r \in 1..R : reg[r].v \in Values(M) /\ reg[r].cnt \in 1..MaxCnt(M)
Consistent == \A r \in 1..R : RepConsistent(M, reg[r])
Laws == OracleLaws(M)

\* a cheap deterministic stripe number for an edge
RECURSIVE SeqSum(_)
SeqSum(s) == IF s = <<>> THEN 0
             ELSE LET o == Head(s) IN (o[2] * 7 + o[3] * 3 + o[4] * 5 + o[5] + o[6] + 2 + Cardinality(o[7]) + Len(o[1])) + 3 * SeqSum(Tail(s))
EmitState == PrintT(<<"STATE", ToJson(hist)>>)
EmitSim   == (Len(hist) = SimLen) => PrintT(<<"SIM", ToJson(hist)>>)
EmitEdge  == (SeqSum(hist') % NStripes = Stripe) => PrintT(<<"EDGE", ToJson(hist')>>)
=============================================================================
