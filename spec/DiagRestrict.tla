---------------------------- MODULE DiagRestrict ----------------------------
(* Diagnostic aid (not a check): EVENT names a file with two ndjson lines, *)
(* the event before a restrict (carrying the projection before) and the    *)
(* restrict event; prints the names of the RestrictRel checks that fail.   *)
EXTENDS TopoOps, Json, IOUtils, TLC
Ev == ndJsonDeserialize(IOEnv.EVENT)
Before == Tagged(Ev[1].topos[Ev[2].slot + 1])
After == Ev[2].topos[Ev[2].slot + 1]
ASSUME PrintT(<<"WHY", RestrictWhy(Ev[2], Before, After)>>)
VARIABLE x
Init == x = 0
Next == x' = x
=============================================================================
