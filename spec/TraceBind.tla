----------------------------- MODULE TraceBind -----------------------------
(***************************************************************************)
(* Trace validation for C10: every event recorded by harness/hwv_bind from *)
(* the real library (arguments, return value, errno, output set / policy,  *)
(* the system calls intercepted between call and return, and the kernel    *)
(* affinity / memory policy read back afterwards) must satisfy Bind!Rel.   *)
(* Sets are logged as [lo,hi] ranges (hi = -1: infinite) and become sets   *)
(* of integers; the infinite tail is cut at INFB, above every finite index *)
(* the recorder uses.                                                      *)
(* memo: how the memory binding requests of the current behaviour were     *)
(* handled, by canonical form (Bind!CanonCall): a later request with the   *)
(* same canonical form must be handled alike (Bind!SameHandling).          *)
(***************************************************************************)
EXTENDS Bind, Json, IOUtils, TLC

CONSTANT DocStrict      \* also demand what only the documentation of a neighbouring call states

T == ndJsonDeserialize(IOEnv.TRACE)

VARIABLES l, tp, st, memo

INFB == 640
Val(js) == UNION {(js[k][1]) .. (IF js[k][2] = -1 THEN INFB ELSE js[k][2]) : k \in 1..Len(js)}
Finite(js) == \A k \in 1..Len(js) : js[k][2] # -1 /\ js[k][2] < INFB - 40
AffOf(a) == [t \in DOMAIN a |-> Val(a[t])]
MpOf(m)  == [mode |-> m.mode, nodes |-> Val(m.nodes)]
SysOf(s) == [i \in 1..Len(s) |-> [k |-> s[i].k, t |-> s[i].t, mask |-> Val(s[i].mask), ret |-> s[i].ret, err |-> s[i].err]]

Init == l = 1 /\ tp = [ts |-> FALSE] /\ st = [aff |-> <<>>] /\ memo = <<>>

IsEvent(e) == l <= Len(T) /\ T[l].e = e /\ l' = l + 1

\* the topology as the public API shows it; the logged sets must make sense
TReset ==
  /\ IsEvent("Reset")
  /\ LET e == T[l]
         ntp == [ts |-> e.ts = 1,
                 cs |-> Val(e.cs), cc |-> Val(e.cc), ca |-> Val(e.ca),
                 ns |-> Val(e.ns), nc |-> Val(e.nc), na |-> Val(e.na),
                 nodes |-> {[os |-> e.nodes[k].os, cpus |-> Val(e.nodes[k].cpus)] : k \in 1..Len(e.nodes)},
                 hooks |-> {h \in DOMAIN e.support : e.support[h] = 1},
                 kallowed |-> Val(e.kallowed), kmems |-> Val(e.kmems)]
     IN /\ e.loadret = 0
        /\ e.kind \in {"native", "synth", "xml", "xmld"}
        /\ (e.kind = "native") <=> (e.desc = "-")
        /\ (e.thr = 1) <=> ("helper" \in DOMAIN e.aff)
        /\ DOMAIN e.aff \subseteq {"main", "helper"}
        /\ \A k \in 1..Len(e.chosen) : e.chosen[k] = -1 \/ e.chosen[k] \in Val(e.cs)     \* t1..t4 denote PUs of the topology
        /\ Finite(e.cs) /\ Finite(e.cc) /\ Finite(e.ns) /\ Finite(e.nc) /\ Finite(e.kallowed)
        /\ ntp.cs \subseteq ntp.cc /\ ntp.ca \subseteq ntp.cc /\ ntp.cs # {}
        /\ ntp.ns \subseteq ntp.nc /\ ntp.na \subseteq ntp.nc /\ ntp.ns # {}
        /\ \A n \in ntp.nodes : n.os \in ntp.ns /\ n.cpus \subseteq ntp.cs
        \* HWLOC_THISSYSTEM, then HWLOC_TOPOLOGY_FLAG_IS_THISSYSTEM, then the backend decide
        /\ ntp.ts = ExpectedThisSystem(e.kind, e.flag, e.env)
        \* binding is reported as unsupported for foreign topologies; the live part needs the thread hooks
        /\ IF ntp.ts THEN LiveHooks \subseteq ntp.hooks ELSE ntp.hooks = {}
        \* the recorder starts every behaviour unbound, with the default memory policy
        /\ "main" \in DOMAIN e.aff
        /\ \A t \in DOMAIN e.aff : Val(e.aff[t]) = ntp.kallowed
        /\ e.mp.mode = 0 /\ e.mp.nodes = <<>>
        /\ tp' = ntp
        /\ st' = [aff |-> AffOf(e.aff), mp |-> MpOf(e.mp), mb |-> Firsttouch, ab |-> Firsttouch]
        /\ memo' = <<>>

TCall ==
  /\ IsEvent("call")
  /\ LET e == T[l]
         c == [op |-> e.op, flags |-> e.flags, set |-> Val(e.set), pol |-> e.pol, tgt |-> e.tgt, len |-> e.len]
         r == [ret |-> e.ret, err |-> e.err, out |-> Val(e.out), opol |-> e.opol, sys |-> SysOf(e.sys), nq |-> e.nq,
               aff |-> AffOf(e.aff), mp |-> MpOf(e.mp)]
     IN /\ e.op \in AllOps
        \* shape of the call the recorder made
        /\ e.len \in {0, 1}
        /\ (e.op \notin (CpuSetOps \cup MemSetOps)) => e.set = <<>>
        /\ (e.op \notin MemSetOps) => e.pol = 0
        /\ (e.op \notin (MemGetOps \ {"get_area_memlocation"})) => e.opol = 0
        /\ (e.op \notin (CpuGetOps \cup MemGetOps)) => e.out = <<>>
        /\ (e.op = "load") => e.tgt \in {"default", "x86"}
        /\ e.tgt \in DOMAIN st.aff \/ e.op = "load"
        /\ DOMAIN e.aff = DOMAIN st.aff
        /\ e.fret = 0                         \* hwloc_free of what alloc_membind returned
        /\ Rel(tp, st, c, r, DocStrict)
        /\ st' = NextSt(tp, st, c, r)
        \* the set is replaced (whole topology -> complete set, cpuset -> nodeset) before anything else looks at it
        /\ IF Fixable(tp, c)
           THEN LET k == CanonCall(tp, c) IN
                /\ k \in DOMAIN memo => SameHandling(memo[k], Handling(r))
                /\ memo' = IF k \in DOMAIN memo THEN memo ELSE (k :> Handling(r)) @@ memo
           ELSE memo' = memo
  /\ UNCHANGED tp

Next == TReset \/ TCall
Spec == Init /\ [][Next]_<<l, tp, st, memo>>

Accepted == TLCGet("stats").diameter - 1 = Len(T)
=============================================================================
