------------------------------- MODULE Types -------------------------------
(***************************************************************************)
(* C11 - object types, their kinds and their string forms.                 *)
(*                                                                         *)
(* Part 1: the vocabulary (the 20 types in the order of hwloc_obj_type_t,  *)
(*         kinds, attribute domains reachable through load, flag words).   *)
(* Part 2: the RELATIONS that transcribe the property statement.  They are *)
(*         the only formulas that may reject a recorded trace.             *)
(* Part 3: a reference implementation (PrintM / ParseM / CmpM), structured *)
(*         like hwloc/traversal.c and topology.c.  It is used by MC_Types  *)
(*         to show that the relations are satisfiable and to generate the  *)
(*         cases; it never judges the real code (the texts are not         *)
(*         determined by the documentation).                               *)
(* Texts are TLA+ strings; TLC implements Len, \o and SubSeq on strings.   *)
(***************************************************************************)
EXTENDS Integers, Sequences, FiniteSets, TLC

---------------------------------------------------------------------------
(* Part 1: vocabulary *)

TypeName == << "Machine", "Package", "Die", "Core", "PU",
               "L1Cache", "L2Cache", "L3Cache", "L4Cache", "L5Cache",
               "L1iCache", "L2iCache", "L3iCache",
               "Group", "NUMANode", "MemCache", "Bridge", "PCIDev", "OSDev", "Misc" >>
TypeIds  == 0..19
MACHINE  == 0
PACKAGE  == 1
DIE      == 2
CORE     == 3
PU       == 4
L1CACHE  == 5
L5CACHE  == 9
L1ICACHE == 10
L3ICACHE == 12
GROUP    == 13
NUMANODE == 14
MEMCACHE == 15
BRIDGE   == 16
PCIDEV   == 17
OSDEV    == 18
MISC     == 19

\* "Each object type is either Normal or Memory or I/O or Misc" (hwloc/helper.h)
Kind(t) == IF t \in 0..13 THEN "normal"
           ELSE IF t \in {NUMANODE, MEMCACHE} THEN "memory"
           ELSE IF t \in {BRIDGE, PCIDEV, OSDEV} THEN "io"
           ELSE "misc"
IsCache(t)  == t \in L1CACHE..L3ICACHE
IsDCache(t) == t \in L1CACHE..L5CACHE
IsICache(t) == t \in L1ICACHE..L3ICACHE

\* hwloc_obj_cache_type_t, hwloc_obj_bridge_type_t
UNIFIED == 0
DATA == 1
INSTRUCTION == 2
BR_HOST == 0
BR_PCI == 1
\* the type a cache with this depth and cache type must have (hwloc_cache_type_by_depth_type), -1 if none
CacheTypeOf(d, c) == IF c = INSTRUCTION THEN (IF d \in 1..3 THEN L1ICACHE + d - 1 ELSE -1)
                     ELSE IF c \in {UNIFIED, DATA} /\ d \in 1..5 THEN L1CACHE + d - 1 ELSE -1

\* enum hwloc_obj_osdev_type_e as bit numbers; the other bits of the type word have no name
OS_STORAGE == 0
OS_MEMORY  == 1
OS_GPU     == 2
OS_COPROC  == 3
OS_NETWORK == 4
OS_OFED    == 5
OS_DMA     == 6
KnownOsBits == 0..6

\* enum hwloc_obj_snprintf_flag_e
F_OLD_VERBOSE == 1
F_LONG_NAMES  == 2
F_SHORT_NAMES == 4
F_MORE_ATTRS  == 8
F_NO_UNITS    == 16
F_UNITS_1000  == 32
AllFlagWords  == 0..63
Has(f, b) == (f \div b) % 2 = 1

\* special depths (hwloc_get_type_depth_e)
DEPTH_MULTIPLE == -2
DEPTH_NUMANODE == -3
DEPTH_BRIDGE   == -4
DEPTH_PCIDEV   == -5
DEPTH_OSDEV    == -6
DEPTH_MISC     == -7
DEPTH_MEMCACHE == -8

\* An object as far as its type text is concerned.  Fields that do not apply are -1 / {}.
NoAttr == [cd |-> -1, ct |-> -1, gd |-> -1, up |-> -1, down |-> -1, os |-> {}]
Obj(t) == [type |-> t, cd |-> -1, ct |-> -1, gd |-> -1, up |-> -1, down |-> -1, os |-> {}]
CacheObj(d, c)  == [Obj(CacheTypeOf(d, c)) EXCEPT !.cd = d, !.ct = c]
GroupObj(g)     == [Obj(GROUP) EXCEPT !.gd = g]
BridgeObj(u, d) == [Obj(BRIDGE) EXCEPT !.up = u, !.down = d]
OsdevObj(bits)  == [Obj(OSDEV) EXCEPT !.os = bits]

\* The attribute product reachable through load: G nested Group levels, the coherent cache
\* depth/type pairs, host->PCI and PCI->PCI bridges, every OS-device type word made of a set
\* of known bits and one of the given sets of unknown bits.
PlainTypes == {MACHINE, PACKAGE, DIE, CORE, PU, NUMANODE, MEMCACHE, PCIDEV, MISC}
CacheObjs  == {CacheObj(d, c) : d \in 1..5, c \in {UNIFIED, DATA}} \cup {CacheObj(d, INSTRUCTION) : d \in 1..3}
Domain(G, UnkChoices) ==
    {Obj(t) : t \in PlainTypes}
    \cup CacheObjs
    \cup {GroupObj(g) : g \in 0..(G - 1)}
    \cup {BridgeObj(u, BR_PCI) : u \in {BR_HOST, BR_PCI}}
    \cup {OsdevObj(k \cup u) : k \in SUBSET KnownOsBits, u \in UnkChoices}

\* What hwloc_type_sscanf reported: rc, and when rc = 0 the type and the attributes of that type
ScanRes(rc, t, a) == [rc |-> rc, type |-> t, cd |-> a.cd, ct |-> a.ct, gd |-> a.gd, up |-> a.up, down |-> a.down, os |-> a.os]

---------------------------------------------------------------------------
(* Part 2: the relations of the property statement *)

\* "the text ... is accepted by hwloc_type_sscanf(), which returns the same type and, when
\* attributes are requested, the same cache depth/type, group depth, bridge upstream type and
\* OS-device type set".  Bits of the type word without a name are not types: the parsed set
\* must agree with the object on the named types and must not invent any.
RoundTripRel(o, r) ==
    /\ r.rc = 0
    /\ r.type = o.type
    /\ IsCache(o.type) => (r.cd = o.cd /\ r.ct = o.ct)
    /\ o.type = GROUP  => r.gd = o.gd
    /\ o.type = BRIDGE => r.up = o.up
    /\ o.type = OSDEV  => (r.os \cap KnownOsBits = o.os \cap KnownOsBits /\ r.os \subseteq o.os)

\* hwloc_obj_type_string(type) parses back to the type (no attribute is promised)
TypeStringRel(t, r) == r.rc = 0 /\ r.type = t

\* One call fn(buf, size, ...) whose untruncated output is `full`:
\*   call = [size, ret, nul, glo, ghi, txt]  where nul = offset of the first NUL inside
\*   [buf, buf+size) or -1, glo/ghi = number of modified guard bytes before/after the buffer,
\*   txt = the bytes before that NUL (all `size` bytes when there is none).
RetIsFullLength(full, c) == c.ret = Len(full)
NoWriteOutside(c)        == c.glo = 0 /\ c.ghi = 0
NulTerminated(c)         == c.size > 0 => (c.nul >= 0 /\ c.nul < c.size)
TruncIsPrefix(full, c)   == Len(c.txt) <= Len(full) /\ SubSeq(full, 1, Len(c.txt)) = c.txt
CompleteWhenFits(full, c) == c.size > Len(full) => c.txt = full
SnprintfRel(full, c) ==
    /\ RetIsFullLength(full, c)
    /\ NoWriteOutside(c)
    /\ NulTerminated(c)
    /\ TruncIsPrefix(full, c)
    /\ CompleteWhenFits(full, c)
\* "accept NULL with size 0 and return the untruncated length"
NullRel(full, r0) == r0 = Len(full)

\* "all objects of one level print the same type text".  texts = the distinct texts of the
\* level.  hwloc puts host and PCI bridges, and OS devices of every type, in one virtual level
\* each; their texts carry the attribute and legitimately differ, so these two are excluded.
UniformDepth(d) == d >= 0 \/ d \in {DEPTH_NUMANODE, DEPTH_PCIDEV, DEPTH_MISC, DEPTH_MEMCACHE}
LevelUniformRel(depth, texts) == UniformDepth(depth) => Cardinality(texts) <= 1

\* kind predicates: k = <<normal, memory, io, misc, cache, dcache, icache>> as 0/1
KindPartition(k) == k[1] + k[2] + k[3] + k[4] = 1 /\ \A i \in 1..7 : k[i] \in {0, 1}
KindTable(t, k) ==
    /\ (k[1] = 1) = (Kind(t) = "normal")
    /\ (k[2] = 1) = (Kind(t) = "memory")
    /\ (k[3] = 1) = (Kind(t) = "io")
    /\ (k[4] = 1) = (Kind(t) = "misc")
    /\ (k[5] = 1) = IsCache(t)
    /\ (k[6] = 1) = IsDCache(t)
    /\ (k[7] = 1) = IsICache(t)
KindsRel(t, k) == KindPartition(k) /\ KindTable(t, k)

\* hwloc_compare_types(a, b) = r, U = HWLOC_TYPE_UNORDERED, na/nb = hwloc_obj_type_is_normal
Sign(x) == IF x < 0 THEN -1 ELSE IF x > 0 THEN 1 ELSE 0
CmpReflexive(a, b, r)        == (a = b) = (r = 0)
CmpMachineHighest(a, b, r, U) == (a = MACHINE /\ b # MACHINE) => (r < 0 /\ r # U)
CmpPUDeepest(a, b, r, U, nb) == (a = PU /\ b # PU /\ nb) => (r > 0 /\ r # U)
CmpNormalComparable(r, U, na, nb) == (na /\ nb) => r # U
\* "only normal objects are comparable, others are only comparable with Machine"
CmpKindConsistent(a, b, r, U, na, nb) ==
    /\ (na /\ ~nb /\ a # MACHINE) => r = U
    /\ (nb /\ ~na /\ b # MACHINE) => r = U
CmpOneRel(a, b, r, U, na, nb) ==
    /\ CmpReflexive(a, b, r)
    /\ CmpMachineHighest(a, b, r, U)
    /\ CmpPUDeepest(a, b, r, U, nb)
    /\ CmpNormalComparable(r, U, na, nb)
    /\ CmpKindConsistent(a, b, r, U, na, nb)
\* r = compare(a,b) against q = compare(b,a)
CmpAntisym(r, q, U) == (r = U) = (q = U) /\ (r # U => Sign(r) = -Sign(q))

\* arbitrary strings: "returns 0 or -1"; when 0, the returned type is a type whose name parses back to it
WeakScanRel(r) == r.rc \in {0, -1} /\ (r.rc = 0 => r.type \in TypeIds)

---------------------------------------------------------------------------
(* Part 3: reference implementation *)

Ch(s, i) == IF i >= 1 /\ i <= Len(s) THEN SubSeq(s, i, i) ELSE ""
UC == "ABCDEFGHIJKLMNOPQRSTUVWXYZ"
LC == "abcdefghijklmnopqrstuvwxyz"
DG == "0123456789"
Upper == {Ch(UC, i) : i \in 1..26}
Lower == {Ch(LC, i) : i \in 1..26}
ToLower == [c \in Upper |-> Ch(LC, CHOOSE i \in 1..26 : Ch(UC, i) = c)]
ToUpper == [c \in Lower |-> Ch(UC, CHOOSE i \in 1..26 : Ch(LC, i) = c)]
Digits == {Ch(DG, i) : i \in 1..10}
DigitVal == [c \in Digits |-> (CHOOSE i \in 1..10 : Ch(DG, i) = c) - 1]
Min(a, b) == IF a < b THEN a ELSE b

RECURSIVE MapStr(_, _)
MapStr(s, f) == IF s = "" THEN "" ELSE (LET c == Ch(s, 1) IN IF c \in DOMAIN f THEN f[c] ELSE c) \o MapStr(SubSeq(s, 2, Len(s)), f)
LowerStr(s) == MapStr(s, ToLower)
UpperStr(s) == MapStr(s, ToUpper)

RECURSIVE NumStr(_)
NumStr(n) == IF n < 10 THEN Ch(DG, n + 1) ELSE NumStr(n \div 10) \o Ch(DG, (n % 10) + 1)

(* ---- printing: hwloc_obj_type_string, hwloc_obj_type_snprintf ---- *)
TypeStringM(t) == IF t \in TypeIds THEN TypeName[t + 1] ELSE "Unknown"

\* the names[] table of traversal.c: <<bit, short name, long name>> in printing order
OsNames == << <<OS_MEMORY, "Mem", "Memory">>, <<OS_STORAGE, "Storage", "Storage">>, <<OS_OFED, "OFED", "OpenFabrics">>,
              <<OS_NETWORK, "Net", "Network">>, <<OS_COPROC, "CoProc", "Co-Processor">>, <<OS_GPU, "GPU", "GPU">>,
              <<OS_DMA, "DMA", "DMA">> >>
OsName(i, long) == IF long THEN OsNames[i][3] ELSE OsNames[i][2]
RECURSIVE OsListM(_, _, _, _)
OsListM(bits, long, i, first) ==
    IF i > Len(OsNames) THEN (IF first THEN "" ELSE "]")
    ELSE IF OsNames[i][1] \in bits THEN (IF first THEN "[" ELSE ",") \o OsName(i, long) \o OsListM(bits, long, i + 1, FALSE)
    ELSE OsListM(bits, long, i + 1, first)
OsShortM(bits, long) ==
    IF \E i \in 1..Len(OsNames) : OsNames[i][1] \in bits
    THEN OsName(CHOOSE i \in 1..Len(OsNames) : OsNames[i][1] \in bits /\ \A j \in 1..(i - 1) : OsNames[j][1] \notin bits, long)
    ELSE IF long THEN "OSDev" ELSE "OS"
CacheLetter(c) == IF c = UNIFIED THEN "" ELSE IF c = DATA THEN "d" ELSE IF c = INSTRUCTION THEN "i" ELSE "unknown"

PrintM(o, f) ==
    LET long  == Has(f, F_OLD_VERBOSE) \/ Has(f, F_LONG_NAMES)
        short == Has(f, F_SHORT_NAMES)
    IN  IF IsCache(o.type) THEN "L" \o NumStr(o.cd) \o CacheLetter(o.ct) \o (IF long THEN "Cache" ELSE "")
        ELSE IF o.type = GROUP THEN "Group" \o (IF o.gd >= 0 THEN NumStr(o.gd) ELSE "")
        ELSE IF o.type = BRIDGE THEN (IF o.up = BR_PCI THEN "PCIBridge" ELSE "HostBridge")
        ELSE IF o.type = PCIDEV THEN "PCI"
        ELSE IF o.type = OSDEV THEN (IF short THEN OsShortM(o.os, long)
                                     ELSE (IF long THEN "OSDev" ELSE "OS") \o OsListM(o.os, long, 1, TRUE))
        ELSE TypeStringM(o.type)

\* what a correct snprintf leaves in a buffer of `size` bytes
RefCall(full, size) ==
    LET n == IF size = 0 THEN 0 ELSE Min(Len(full), size - 1)
    IN [size |-> size, ret |-> Len(full), nul |-> IF size = 0 THEN -1 ELSE n, glo |-> 0, ghi |-> 0, txt |-> SubSeq(full, 1, n)]

(* ---- parsing: hwloc__type_match, hwloc__osdev_type_sscanf, hwloc_type_sscanf ---- *)
\* hwloc__type_match(s + pos - 1, type, min): 0 when there is no match, otherwise the position
\* (1-based, possibly Len(s)+1) of the first character that was not consumed
RECURSIVE MatchRec(_, _, _, _, _)
MatchRec(s, pos, type, min, i) ==
    LET c == Ch(s, pos + i)
        t == Ch(type, i + 1)
    IN  IF c = "" THEN (IF i < min THEN 0 ELSE pos + i)
        ELSE IF t # "" /\ (c = t \/ (c \in Upper /\ ToLower[c] = t)) THEN MatchRec(s, pos, type, min, i + 1)
        ELSE IF c \in Upper \cup Lower \cup {"-"} THEN 0
        ELSE IF i < min THEN 0 ELSE pos + i
Match(s, pos, type, min) == MatchRec(s, pos, type, min, 0)
M(s, pos, type, min) == Match(s, pos, type, min) # 0

OsOneM(s, pos) ==
    IF M(s, pos, "storage", 4) \/ M(s, pos, "block", 4) THEN OS_STORAGE
    ELSE IF M(s, pos, "memory", 3) THEN OS_MEMORY
    ELSE IF M(s, pos, "network", 3) THEN OS_NETWORK
    ELSE IF M(s, pos, "ofed", 4) \/ M(s, pos, "openfabrics", 7) THEN OS_OFED
    ELSE IF M(s, pos, "dma", 3) THEN OS_DMA
    ELSE IF M(s, pos, "gpu", 3) THEN OS_GPU
    ELSE IF M(s, pos, "coproc", 5) \/ M(s, pos, "co-processor", 6) THEN OS_COPROC
    ELSE -1
RECURSIVE FindChar(_, _, _)
FindChar(s, pos, c) == IF pos > Len(s) THEN 0 ELSE IF Ch(s, pos) = c THEN pos ELSE FindChar(s, pos + 1, c)
RECURSIVE OsTypesM(_, _)
OsTypesM(s, pos) ==
    LET b  == OsOneM(s, pos)
        nx == FindChar(s, pos, ",")
    IN (IF b >= 0 THEN {b} ELSE {}) \cup (IF nx = 0 THEN {} ELSE OsTypesM(s, nx + 1))

\* strtol on a digit string, saturating (reference only)
RECURSIVE NumRec(_, _, _)
NumRec(s, pos, acc) == IF Ch(s, pos) \in Digits
                       THEN NumRec(s, pos + 1, IF acc >= 100000000 THEN 2000000000 ELSE acc * 10 + DigitVal[Ch(s, pos)])
                       ELSE <<acc, pos>>
CasePrefix(s, p) == Len(s) >= Len(p) /\ LowerStr(SubSeq(s, 1, Len(p))) = p

Fail == ScanRes(-1, -1, NoAttr)
Ok(t) == ScanRes(0, t, NoAttr)
ParseM(s) ==
    IF CasePrefix(s, "osdev[") THEN [Ok(OSDEV) EXCEPT !.os = OsTypesM(s, 7)]
    ELSE IF CasePrefix(s, "os[") THEN [Ok(OSDEV) EXCEPT !.os = OsTypesM(s, 4)]
    ELSE IF M(s, 1, "osdev", 2) THEN Ok(OSDEV)
    ELSE IF OsOneM(s, 1) >= 0 THEN [Ok(OSDEV) EXCEPT !.os = {OsOneM(s, 1)}]
    ELSE IF M(s, 1, "machine", 2) THEN Ok(MACHINE)
    ELSE IF M(s, 1, "numanode", 2) \/ M(s, 1, "node", 2) THEN Ok(NUMANODE)
    ELSE IF M(s, 1, "memcache", 5) \/ M(s, 1, "memory-side cache", 8) THEN Ok(MEMCACHE)
    ELSE IF M(s, 1, "package", 2) \/ M(s, 1, "socket", 2) THEN Ok(PACKAGE)
    ELSE IF M(s, 1, "die", 2) THEN Ok(DIE)
    ELSE IF M(s, 1, "core", 2) THEN Ok(CORE)
    ELSE IF M(s, 1, "pu", 2) THEN Ok(PU)
    ELSE IF M(s, 1, "misc", 4) THEN Ok(MISC)
    ELSE IF M(s, 1, "bridge", 4) THEN [Ok(BRIDGE) EXCEPT !.down = BR_PCI]
    ELSE IF M(s, 1, "hostbridge", 6) THEN [Ok(BRIDGE) EXCEPT !.up = BR_HOST, !.down = BR_PCI]
    ELSE IF M(s, 1, "pcibridge", 5) THEN [Ok(BRIDGE) EXCEPT !.up = BR_PCI, !.down = BR_PCI]
    ELSE IF M(s, 1, "pcidev", 3) THEN Ok(PCIDEV)
    ELSE IF Ch(s, 1) \in {"l", "L"} /\ Ch(s, 2) \in Digits THEN
        LET nd  == NumRec(s, 2, 0)
            d   == nd[1]
            e   == Ch(s, nd[2])
            ct  == IF e \in {"i", "I"} THEN INSTRUCTION ELSE IF e \in {"d", "D"} THEN DATA ELSE UNIFIED
            suf == IF e \in {"i", "I", "d", "D", "u", "U"} THEN nd[2] + 1 ELSE nd[2]
            t   == CacheTypeOf(d, ct)
        IN  IF t = -1 \/ ~M(s, suf, "cache", 0) THEN Fail
            ELSE [Ok(t) EXCEPT !.cd = d, !.ct = ct]
    ELSE IF M(s, 1, "group", 2) THEN
        LET e == Match(s, 1, "group", 2)
        IN  IF Ch(s, e) \in Digits THEN [Ok(GROUP) EXCEPT !.gd = NumRec(s, e, 0)[1]] ELSE Ok(GROUP)
    ELSE Fail

(* ---- hwloc_compare_types: obj_type_order[] and the normal/Machine rule ---- *)
UNORDERED == 2147483647
TypeOrder == << 0, 4, 5, 14, 18, 12, 10, 8, 7, 6, 13, 11, 9, 1, 3, 2, 15, 16, 17, 19 >>
CmpM(a, b) ==
    IF Kind(a) # "normal" /\ Kind(b) = "normal" /\ b # MACHINE THEN UNORDERED
    ELSE IF Kind(b) # "normal" /\ Kind(a) = "normal" /\ a # MACHINE THEN UNORDERED
    ELSE TypeOrder[a + 1] - TypeOrder[b + 1]
KindsM(t) == << IF Kind(t) = "normal" THEN 1 ELSE 0, IF Kind(t) = "memory" THEN 1 ELSE 0, IF Kind(t) = "io" THEN 1 ELSE 0,
                IF Kind(t) = "misc" THEN 1 ELSE 0, IF IsCache(t) THEN 1 ELSE 0, IF IsDCache(t) THEN 1 ELSE 0,
                IF IsICache(t) THEN 1 ELSE 0 >>
=============================================================================
