------------------------------ MODULE MC_Load ------------------------------
(* Model of configuring and loading a topology (C01): TLC enumerates /     *)
(* simulates configurations = source x sequence of filter and flag calls,  *)
(* legal and illegal, following Lifecycle.tla; each one is a behaviour      *)
(* loaded for real.                                                         *)
EXTENDS Lifecycle, Json, TLC

CONSTANTS Sources,          \* abstract source ids (rendered by tools/props/c01.py)
          FlagChoices,      \* flag words to try (legal and illegal)
          FilterTargets,    \* types, or -1 all, -2 cache, -3 icache, -4 io
          MaxFilterSteps,
          BindChoices       \* CPU bindings the process may take before the load (indexes into a list rendered by c01.py; {} = never)
VARIABLES src, slot, nf, flagged, done, hist,
          bound             \* the binding taken (0 = the process keeps its own): what RESTRICT_TO_CPUBINDING will look at

Init == /\ src \in Sources /\ slot = InitSlot /\ nf = 0 /\ flagged = FALSE /\ done = FALSE /\ bound = 0
        /\ hist = <<<<"src", src, 0, 0>>>>

\* the relation of Lifecycle.tla determines the result uniquely: enumerate the outcomes and keep the one it accepts
SetFilterAct ==
  /\ ~done /\ nf < MaxFilterSteps
  /\ \E which \in FilterTargets, f \in 0..3 :
       \E ret \in {0, -1} :
         \E s2 \in {slot, [slot EXCEPT !.filters = IF which >= 0 THEN ApplyFilter(slot.filters, which, f) ELSE slot.filters],
                    [slot EXCEPT !.filters = ApplyFilterSeq(slot.filters,
                        CASE which = -1 -> AllTypesSeq [] which = -2 -> CacheTypesSeq
                          [] which = -3 -> ICacheTypesSeq [] which = -4 -> IOTypesSeq [] OTHER -> <<>>, f)]} :
           /\ SetFilterRel(slot, which, f, ret, IF ret = 0 THEN "0" ELSE "EINVAL", s2)
           /\ slot' = s2
           /\ hist' = Append(hist, <<"filter", which, f, ret>>)
  /\ nf' = nf + 1
  /\ UNCHANGED <<src, flagged, done, bound>>

SetFlagsAct ==
  /\ ~done /\ ~flagged
  /\ \E f \in FlagChoices : \E ret \in {0, -1} : \E s2 \in {slot, [slot EXCEPT !.flags = f]} :
       /\ SetFlagsRel(slot, f, ret, IF ret = 0 THEN "0" ELSE "EINVAL", s2)
       /\ slot' = s2
       /\ hist' = Append(hist, <<"flags", f, ret, 0>>)
  /\ flagged' = TRUE
  /\ UNCHANGED <<src, nf, done, bound>>

LoadAct == /\ ~done /\ done' = TRUE
           /\ hist' = Append(hist, <<"load", 0, 0, 0>>)
           /\ UNCHANGED <<src, slot, nf, flagged, bound>>

\* the caller binds itself before loading (a topology that claims to be this system and asks for RESTRICT_TO_CPUBINDING is cut to it)
BindAct == /\ ~done /\ bound = 0
           /\ \E b \in BindChoices : bound' = b /\ hist' = Append(hist, <<"bind", b, 0, 0>>)
           /\ UNCHANGED <<src, slot, nf, flagged, done>>

Next == SetFilterAct \/ SetFlagsAct \/ LoadAct \/ BindAct
Spec == Init /\ [][Next]_<<src, slot, nf, flagged, done, hist, bound>>
View == <<src, slot, nf, flagged, done, bound>>

\* consequences of the configuration relations (sanity of the model)
FiltersSane ==
  /\ \A ty \in {MACHINE, PU, NUMANODE} : slot.filters[ty + 1] = FILTER_KEEP_ALL
  /\ slot.filters[GROUP + 1] # FILTER_KEEP_ALL
  /\ \A ty \in IOTypes \cup {MISC} : slot.filters[ty + 1] # FILTER_KEEP_STRUCTURE
  /\ FlagsLegal(slot.flags)

EmitCfg == done => PrintT(<<"CFG", ToJson(hist)>>)
=============================================================================
