---------------------------- MODULE MC_Distances ----------------------------
(***************************************************************************)
(* Bounded model of the distances store of one topology (C13).             *)
(* One named action per public entry point; add is three actions (create / *)
(* values / commit) so that a half-built handle is a state of the model.   *)
(* The model resolves what the documentation leaves open the way the       *)
(* relations of Distances.tla allow (see "resolution" notes); it is used   *)
(*  - to check the property on the abstract store (invariants below), and  *)
(*  - to enumerate behaviours (one per state-graph edge, striped) that are *)
(*    replayed on the real library and validated by TraceDistances.        *)
(* Objects are the candidate numbers 1..NC of the behaviour's reset line.  *)
(***************************************************************************)
EXTENDS Distances, TLC, Json

CONSTANTS NC,            \* number of candidate objects
          CType,         \* their types (sequence of strings)
          CSw,           \* is the candidate a switch port (sequence of booleans)
          Names,         \* names given to add_create; "-" stands for NULL
          Kinds, CreateFlags, ValuesFlags, CommitFlags,
          ObjSeqs,       \* object arrays given to add_values: sequences over 0..NC, 0 = NULL pointer
          ValPats,       \* value matrix patterns (see ValOf)
          Restricts,     \* set of [id, alive]: restrict option id keeps the candidates in alive
          MaxDists, MaxRestricts,
          Queries,       \* set of <<by, arg, kind, flags, nr_in>>
          Xfs,           \* set of <<transform, nullmask, flags, attr>>
          RmTypes,       \* types given to remove_by_type / remove_by_depth("t:"type)
          BadDepths,     \* integer depths given to remove_by_depth / get_by_depth that name no level
          Ops,           \* enabled families of actions
          MaxPhase,      \* how many removals / topology replacements are remembered in the state (see phase)
          PhaseQueries,  \* the queries that are still asked once phase is not empty
          NStripes, Stripe, SimLen

\* phase remembers (up to MaxPhase of) the removals, dups and XML round trips that happened.  They do not change
\* the abstract store beyond what dists shows, but the implementation's lists, identifiers and cached object
\* pointers have been through them: remembering them makes "remove, then add again" or "dup, then release_remove"
\* distinct states, hence behaviours that get generated.
VARIABLES dists, h, alive, nres, phase, hist
vars == <<dists, h, alive, nres, phase, hist>>
View == <<dists, h, alive, nres, phase>>
Bump(tag) == phase' = IF Len(phase) < MaxPhase THEN Append(phase, tag) ELSE phase

Cands == 1..NC
ToObjs(cs) == [i \in DOMAIN cs |-> IF cs[i] = 0 \/ cs[i] \notin alive THEN NULLOBJ ELSE cs[i]]
ObjTypes(os) == [i \in DOMAIN os |-> IF os[i] = NULLOBJ THEN "" ELSE CType[os[i]]]
ObjSws(os) == [i \in DOMAIN os |-> IF os[i] = NULLOBJ THEN FALSE ELSE CSw[os[i]]]

\* value matrices: 1 all distinct (any transposition or wrong sub-matrix shows), 2 latency-like with two close pairs
\* (groupable), 3 bandwidth-like links {0,2} with a non-zero diagonal, 4 bandwidths 2/3 (no common link unit),
\* 5 hops |i-j|, 6 bandwidth star around the ports, 0 random over {0,1,2,4} (simulation only)
ValOf(p, n) == [k \in 1..(n * n) |->
   LET i == ((k - 1) \div n) + 1
       j == ((k - 1) % n) + 1
       dd == IF i > j THEN i - j ELSE j - i
   IN CASE p = 1 -> k
        [] p = 2 -> IF i = j THEN 1 ELSE IF (i + 1) \div 2 = (j + 1) \div 2 THEN 2 ELSE 4
        [] p = 3 -> IF i = j THEN 4 ELSE IF dd = 1 THEN 2 ELSE 0
        [] p = 4 -> IF i = j THEN 0 ELSE IF i < j THEN 2 ELSE 3
        [] p = 5 -> dd
        [] p = 6 -> IF i = j THEN 0 ELSE IF dd = 2 THEN 4 ELSE IF dd = 1 THEN 0 ELSE 2
        [] OTHER -> RandomElement({0, 1, 2, 4})]

Init == dists = <<>> /\ h = NoHandle /\ alive = Cands /\ nres = 0 /\ phase = <<>> /\ hist = <<>>

\* hist entries are <<stripe code, op name, arguments...>>
Log(c, t) == hist' = Append(hist, <<c>> \o t)
NameIx(nm) == IF nm = "-" THEN 0 ELSE IF nm = "a" THEN 1 ELSE 2

\* ---------- add ----------
\* resolution: a kind that is not forbidden is accepted
Create(nm, k, f) ==
  /\ h.st = "none" /\ Len(dists) < MaxDists
  /\ h' = IF CreateMustFail(k, f) THEN NoHandle ELSE Created(IF nm = "-" THEN "" ELSE nm, nm # "-", k)
  /\ Log(k * 7 + f * 3 + NameIx(nm), <<"create", nm, k, f>>)
  /\ UNCHANGED <<dists, alive, nres, phase>>

\* resolution: any NULL object makes the call fail
\* (a second add_values on the same handle is only tried with two fixed arrays)
Values(cs, p, f) ==
  /\ h.st = "created" \/ (h.st = "filled" /\ cs \in {<<1, 2>>, <<2>>})
  /\ \A i \in DOMAIN cs : cs[i] = 0 \/ cs[i] \in alive
  /\ LET objs == ToObjs(cs)
         vals == ValOf(p, Len(cs))
         ret == IF ValuesMustSucceed(h, objs, f) THEN 0 ELSE -1
     IN /\ ValuesRel(h, objs, f, ret)
        /\ h' = AfterValues(h, objs, ObjTypes(objs), vals, ret)
        /\ Log(p * 11 + f * 5 + Len(cs) + (IF cs = <<>> THEN 0 ELSE cs[1] * 3 + cs[Len(cs)]), <<"values", f, cs, vals>>)
  /\ UNCHANGED <<dists, alive, nres, phase>>

\* resolution: the committed kind is the created kind plus HETEROGENEOUS_TYPES when the types differ
Commit(f) ==
  /\ h.st # "none"
  /\ LET ret == IF CommitMustFail(h, f) THEN -1 ELSE 0 IN
     /\ dists' = IF ret = 0 THEN Append(dists, [Entry(h) EXCEPT !.kind = EntryKind(h)]) ELSE dists
     /\ SameUpToHet(AfterCommit(dists, h, ret), dists')
  /\ h' = NoHandle
  /\ Log(f * 13 + 1, <<"commit", f>>)
  /\ UNCHANGED <<alive, nres, phase>>

\* ---------- remove ----------
Remove == /\ "remove" \in Ops /\ dists # <<>>
          /\ dists' = <<>> /\ Bump("rm") /\ Log(5, <<"remove">>) /\ UNCHANGED <<h, alive, nres>>
\* resolution: heterogeneous matrices are not "for" any single type
RmType(t) == /\ "rmtype" \in Ops /\ dists # <<>>
             /\ dists' = RemoveAt(dists, {i \in DOMAIN dists : TypeMust(dists[i], t)})
             /\ RemovalRel(dists, t, dists')
             /\ (IF dists' # dists THEN Bump("rm") ELSE UNCHANGED phase)
             /\ Log(Len(t), <<"rmtype", t>>) /\ UNCHANGED <<h, alive, nres>>
RmDepthT(t) == /\ "rmdepth" \in Ops /\ dists # <<>>
               /\ dists' = RemoveAt(dists, {i \in DOMAIN dists : TypeMust(dists[i], t)})
               /\ (IF dists' # dists THEN Bump("rm") ELSE UNCHANGED phase)
               /\ Log(Len(t) + 1, <<"rmdepth", "t", t>>) /\ UNCHANGED <<h, alive, nres>>
RmDepthBad(d) == /\ "rmdepth" \in Ops /\ dists # <<>>
                 /\ Log(d, <<"rmdepth", "i", d>>) /\ UNCHANGED <<dists, h, alive, nres, phase>>
RR(k) == /\ "rr" \in Ops /\ k \in 0..Len(dists)      \* k = Len(dists): nothing to remove (skipped on the real side)
         /\ dists' = RemoveAt(dists, {k + 1})
         /\ (k < Len(dists)) => RemoveOneRel(dists, dists[k + 1], dists')
         /\ (IF dists' # dists THEN Bump("rm") ELSE UNCHANGED phase)
         /\ Log(k * 3, <<"rr", k>>) /\ UNCHANGED <<h, alive, nres>>
RR2(k) == /\ "rr2" \in Ops /\ k \in 0..(Len(dists) - 1)
          /\ dists' = RemoveAt(dists, {k + 1})
          /\ Bump("rm")
          /\ Log(k * 3 + 1, <<"rr2", k>>) /\ UNCHANGED <<h, alive, nres>>

\* ---------- the topology changes under the store ----------
Restrict(r) == /\ "restrict" \in Ops /\ h.st # "filled" /\ nres < MaxRestricts
               /\ alive' = alive \cap r.alive
               /\ dists' = RestrictAll(dists, alive')
               /\ nres' = nres + 1
               /\ Log(r.id * 17, <<"restrict", r.id>>) /\ UNCHANGED <<h, phase>>
Dup == /\ "dup" \in Ops /\ h.st = "none" /\ dists # <<>>
       /\ Bump("dup") /\ Log(3, <<"dup">>) /\ UNCHANGED <<dists, h, alive, nres>>
Xml == /\ "xml" \in Ops /\ h.st = "none" /\ dists # <<>>
       /\ Bump("xml") /\ Log(4, <<"xml">>) /\ UNCHANGED <<dists, h, alive, nres>>

Shm == /\ "shm" \in Ops /\ dists # <<>>
       /\ Log(6, <<"shm">>) /\ UNCHANGED <<dists, h, alive, nres, phase>>

\* ---------- observers ----------
Query(q) == /\ "q" \in Ops /\ (phase = <<>> \/ q \in PhaseQueries)
            /\ Log(Len(q[1]) * 5 + q[3] * 3 + q[5] + q[4], <<"q">> \o q)
            /\ UNCHANGED <<dists, h, alive, nres, phase>>
Xf(k, x) == /\ "xf" \in Ops /\ k \in 0..(Len(dists) - 1)
            /\ Log(k * 7 + x[1] * 5 + x[2] * 3 + x[3] + x[4], <<"xf", k>> \o x)
            /\ UNCHANGED <<dists, h, alive, nres, phase>>

Next == \/ \E nm \in Names, k \in Kinds, f \in CreateFlags : Create(nm, k, f)
        \/ \E cs \in ObjSeqs, p \in ValPats, f \in ValuesFlags : Values(cs, p, f)
        \/ \E f \in CommitFlags : Commit(f)
        \/ Remove
        \/ \E t \in RmTypes : RmType(t) \/ RmDepthT(t)
        \/ \E d \in BadDepths : RmDepthBad(d)
        \/ \E k \in 0..MaxDists : RR(k) \/ RR2(k)
        \/ \E r \in Restricts : Restrict(r)
        \/ Dup \/ Xml \/ Shm
        \/ \E q \in Queries : Query(q)
        \/ \E k \in 0..(MaxDists - 1), x \in Xfs : Xf(k, x)

Spec == Init /\ [][Next]_vars

\* ---------- the property on the abstract store ----------
TypeOK == /\ h.st \in {"none", "created", "filled"}
          /\ alive \subseteq Cands /\ nres \in 0..MaxRestricts /\ Len(dists) <= MaxDists
          /\ Len(phase) <= MaxPhase /\ Range(phase) \subseteq {"rm", "dup", "xml"}
\* what is stored is well formed and only references live objects of this topology
StoreOK == \A i \in DOMAIN dists : WellFormed(dists[i]) /\ Range(dists[i].objs) \subseteq alive
HandleOK == /\ h.st = "filled" => (Len(h.objs) >= 2 /\ NULLOBJ \notin Range(h.objs) /\ Len(h.vals) = Len(h.objs) * Len(h.objs))
            /\ h.st # "none" => ~KindMustReject(h.kind)
\* every stored structure is returned under exactly the filters that match it, whatever the array size
FilterOK == phase = <<>> => \A i \in DOMAIN dists :
              LET d == dists[i] IN
              /\ QMust(d, [by |-> "kind", arg |-> "", kind |-> 0])
              /\ d.hasname => QMust(d, [by |-> "name", arg |-> d.name, kind |-> 0])
              /\ \A b \in FromBits \cup ValueBits : QMust(d, [by |-> "kind", arg |-> "", kind |-> b]) = HasBit(d.kind, b)
              /\ ~HasBit(d.kind, HETERO) => QMust(d, [by |-> "type", arg |-> d.types[1], kind |-> 0])
              /\ \A q \in Queries :
                   LET qq == [by |-> IF q[1] = "depth" THEN "type" ELSE q[1], arg |-> q[2], kind |-> q[3]]
                       sel == SelectSeq(dists, LAMBDA x : QMust(x, qq))
                       n == IF q[5] < 0 THEN Len(sel) ELSE q[5]
                   IN QueryRel(dists, qq, n, Len(sel), SubSeq(sel, 1, Min2(n, Len(sel))),
                               [s \in 1..(n + 1) |-> IF s <= Min2(n, Len(sel)) THEN "P" ELSE IF s <= n THEN "N" ELSE "S"])
\* restricting twice is restricting to the intersection; sub-matrices compose
RestrictLaw == \A r1 \in Restricts, r2 \in Restricts :
                 RestrictAll(RestrictAll(dists, r1.alive), r2.alive) = RestrictAll(dists, r1.alive \cap r2.alive)

\* a constructive version of the transforms (what a correct library may compute) satisfies the relations
Copy(d) == [kind |-> d.kind, objs |-> d.objs, types |-> d.types, sw |-> ObjSws(d.objs), vals |-> d.vals]
Masked(c, mask) == [c EXCEPT !.objs = [i \in DOMAIN c.objs |-> IF HasBit(mask, 2 ^ (i - 1)) THEN NULLOBJ ELSE c.objs[i]],
                             !.types = [i \in DOMAIN c.objs |-> IF HasBit(mask, 2 ^ (i - 1)) THEN "" ELSE c.types[i]],
                             !.sw = [i \in DOMAIN c.objs |-> IF HasBit(mask, 2 ^ (i - 1)) THEN FALSE ELSE c.sw[i]]]
DoRemoveNull(c) ==
  LET pos == NonNullPos(c.objs) IN
  IF Len(pos) < 2 THEN [ret |-> -1, errno |-> "EINVAL", out |-> c]
  ELSE LET ty == Pick(c.types, pos) IN
       [ret |-> 0, errno |-> "0",
        out |-> [kind |-> Base(c.kind) + (IF TypesDiffer(ty) THEN HETERO ELSE 0), objs |-> Pick(c.objs, pos), types |-> ty,
                 sw |-> Pick(c.sw, pos), vals |-> SubMatrix(c.vals, N(c), pos)]]
DoLinks(c) ==
  LET n == N(c)  od == OffDiag(c)  g == GcdSet(od) IN
  IF ~HasBit(c.kind, VAL_BW) THEN [ret |-> -1, errno |-> "EINVAL", out |-> c]
  ELSE IF od # {} /\ MinSet(od) # g THEN [ret |-> -1, errno |-> "ENOENT", out |-> c]
  ELSE [ret |-> 0, errno |-> "0",
        out |-> [c EXCEPT !.vals = [k \in 1..(n * n) |-> IF ((k - 1) \div n) = ((k - 1) % n) \/ g = 0 THEN 0 ELSE c.vals[k] \div g]]]
RECURSIVE SumOver(_, _)
SumOver(S, f) == IF S = {} THEN 0 ELSE LET x == CHOOSE y \in S : TRUE IN f[x] + SumOver(S \ {x}, f)
DoMerge(c) ==
  LET n == N(c)
      ports == {i \in 1..n : c.objs[i] # NULLOBJ /\ c.sw[i]}
  IN IF ports = {} THEN [ret |-> -1, errno |-> "ENOENT", out |-> c]
     ELSE LET p1 == MinSet(ports)
              merged == [k \in 1..(n * n) |->
                          LET i == ((k - 1) \div n) + 1  j == ((k - 1) % n) + 1 IN
                          IF i = p1 /\ j = p1 THEN SumOver(ports, [p \in ports |-> At(c.vals, n, p, p)])
                          ELSE IF i = p1 /\ j \notin ports THEN SumOver(ports, [p \in ports |-> At(c.vals, n, p, j)])
                          ELSE IF j = p1 /\ i \notin ports THEN SumOver(ports, [p \in ports |-> At(c.vals, n, i, p)])
                          ELSE c.vals[k]]
              c2 == [c EXCEPT !.vals = merged,
                              !.objs = [i \in 1..n |-> IF i \in ports \ {p1} THEN NULLOBJ ELSE c.objs[i]]]
          IN DoRemoveNull(c2)
DoClosure(c) ==
  LET n == N(c)
      ports == {i \in 1..n : c.objs[i] # NULLOBJ /\ c.sw[i]}
  IN [ret |-> 0, errno |-> "0",
      out |-> [c EXCEPT !.vals = [k \in 1..(n * n) |->
                 LET i == ((k - 1) \div n) + 1  j == ((k - 1) % n) + 1 IN
                 IF i = j \/ i \in ports \/ j \in ports THEN c.vals[k]
                 ELSE c.vals[k] + Min2(SumOver(ports, [p \in ports |-> At(c.vals, n, i, p)]), SumOver(ports, [p \in ports |-> At(c.vals, n, p, j)]))]]]
DoXf(x, c) == IF XfBadArgs(x[1], x[3], x[4]) THEN [ret |-> -1, errno |-> "EINVAL", out |-> c]
              ELSE CASE x[1] = XF_REMOVE_NULL -> DoRemoveNull(c)
                     [] x[1] = XF_LINKS -> DoLinks(c)
                     [] x[1] = XF_MERGE -> DoMerge(c)
                     [] x[1] = XF_CLOSURE -> DoClosure(c)
XfOK == \A i \in DOMAIN dists, x \in Xfs :
          LET in == Masked(Copy(dists[i]), x[2])
              r == DoXf(x, in)
          IN TransformRel(x[1], x[3], x[4], in, r.ret, r.errno, r.out)

\* ---------- non-vacuity of the relations: known wrong answers are refuted (evaluated once) ----------
ExIn == [kind |-> 10, objs |-> <<1, 2, 3, 4>>, types |-> <<"Core", "Core", "Core", "Core">>,
         sw |-> <<FALSE, TRUE, FALSE, FALSE>>, vals |-> <<0, 3, 5, 7, 3, 0, 11, 13, 5, 11, 0, 17, 7, 13, 17, 0>>]
ExDropped == [kind |-> 10, objs |-> <<1, 2>>, types |-> <<"Core", "Core">>, sw |-> <<FALSE, TRUE>>, vals |-> <<0, 3, 3, 0>>]
ExD == [name |-> "a", hasname |-> TRUE, kind |-> 6, objs |-> <<1, 2, 3>>, types |-> <<"PU", "PU", "PU">>, vals |-> <<1, 2, 3, 4, 5, 6, 7, 8, 9>>]
ASSUME ~MergeRel(ExIn, 0, ExDropped)                                   \* a non-switch object was dropped
ASSUME MergeRel(ExIn, 0, ExIn)                                         \* a single port: nothing to merge
ASSUME ~MergeRel([ExIn EXCEPT !.sw[4] = TRUE], 0, ExIn)                \* two ports: one must go
ASSUME ~ClosureRel(ExIn, 0, [ExIn EXCEPT !.vals[3] = 4])               \* a bandwidth decreased
ExL == [kind |-> 10, objs |-> <<1, 2>>, types |-> <<"Core", "Core">>, sw |-> <<FALSE, FALSE>>, vals |-> <<4, 2, 4, 0>>]
ASSUME ~LinksRel(ExL, 0, ExL) /\ ~LinksRel(ExL, -1, ExL) /\ LinksRel(ExL, 0, [ExL EXCEPT !.vals = <<0, 1, 2, 0>>])
ASSUME ~RemoveNullRel([ExIn EXCEPT !.objs[1] = NULLOBJ], 0, "0", ExIn) \* NULL kept
ASSUME RestrictOne(ExD, {1, 3}).vals = <<1, 3, 7, 9>>
ASSUME ~SameUpToHet(<<ExD>>, <<[ExD EXCEPT !.vals[2] = 9]>>)
ASSUME ~SameUpToHet(<<ExD>>, <<[ExD EXCEPT !.kind = 22]>>)             \* HETEROGENEOUS_TYPES on a homogeneous matrix
ASSUME ~QueryRel(<<ExD>>, [by |-> "kind", arg |-> "", kind |-> 2], 0, 0, <<>>, <<"S">>)      \* nr must count the match
ASSUME ~QueryRel(<<ExD>>, [by |-> "kind", arg |-> "", kind |-> 1], 1, 1, <<ExD>>, <<"P", "S">>)  \* FROM_OS does not match
ASSUME ~QueryRel(<<ExD>>, [by |-> "type", arg |-> "Core", kind |-> 0], 1, 1, <<ExD>>, <<"P", "S">>)
ASSUME ~QueryRel(<<ExD>>, [by |-> "name", arg |-> "a", kind |-> 0], 1, 1, <<ExD>>, <<"P", "N">>)  \* wrote past the array
ASSUME ~RemoveOneRel(<<ExD, ExD>>, ExD, <<>>)
ASSUME ~RemovalRel(<<ExD>>, "Core", <<>>) /\ ~RemovalRel(<<ExD>>, "PU", <<ExD>>)
ASSUME ~CreateRel(3, 0, TRUE) /\ ~CreateRel(6, 0, FALSE) /\ ~CreateRel(64 + 6, 0, TRUE) /\ ~CreateRel(12, 0, TRUE) /\ ~CreateRel(6, 1, TRUE)
ASSUME ~ValuesRel(Created("a", TRUE, 6), <<NULLOBJ, 1>>, 0, 0) /\ ~ValuesRel(Created("a", TRUE, 6), <<1, 2>>, 0, -1)
ASSUME ~ValuesRel(Created("a", TRUE, 6), <<1, 2>>, 1, 0) /\ ~ValuesRel(Created("a", TRUE, 6), <<1>>, 0, 0)
ASSUME ~CommitRel(Created("a", TRUE, 6), 0, 0) /\ ~CommitRel(Filled(Created("a", TRUE, 6), <<1, 2>>, <<"PU", "PU">>, <<1, 2, 3, 4>>), 4, 0)

\* ---------- emission of behaviours ----------
RECURSIVE Hash(_, _)
Hash(s, k) == IF k = 0 THEN 0 ELSE ((s[k][1] + 1) * (k + 6) + 3 * Hash(s, k - 1)) % 1000003
EmitEdge == (Hash(hist', Len(hist')) % NStripes = Stripe) => PrintT(<<"EDGE", ToJson(hist')>>)
EmitSim  == (Len(hist) = SimLen) => PrintT(<<"SIM", ToJson(hist)>>)
=============================================================================
