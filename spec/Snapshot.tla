------------------------------ MODULE Snapshot ------------------------------
(***************************************************************************)
(* Property C18: discovery from Linux sysfs/procfs snapshots and x86 CPUID *)
(* dumps is robust, deterministic and self-consistent.                     *)
(*                                                                         *)
(* A snapshot is an id, a kind and a finite table of paths (sorted, so a   *)
(* directory precedes what it contains).  A fault set is a set of          *)
(* removable paths that are removed from a copy of the snapshot before it  *)
(* is loaded; removing a directory removes its subtree.  A configuration   *)
(* is a component selection (the value of HWLOC_COMPONENTS, part of the    *)
(* environment), a filter preset and a flag word.                          *)
(*                                                                         *)
(* The four relations of the property are stated here once and used by     *)
(* the model (MC_Snapshot) and by the trace specification (TraceSnapshot). *)
(***************************************************************************)
EXTENDS XmlDoc

(* ---- snapshots and component selections ---- *)
SnKinds == {"linux", "x86", "x86+linux"}
\* the selections that apply to a kind of snapshot (values of HWLOC_COMPONENTS)
SnComps(kind) ==
  CASE kind = "linux"     -> <<"linux,stop">>
    [] kind = "x86"       -> <<"x86,stop">>
    [] kind = "x86+linux" -> <<"x86,linux,stop", "linux,x86,stop", "linux,stop", "x86,stop">>

(* ---- filter presets: -1 = default filters, f >= 0 = set_all_types_filter(f) ---- *)
SnPresets == <<-1, FILTER_KEEP_ALL, FILTER_KEEP_STRUCTURE, FILTER_KEEP_NONE>>
SnPresetSet == {SnPresets[k] : k \in DOMAIN SnPresets}
\* set_all_types_filter applies the filter to every type that accepts it (Lifecycle.tla)
SnPresetFilters(f) == IF f = -1 THEN DefaultFilters ELSE ApplyFilterSeq(DefaultFilters, AllTypesSeq, f)

\* a configuration's filters: the preset, then optionally ONE hwloc_topology_set_type_filter(ty, f) (ty = -1: none);
\* an illegal (type, filter) pair is refused and leaves the preset (Lifecycle.tla)
SnCfgFilters(filt, ty, f) == IF ty = -1 THEN SnPresetFilters(filt) ELSE ApplyFilter(SnPresetFilters(filt), ty, f)
\* the types whose filter may be changed at all
SnTargetable == (0..(NTYPES - 1)) \ {MACHINE, PU, NUMANODE}

(* ---- what makes a single removal interesting: feature classes of snapshots x path classes of per-instance attributes ---- *)
\* feature classes (tools/props/c18.py derives them from the content of the snapshot):
\*   cpuless  a NUMA node without CPUs           hmat     memory initiators / memory-side caches (heterogeneous memory)
\*   knl      Knights Landing (MCDRAM quirks)     sparse   NUMA node or CPU numbers with holes
\*   offline  CPUs present but offline            kinds    CPU kinds (capacity, frequencies, hybrid core types)
SnFeatureClasses == {"cpuless", "hmat", "knl", "sparse", "offline", "kinds", "plain"}
SnNodeFeatures == {"cpuless", "hmat", "knl", "sparse"}
SnCpuFeatures == {"offline", "kinds"}
\* path classes: the attributes below ONE numbered instance directory (sys/devices/system/node/nodeN, .../cpu/cpuN)
SnNodePathClasses == {"node.cpumap", "node.distance", "node.meminfo", "node.hmat"}
SnCpuPathClasses == {"cpu.topology", "cpu.cache", "cpu.online", "cpu.kind"}
SnPathClasses == SnNodePathClasses \cup SnCpuPathClasses
\* discovery treats the NUMA nodes of a snapshot individually when the memory is not uniform (locality of CPU-less nodes
\* from distances or initiators, KNL MCDRAM, node numbers as array indexes), and its CPUs when they are not uniform
SnInteresting(fc, pc) == \/ fc \in SnNodeFeatures /\ pc \in SnNodePathClasses
                         \/ fc \in SnCpuFeatures /\ pc \in SnCpuPathClasses

\* Some per-instance attributes do not describe the instance on its own but RANK it among the others: discovery partitions
\* the instances by the value of each such attribute (CPU kinds: capacity, base / maximal frequency, core type) and combines
\* the partitions of the different attributes.  In the bundled snapshots these partitions nest (every attribute is there for
\* every CPU and the values follow the same groups of CPUs); they stop nesting when each attribute is missing on a DIFFERENT
\* part of the instances, which no single removal, whole-class removal or small random set produces.  For these (feature
\* class, path class) pairs the model removes the attributes in a staggered way: SnStaggerLoses says which instances lose
\* the j-th attribute class (j = 0, 1, ...; instances numbered 1, 2, ... in numeric order) under modulus m and offset s.
\* With m above the number of attribute classes some instances keep every attribute, with m below it several attribute
\* classes are missing on the same instances.
SnStaggered(fc, pc) == fc = "kinds" /\ pc = "cpu.kind"
SnStaggerLoses(i, j, m, s) == (i + s) % m = j % m

(* ---- the instance-directory rule ---- *)
Digits == {"0", "1", "2", "3", "4", "5", "6", "7", "8", "9"}
EndsInDigit(path) == Len(path) > 0 /\ SubSeq(path, Len(path), Len(path)) \in Digits
\* what may be removed on its own: regular files, symlinks, directories whose name does not end in a digit
\* (numbered instance directories such as cpuN / nodeN only disappear together with a directory above them)
SnRemovable(kind, path) == kind \in {"file", "symlink"} \/ (kind = "dir" /\ ~EndsInDigit(path))

(* ---- fault sets over a path table tab = [np, removable, ...] (indexes 1..np; removable[i] = 1 iff SnRemovable) ---- *)
\* only removable paths are removed on their own; what is inside a removed directory goes with it, and that is the
\* only way a numbered instance directory disappears
FaultSetOK(tab, rs) == rs \subseteq 1..tab.np /\ \A i \in rs : tab.removable[i] = 1

(* ---- outcomes and the four relations ---- *)
\* (1) a load fails cleanly with -1 or yields a well-formed topology carrying the configuration
LoadFails(ret, live) == ret = -1 /\ live = 0
LoadYields(ret, live, t, filt, ty, f, flags) ==
  /\ ret = 0 /\ live = 1
  /\ t.n > 0
  /\ t.flags = flags
  /\ t.filters = SnCfgFilters(filt, ty, f)
  /\ \A i \in Pos(t) : O(t, i).ud = 0
\* WellFormed(t) (Topology.tla) is conjoined by the caller, which may know it already for this very projection

\* documented effects of the configuration on what discovery keeps (hwloc.h, topology flags; doc of HWLOC_FSROOT):
\* NO_DISTANCES / NO_CPUKINDS ignore what the operating system reports, and a topology read from another
\* file-system root is not this system
FLAG_NO_DISTANCES == 128   FLAG_NO_CPUKINDS == 512
LinuxSelections == {"linux,stop", "x86,linux,stop", "linux,x86,stop"}
ConfigRespected(t, flags, kind, comp) ==
  /\ Bit(flags, FLAG_NO_DISTANCES) => t.stores.dist = <<>>
  /\ Bit(flags, FLAG_NO_CPUKINDS) => t.stores.ck = <<>>
  /\ (kind \in {"linux", "x86+linux"} /\ comp \in LinuxSelections) => t.thissystem = 0

\* (2) two loads of the same snapshot, fault set and configuration give the same outcome and the same projection
Deterministic(o1, o2) == o1.ret = o2.ret /\ o1.pd = o2.pd

\* (3) INCLUDE_DISALLOWED: d = the load without the flag, a = the load with it
OsSet(t, ty) == {O(t, i).os : i \in {j \in Pos(t) : O(t, j).type = ty}}
DisallowedRel(d, a) ==
  /\ OsSet(d, PU) \subseteq OsSet(a, PU)
  /\ OsSet(d, NUMANODE) \subseteq OsSet(a, NUMANODE)
  /\ RSet(a.tacs) = CS(O(d, 1))
  /\ RSet(a.tans) = NS(O(d, 1))

\* (4) the topology reloaded from its own XML export (same flags, every type kept) equals it
XmlSelfConsistent(src, imp, flags) == imp.n > 0 /\ imp.flags = flags /\ Equivalent(src, imp, flags)
=============================================================================
