SPECIFICATION Spec
CONSTANTS
  Lo <- QLo
  Hi <- QHi
  R = 2
  NStripes = 16
  Stripe = 0
  SimLen = 0
VIEW View
INVARIANTS TypeOK WordAligned Consistent EmitState
ACTION_CONSTRAINT EmitEdge
CHECK_DEADLOCK FALSE
