------------------------------ MODULE Topology ------------------------------
(***************************************************************************)
(* The abstract hwloc topology and the well-formedness predicate of        *)
(* property C01, written from the property statement - not a transcription *)
(* of hwloc_topology_check() and using none of hwloc's bitmap code.        *)
(*                                                                         *)
(* A topology t is the record logged by harness/project.h:                 *)
(*   t.objs   sequence of objects in depth-first order; every link of an   *)
(*            object is a position in this sequence (0 = NULL, -1 = a      *)
(*            pointer to something not reachable from the root)            *)
(*   t.levels normal levels 0..depth-1 followed by the six special levels  *)
(*   t.tdepth hwloc_get_type_depth() for the 20 types, t.filters, t.flags, *)
(*   the six topology-level sets, t.check_ok.                              *)
(* Sets are logged as range lists <<lo,hi>> (hi = -1: infinite).           *)
(* One named conjunct per clause of the property, so that a rejection can  *)
(* name the clause.                                                        *)
(***************************************************************************)
EXTENDS Integers, Sequences, FiniteSets

(* ---- object types (values of hwloc_obj_type_t) ---- *)
MACHINE == 0   PACKAGE == 1   DIE == 2   CORE == 3   PU == 4
L1 == 5  L2 == 6  L3 == 7  L4 == 8  L5 == 9  L1I == 10  L2I == 11  L3I == 12
GROUP == 13   NUMANODE == 14   MEMCACHE == 15   BRIDGE == 16   PCIDEV == 17   OSDEV == 18   MISC == 19
NTYPES == 20
NormalTypes == 0..13
MemTypes    == {NUMANODE, MEMCACHE}
IOTypes     == {BRIDGE, PCIDEV, OSDEV}
CacheTypes  == 5..12
DCacheTypes == 5..9
ICacheTypes == 10..12
HasSetsTypes == NormalTypes \cup MemTypes          \* everything but I/O and Misc

DEPTH_UNKNOWN == -1   DEPTH_MULTIPLE == -2
SpecialDepth(ty) == CASE ty = NUMANODE -> -3 [] ty = BRIDGE -> -4 [] ty = PCIDEV -> -5
                      [] ty = OSDEV -> -6 [] ty = MISC -> -7 [] ty = MEMCACHE -> -8

FILTER_KEEP_ALL == 0  FILTER_KEEP_NONE == 1  FILTER_KEEP_STRUCTURE == 2  FILTER_KEEP_IMPORTANT == 3
FLAG_INCLUDE_DISALLOWED == 1

(* ---- helpers ---- *)
Bit(word, b) == (word \div b) % 2 = 1            \* b is a power of two
RSet(r) == UNION {r[k][1]..r[k][2] : k \in DOMAIN r}
RFinite(r) == \A k \in DOMAIN r : r[k][2] >= r[k][1]      \* no -1 end: the set is finite
\* inclusion of range lists (exact because logged ranges are maximal); works for infinite sets, which complete sets may be
RSubset(a, b) == \A k \in DOMAIN a : \E j \in DOMAIN b :
                    b[j][1] <= a[k][1] /\ (b[j][2] = -1 \/ (a[k][2] # -1 /\ a[k][2] <= b[j][2]))
ROnly(r, x) == r = <<<<x, x>>>>                           \* the set is exactly {x}
SeqSet(s) == {s[k] : k \in DOMAIN s}
NoDup(s)  == Cardinality(SeqSet(s)) = Len(s)
At(s, k)  == IF k >= 1 /\ k <= Len(s) THEN s[k] ELSE 0

\* 64-bit quantities: 4 limbs base 65536, least significant first
B16 == 65536
ZeroL == <<0, 0, 0, 0>>
AddL(a, b) == LET s1 == a[1] + b[1]  c1 == s1 \div B16
                  s2 == a[2] + b[2] + c1  c2 == s2 \div B16
                  s3 == a[3] + b[3] + c2  c3 == s3 \div B16
                  s4 == a[4] + b[4] + c3
              IN <<s1 % B16, s2 % B16, s3 % B16, s4 % B16>>
RECURSIVE SumL(_, _)
\* sum of f[k] over the sequence of positions s
SumL(f, s) == IF s = <<>> THEN ZeroL ELSE AddL(f[Head(s)], SumL(f, Tail(s)))

N(t) == Len(t.objs)
Pos(t) == 1..N(t)
O(t, i) == t.objs[i]
IsNormal(o) == o.type \in NormalTypes
IsMem(o)    == o.type \in MemTypes
IsIO(o)     == o.type \in IOTypes
IsMisc(o)   == o.type = MISC
HasSets(o)  == o.hs = <<1, 1, 1, 1>>
CS(o)  == RSet(o.cs)     CCS(o) == RSet(o.ccs)
NS(o)  == RSet(o.ns)     CNS(o) == RSet(o.cns)

\* index of the level of depth d in t.levels
LevelIdx(t, d) == IF d >= 0 THEN d + 1
                  ELSE t.depth + (CASE d = -3 -> 1 [] d = -4 -> 2 [] d = -5 -> 3 [] d = -6 -> 4 [] d = -7 -> 5 [] d = -8 -> 6 [] OTHER -> 0)
ValidDepth(t, d) == (d >= 0 /\ d < t.depth) \/ d \in {-3, -4, -5, -6, -7, -8}

(* ------------------------------------------------------------------ *)
(* the clauses                                                         *)
(* ------------------------------------------------------------------ *)
\* every logged link resolved to a reachable object; positions in range
LinksResolved(t) ==
  \A i \in Pos(t) : LET o == O(t, i) IN
    /\ \A f \in {o.parent, o.first, o.last, o.nsib, o.psib, o.ncous, o.pcous} : f >= 0 /\ f <= N(t)
    /\ \A L \in {o.kids, o.children, o.mem, o.io, o.misc} : \A k \in DOMAIN L : L[k] >= 1 /\ L[k] <= N(t)

SingleMachineRoot(t) ==
  /\ N(t) >= 1 /\ t.n = N(t)
  /\ O(t, 1).type = MACHINE /\ O(t, 1).parent = 0 /\ O(t, 1).depth = 0
  /\ \A i \in Pos(t) : i # 1 => O(t, i).type # MACHINE /\ O(t, i).parent # 0
  /\ t.levels[1].nb = 1 /\ t.levels[1].objs = <<1>>

PULevelDeepest(t) ==
  /\ t.depth >= 2
  /\ t.levels[t.depth].type = PU /\ t.levels[t.depth].nb >= 1
  /\ \A i \in Pos(t) : O(t, i).type = PU =>
        /\ O(t, i).depth = t.depth - 1
        /\ O(t, i).arity = 0 /\ O(t, i).marity = 0
  /\ \A d \in 1..(t.depth - 1) : t.levels[d].type # PU
  /\ \A d \in 2..t.depth : t.levels[d].type # MACHINE

HasNuma(t) == t.levels[LevelIdx(t, -3)].nb >= 1

\* child lists: arity, parent, rank, sibling links, kinds
ListOK(t, i, L, arity, kinds) ==
  /\ arity = Len(L)
  /\ NoDup(L)
  /\ \A k \in DOMAIN L : LET c == O(t, L[k]) IN
       /\ c.parent = i
       /\ c.srank = k - 1
       /\ c.psib = At(L, k - 1)
       /\ c.nsib = At(L, k + 1)
       /\ c.type \in kinds

ChildrenOK(t) ==
  \A i \in Pos(t) : LET o == O(t, i) IN
    /\ ListOK(t, i, o.kids, o.arity, NormalTypes)
    /\ o.children = o.kids                         \* children[] agrees with the first_child/next_sibling walk
    /\ o.first = At(o.kids, 1) /\ o.last = At(o.kids, Len(o.kids))
    /\ ListOK(t, i, o.mem, o.marity, MemTypes)
    /\ ListOK(t, i, o.io, o.ioarity, IOTypes)
    /\ ListOK(t, i, o.misc, o.miscarity, {MISC})
    \* what may hang below what
    /\ (IsMem(o) \/ IsIO(o) \/ IsMisc(o)) => o.kids = <<>>
    /\ o.type = NUMANODE => o.mem = <<>>
    /\ (IsIO(o) \/ IsMisc(o)) => o.mem = <<>>
    /\ (IsMem(o) \/ IsMisc(o)) => o.io = <<>>
    \* a normal child is strictly deeper than its parent
    /\ \A k \in DOMAIN o.kids : O(t, o.kids[k]).depth > o.depth
    \* every non-root object is in exactly the list of its parent that matches its kind
    /\ i # 1 => LET p == O(t, o.parent) IN
         i \in SeqSet(IF IsNormal(o) THEN p.kids ELSE IF IsMem(o) THEN p.mem ELSE IF IsIO(o) THEN p.io ELSE p.misc)

\* depth, logical_index, cousins, per-depth lookups
LevelsOK(t) ==
  /\ Len(t.levels) = t.depth + 6
  /\ \A d \in DOMAIN t.levels : LET lv == t.levels[d] IN
       /\ lv.nb = Len(lv.objs)
       /\ lv.past = 0                                   \* get_obj_by_depth(depth, nbobjs) is NULL
       /\ NoDup(lv.objs)
       /\ \A k \in DOMAIN lv.objs : LET o == O(t, lv.objs[k]) IN
            /\ lv.objs[k] >= 1
            /\ o.depth = lv.depth
            /\ o.lidx = k - 1
            /\ o.pcous = At(lv.objs, k - 1)
            /\ o.ncous = At(lv.objs, k + 1)
            /\ o.type = lv.type
            \* same type refined by cache depth and group depth on one level (a level may mix unified and data caches)
            /\ k > 1 => LET q == O(t, lv.objs[k - 1]) IN
                 /\ o.attr.k = q.attr.k
                 /\ o.type \in CacheTypes => o.attr.depth = q.attr.depth
                 /\ o.type = GROUP => o.attr.depth = q.attr.depth
       \* tree order: a normal level lists its objects in depth-first order
       /\ lv.depth >= 0 => \A k \in 2..Len(lv.objs) : lv.objs[k - 1] < lv.objs[k]
       /\ lv.depth >= 0 => lv.type \in NormalTypes
       /\ lv.depth < 0 => lv.type \notin NormalTypes
       /\ (lv.depth < 0 /\ lv.nb > 0) => lv.depth = SpecialDepth(lv.type)
       /\ (lv.depth >= 0) => lv.nb >= 1
  \* every object sits in the level of its depth at its logical index
  /\ \A i \in Pos(t) : LET o == O(t, i) IN
       /\ ValidDepth(t, o.depth)
       /\ At(t.levels[LevelIdx(t, o.depth)].objs, o.lidx + 1) = i
       /\ ~IsNormal(o) => o.depth = SpecialDepth(o.type)
       /\ IsNormal(o) => o.depth >= 0

\* hwloc_get_type_depth and hwloc_get_depth_type are mutually inverse
TypeDepthInverse(t) ==
  /\ Len(t.tdepth) = NTYPES
  /\ \A ty \in 0..(NTYPES - 1) : LET d == t.tdepth[ty + 1]
                                     at == {O(t, i).depth : i \in {j \in Pos(t) : O(t, j).type = ty}} IN
       IF ty \notin NormalTypes THEN d = SpecialDepth(ty) /\ at \subseteq {d}
       ELSE CASE d = DEPTH_UNKNOWN  -> at = {}
              [] d = DEPTH_MULTIPLE -> Cardinality(at) >= 2 /\ ty = GROUP
              [] OTHER -> d >= 0 /\ d < t.depth /\ at = {d} /\ t.levels[d + 1].type = ty
  /\ \A d \in 1..t.depth : t.tdepth[t.levels[d].type + 1] \in {d - 1, DEPTH_MULTIPLE}

SetsPresence(t) ==
  \A i \in Pos(t) : LET o == O(t, i) IN
    /\ o.type \in HasSetsTypes => HasSets(o) /\ RFinite(o.cs) /\ RFinite(o.ns)
    /\ o.type \notin HasSetsTypes => o.hs = <<0, 0, 0, 0>>

CpusetDisjointUnion(t) ==
  \A i \in Pos(t) : LET o == O(t, i) IN
    (IsNormal(o) /\ o.type # PU) =>
      /\ \A a, b \in DOMAIN o.kids : a < b => CS(O(t, o.kids[a])) \cap CS(O(t, o.kids[b])) = {}
      /\ CS(o) = UNION {CS(O(t, o.kids[k])) : k \in DOMAIN o.kids}

PUSingleton(t) ==
  \A i \in Pos(t) : LET o == O(t, i) IN
    o.type = PU => o.os >= 0 /\ CS(o) = {o.os} /\ ROnly(o.ccs, o.os)

MemChildrenShareCpuset(t) ==
  \A i \in Pos(t) : LET o == O(t, i) IN
    \A k \in DOMAIN o.mem : CS(O(t, o.mem[k])) = CS(o)

\* nodes attached to this object and to its ancestors ("inherited + local")
RECURSIVE BaseNodes(_, _)
BaseNodes(t, i) ==
  LET o == O(t, i)
      local == UNION {NS(O(t, o.mem[k])) : k \in DOMAIN o.mem}
  IN IF o.parent = 0 THEN local ELSE BaseNodes(t, o.parent) \cup local

NodesetDecomposition(t) ==
  \A i \in Pos(t) : LET o == O(t, i) IN
    /\ o.type = NUMANODE => o.os >= 0 /\ NS(o) = {o.os} /\ ROnly(o.cns, o.os)
    /\ o.type = MEMCACHE =>
         /\ NS(o) = UNION {NS(O(t, o.mem[k])) : k \in DOMAIN o.mem}
         /\ \A a, b \in DOMAIN o.mem : a < b => NS(O(t, o.mem[a])) \cap NS(O(t, o.mem[b])) = {}
    /\ IsNormal(o) =>
         LET inh   == IF o.parent = 0 THEN {} ELSE BaseNodes(t, o.parent)
             local == UNION {NS(O(t, o.mem[k])) : k \in DOMAIN o.mem}
             base  == inh \cup local
             contrib(k) == NS(O(t, o.kids[k])) \ base
         IN /\ inh \cap local = {}
            /\ \A a, b \in DOMAIN o.mem : a < b => NS(O(t, o.mem[a])) \cap NS(O(t, o.mem[b])) = {}
            /\ \A a, b \in DOMAIN o.kids : a < b => contrib(a) \cap contrib(b) = {}
            /\ NS(o) = base \cup UNION {NS(O(t, o.kids[k])) : k \in DOMAIN o.kids}
            /\ \A k \in DOMAIN o.kids : base \subseteq NS(O(t, o.kids[k]))

SetInclusions(t) ==
  \A i \in Pos(t) : LET o == O(t, i) IN
    HasSets(o) =>
      /\ RSubset(o.cs, o.ccs) /\ RSubset(o.ns, o.cns)
      /\ (o.parent # 0 /\ HasSets(O(t, o.parent))) =>
           LET p == O(t, o.parent) IN
           /\ RSubset(o.cs, p.cs) /\ RSubset(o.ccs, p.ccs)
           /\ RSubset(o.ns, p.ns) /\ RSubset(o.cns, p.cns)

AllowedSets(t) ==
  LET root == O(t, 1) IN
  /\ RFinite(t.tacs) /\ RFinite(t.tans)
  /\ t.tcs = root.cs /\ t.tccs = root.ccs                      \* topology-level getters are the root sets
  /\ t.tns = root.ns /\ t.tcns = root.cns
  /\ RSet(t.tacs) \subseteq CS(root) /\ RSet(t.tans) \subseteq NS(root)
  /\ ~Bit(t.flags, FLAG_INCLUDE_DISALLOWED) => RSet(t.tacs) = CS(root) /\ RSet(t.tans) = NS(root)

OsIndexUnique(t) ==
  /\ NoDup(SelectSeq([i \in Pos(t) |-> IF O(t, i).type = PU THEN O(t, i).os ELSE -1 - i], LAMBDA x : x >= 0))
  /\ NoDup(SelectSeq([i \in Pos(t) |-> IF O(t, i).type = NUMANODE THEN O(t, i).os ELSE -1 - i], LAMBDA x : x >= 0))

GpUnique(t) == NoDup([i \in Pos(t) |-> O(t, i).gp])

TotalMemorySum(t) ==
  \A i \in Pos(t) : LET o == O(t, i)
                        tm == [j \in Pos(t) |-> O(t, j).tmem] IN
    o.tmem = AddL(IF o.type = NUMANODE THEN o.attr.local ELSE ZeroL,
                  AddL(SumL(tm, o.kids), SumL(tm, o.mem)))

AttrsMatchType(t) ==
  \A i \in Pos(t) : LET o == O(t, i) IN
    /\ o.type \in DCacheTypes => o.attr.k = "cache" /\ o.attr.depth = o.type - L1 + 1 /\ o.attr.ctype \in {0, 1}
    /\ o.type \in ICacheTypes => o.attr.k = "cache" /\ o.attr.depth = o.type - L1I + 1 /\ o.attr.ctype = 2
    /\ o.type = MEMCACHE => o.attr.k = "cache"
    /\ o.type = NUMANODE => o.attr.k = "numa"
    /\ o.type = GROUP => o.attr.k = "group" /\ o.attr.depth >= 0
    /\ o.type = BRIDGE => o.attr.k = "bridge"
    /\ o.type = PCIDEV => o.attr.k = "pci"
    /\ o.type = OSDEV => o.attr.k = "osdev"

NoFilteredType(t) ==
  /\ Len(t.filters) = NTYPES
  /\ \A i \in Pos(t) : t.filters[O(t, i).type + 1] # FILTER_KEEP_NONE

CheckerReturns(t) == t.check_ok = 1

Clauses == <<"LinksResolved", "SingleMachineRoot", "PULevelDeepest", "HasNuma", "ChildrenOK", "LevelsOK",
             "TypeDepthInverse", "SetsPresence", "CpusetDisjointUnion", "PUSingleton", "MemChildrenShareCpuset",
             "NodesetDecomposition", "SetInclusions", "AllowedSets", "OsIndexUnique", "GpUnique",
             "TotalMemorySum", "AttrsMatchType", "NoFilteredType", "CheckerReturns">>

Clause(t, name) ==
  CASE name = "LinksResolved" -> LinksResolved(t)
    [] name = "SingleMachineRoot" -> SingleMachineRoot(t)
    [] name = "PULevelDeepest" -> PULevelDeepest(t)
    [] name = "HasNuma" -> HasNuma(t)
    [] name = "ChildrenOK" -> ChildrenOK(t)
    [] name = "LevelsOK" -> LevelsOK(t)
    [] name = "TypeDepthInverse" -> TypeDepthInverse(t)
    [] name = "SetsPresence" -> SetsPresence(t)
    [] name = "CpusetDisjointUnion" -> CpusetDisjointUnion(t)
    [] name = "PUSingleton" -> PUSingleton(t)
    [] name = "MemChildrenShareCpuset" -> MemChildrenShareCpuset(t)
    [] name = "NodesetDecomposition" -> NodesetDecomposition(t)
    [] name = "SetInclusions" -> SetInclusions(t)
    [] name = "AllowedSets" -> AllowedSets(t)
    [] name = "OsIndexUnique" -> OsIndexUnique(t)
    [] name = "GpUnique" -> GpUnique(t)
    [] name = "TotalMemorySum" -> TotalMemorySum(t)
    [] name = "AttrsMatchType" -> AttrsMatchType(t)
    [] name = "NoFilteredType" -> NoFilteredType(t)
    [] name = "CheckerReturns" -> CheckerReturns(t)

\* the links must resolve before anything else is evaluated (later clauses index t.objs with them)
WellFormed(t) ==
  /\ LinksResolved(t)
  /\ SingleMachineRoot(t) /\ PULevelDeepest(t) /\ HasNuma(t)
  /\ ChildrenOK(t) /\ LevelsOK(t) /\ TypeDepthInverse(t)
  /\ SetsPresence(t) /\ CpusetDisjointUnion(t) /\ PUSingleton(t) /\ MemChildrenShareCpuset(t)
  /\ NodesetDecomposition(t) /\ SetInclusions(t) /\ AllowedSets(t)
  /\ OsIndexUnique(t) /\ GpUnique(t) /\ TotalMemorySum(t) /\ AttrsMatchType(t) /\ NoFilteredType(t)
  /\ CheckerReturns(t)

\* first failing clause, for diagnostics ("" when well formed)
RECURSIVE FirstBad(_, _)
FirstBad(t, k) == IF k > Len(Clauses) THEN ""
                  ELSE IF ~Clause(t, Clauses[k]) THEN Clauses[k] ELSE FirstBad(t, k + 1)
=============================================================================
