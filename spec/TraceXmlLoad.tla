----------------------------- MODULE TraceXmlLoad -----------------------------
(***************************************************************************)
(* Trace validation for C06: the lifecycle relation of loading arbitrary   *)
(* XML.  For any bytes the set and load calls return 0 or -1 (a Crash,     *)
(* Hang or Leak event has no action here, so it rejects the trace); when   *)
(* load succeeds the topology is well formed (C01) and the whole read-only *)
(* battery returned; when it fails the topology could be destroyed, or     *)
(* configured and loaded again; what hwloc itself exported must load.      *)
(***************************************************************************)
EXTENDS Topology, Json, IOUtils, TLC

T == ndJsonDeserialize(IOEnv.TRACE)
VARIABLES l

Init == l = 1
IsEvent(e) == l <= Len(T) /\ T[l].e = e /\ l' = l + 1
E == T[l]

TReset == IsEvent("Reset")

TXmlLoad ==
  /\ IsEvent("xmlload")
  /\ E.set \in {0, -1}
  /\ E.set = -1 => E.load = -2                      \* load is not attempted after a refused source
  /\ E.set = 0 => E.load \in {0, -1}
  /\ E.load = 0 => /\ E.topo.n > 0
                   /\ WellFormed(E.topo)            \* C01 on whatever was accepted
                   /\ E.topo.flags = E.flags
                   /\ E.battery = 1                 \* every read-only function returned
  /\ E.load # 0 => /\ E.topo.n = 0 /\ E.battery = 0
                   \* a topology whose load failed can be destroyed (after = 0), or configured and loaded again
                   /\ E.after = 1 => (E.re_set = 0 /\ E.re_load = 0 /\ E.re_n = 2)
                   \* ... and given a good document it becomes exactly what a fresh topology becomes (objects, sets, stores)
                   /\ E.two = 1 => /\ E.fresh_set = 0 /\ E.fresh_load = 0 /\ E.re_set = 0 /\ E.re_load = 0
                                   /\ E.re_topo = E.fresh_topo
                                   /\ WellFormed(E.re_topo)
  /\ E.pristine = 1 => (E.set = 0 /\ E.load = 0)     \* an unmutated export of hwloc itself must load

TDiffLoad ==
  /\ IsEvent("diffload")
  /\ E.ret \in {0, -1}
  /\ E.ret = 0 => E.n >= 0
  /\ E.pristine = 1 => E.ret = 0

Next == TReset \/ TXmlLoad \/ TDiffLoad
Spec == Init /\ [][Next]_l
Accepted == TLCGet("stats").diameter - 1 = Len(T)
=============================================================================
