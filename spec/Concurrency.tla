----------------------------- MODULE Concurrency -----------------------------
(***************************************************************************)
(* The documented thread-safety protocol of hwloc (property C17).          *)
(*                                                                         *)
(* Shared state that the library keeps and that consulting calls may       *)
(* touch:                                                                  *)
(*   distValid[d]   cached object pointers of distances structure d        *)
(*   attrValid[a]   cached targets/initiators of memory attribute a        *)
(*   envChecked[k]  process-wide "static checked" caches of environment    *)
(*                  variables                                              *)
(*   users, registered, lock   the reference-counted components registry   *)
(*                  and the mutex that serialises it                       *)
(*                                                                         *)
(* Threads: one modifier (Load / Modify / Refresh / first single-threaded  *)
(* battery), a set of Readers running consulting calls on the shared       *)
(* topology, and a set of Indep threads each running an independent        *)
(* init / load / modify / export / destroy history on a private topology.  *)
(*                                                                         *)
(* A consulting call is  Begin -> (write section | read section) -> End :  *)
(* when the cache is invalid the call REFRESHES it, i.e. writes shared     *)
(* state - exactly what hwloc_distances_get / hwloc_memattr_get_* do.      *)
(* Discipline = TRUE is the documented one: readers only start after Load  *)
(* or Refresh, while the modifier is idle.  With Discipline = FALSE the    *)
(* readers may start right after a Modify, and TLC must find the race      *)
(* (non-vacuity of NoReaderWrite / NoRace).                                *)
(***************************************************************************)
EXTENDS Registry, FiniteSets, Sequences, TLC

CONSTANTS Readers, Indep, NDist, NAttr, NEnv, Discipline, MaxModify

VARIABLES mstate,      \* modifier: "init" | "loaded" | "dirty" (modified, not refreshed) | "reading"
          distValid, attrValid, envChecked,
          rpc,         \* reader program counter: [Readers -> <<"idle"|"done"|"r"|"w", kind, index>>]
          nmod,        \* number of Modify steps so far (bound)
          users, registered, lock,
          ipc          \* independent threads: "new" | "initlock" | "live" | "finilock" | "gone"
vars == <<mstate, distValid, attrValid, envChecked, rpc, nmod, users, registered, lock, ipc>>

Dists == 1..NDist   Attrs == 1..NAttr   Envs == 1..NEnv
\* reader program counter values: <<state, kind, index>>
Free == "nobody"                     \* the mutex is not held
Idle == <<"idle", "", 0>>
Done == <<"done", "", 0>>

Init ==
  /\ mstate = "init"
  /\ distValid = [d \in Dists |-> FALSE] /\ attrValid = [a \in Attrs |-> FALSE]
  /\ envChecked = [k \in Envs |-> FALSE]
  /\ rpc = [r \in Readers |-> Idle]
  /\ nmod = 0
  /\ users = 0 /\ registered = FALSE /\ lock = Free
  /\ ipc = [i \in Indep |-> "new"]

(* ---------------- modifier ---------------- *)
\* load (and the first single-threaded run of the consulting battery) validates every cache and consults every environment variable
Load == /\ mstate = "init"
        /\ mstate' = "loaded"
        /\ distValid' = [d \in Dists |-> TRUE] /\ attrValid' = [a \in Attrs |-> TRUE]
        /\ envChecked' = [k \in Envs |-> TRUE]
        /\ UNCHANGED <<rpc, nmod, users, registered, lock, ipc>>

\* any modification (restrict, insert, distances/memattr update) invalidates the caches
Modify == /\ mstate \in {"loaded", "dirty"} /\ nmod < MaxModify
          /\ mstate' = "dirty" /\ nmod' = nmod + 1
          /\ distValid' = [d \in Dists |-> FALSE] /\ attrValid' = [a \in Attrs |-> FALSE]
          /\ UNCHANGED <<envChecked, rpc, users, registered, lock, ipc>>

\* hwloc_topology_refresh()
Refresh == /\ mstate = "dirty"
           /\ mstate' = "loaded"
           /\ distValid' = [d \in Dists |-> TRUE] /\ attrValid' = [a \in Attrs |-> TRUE]
           /\ UNCHANGED <<envChecked, rpc, nmod, users, registered, lock, ipc>>

\* the readers are released; under the documented discipline only from a loaded/refreshed topology
StartReaders == /\ mstate \in (IF Discipline THEN {"loaded"} ELSE {"loaded", "dirty"})
                /\ mstate' = "reading"
                /\ UNCHANGED <<distValid, attrValid, envChecked, rpc, nmod, users, registered, lock, ipc>>

(* ---------------- readers ---------------- *)
Valid(kind, x) == CASE kind = "dist" -> distValid[x] [] kind = "attr" -> attrValid[x] [] kind = "env" -> envChecked[x]
Indexes(kind) == CASE kind = "dist" -> Dists [] kind = "attr" -> Attrs [] kind = "env" -> Envs

GetBegin(r) == /\ mstate = "reading" /\ rpc[r] = Idle
               /\ \E kind \in {"dist", "attr", "env"} : \E x \in Indexes(kind) :
                    rpc' = [rpc EXCEPT ![r] = <<IF Valid(kind, x) THEN "r" ELSE "w", kind, x>>]
               /\ UNCHANGED <<mstate, distValid, attrValid, envChecked, nmod, users, registered, lock, ipc>>

\* end of the section: a write section leaves the cache valid
GetEnd(r) == /\ rpc[r][1] \in {"r", "w"}
             /\ LET s == rpc[r] IN
                  /\ distValid' = IF s[1] = "w" /\ s[2] = "dist" THEN [distValid EXCEPT ![s[3]] = TRUE] ELSE distValid
                  /\ attrValid' = IF s[1] = "w" /\ s[2] = "attr" THEN [attrValid EXCEPT ![s[3]] = TRUE] ELSE attrValid
                  /\ envChecked' = IF s[1] = "w" /\ s[2] = "env" THEN [envChecked EXCEPT ![s[3]] = TRUE] ELSE envChecked
             /\ rpc' = [rpc EXCEPT ![r] = Idle]
             /\ UNCHANGED <<mstate, nmod, users, registered, lock, ipc>>

ReaderDone(r) == /\ rpc[r] = Idle /\ mstate = "reading"
                 /\ rpc' = [rpc EXCEPT ![r] = Done]
                 /\ UNCHANGED <<mstate, distValid, attrValid, envChecked, nmod, users, registered, lock, ipc>>

(* ---------------- independent topologies: the components registry ---------------- *)
\* the registry step under the mutex (RegInit / RegFini) is in Registry.tla, shared with the trace specification

ILock(i, from, to) == /\ ipc[i] = from /\ lock = Free
                      /\ lock' = i /\ ipc' = [ipc EXCEPT ![i] = to]
                      /\ UNCHANGED <<mstate, distValid, attrValid, envChecked, rpc, nmod, users, registered>>
IInit(i) == ILock(i, "new", "initlock")
IInitBody(i) == /\ ipc[i] = "initlock" /\ lock = i
                /\ users' = RegInit(users).users
                /\ registered' = (registered \/ RegInit(users).edge)
                /\ lock' = Free /\ ipc' = [ipc EXCEPT ![i] = "live"]
                /\ UNCHANGED <<mstate, distValid, attrValid, envChecked, rpc, nmod>>
IFini(i) == ILock(i, "live", "finilock")
IFiniBody(i) == /\ ipc[i] = "finilock" /\ lock = i
                /\ users' = RegFini(users).users
                /\ registered' = (registered /\ ~RegFini(users).edge)
                /\ lock' = Free /\ ipc' = [ipc EXCEPT ![i] = "gone"]
                /\ UNCHANGED <<mstate, distValid, attrValid, envChecked, rpc, nmod>>

Next == \/ Load \/ Modify \/ Refresh \/ StartReaders
        \/ \E r \in Readers : GetBegin(r) \/ GetEnd(r) \/ ReaderDone(r)
        \/ \E i \in Indep : IInit(i) \/ IInitBody(i) \/ IFini(i) \/ IFiniBody(i)
Spec == Init /\ [][Next]_vars

(* ---------------- properties ---------------- *)
InWrite(r) == rpc[r][1] = "w"
InSection(r) == rpc[r][1] \in {"r", "w"}

\* under the documented discipline no consulting call ever writes shared state
NoReaderWrite == \A r \in Readers : ~InWrite(r)

\* no two threads are in conflicting sections of the same variable
NoRace == \A r1, r2 \in Readers :
            (r1 # r2 /\ InSection(r1) /\ InSection(r2) /\ rpc[r1][2] = rpc[r2][2] /\ rpc[r1][3] = rpc[r2][3])
              => (rpc[r1][1] = "r" /\ rpc[r2][1] = "r")

\* the registry: registered iff someone uses it (outside the critical section), and every live thread sees it registered
RegistryOK == /\ lock = Free => (registered <=> users > 0)
              /\ users = Cardinality({i \in Indep : ipc[i] \in {"live", "finilock"}})
              /\ \A i \in Indep : ipc[i] = "live" => registered
              /\ users >= 0

TypeOK == /\ mstate \in {"init", "loaded", "dirty", "reading"}
          /\ lock \in Indep \cup {Free}
=============================================================================
