----------------------------- MODULE Concurrency -----------------------------
(***************************************************************************)
(* The documented thread-safety protocol of hwloc (property C17).          *)
(*                                                                         *)
(* Shared state that the library keeps and that consulting calls may       *)
(* touch:                                                                  *)
(*   distValid[d]   cached object pointers of distances structure d        *)
(*   attrValid[a]   cached targets/initiators of memory attribute a        *)
(*   envChecked[k]  process-wide "static checked" caches of environment    *)
(*                  variables                                              *)
(*   users, registered, lock   the reference-counted components registry   *)
(*                  and the mutex that serialises it                       *)
(*                                                                         *)
(* Threads: one modifier (Load / Modify / Refresh / first single-threaded  *)
(* battery), a set of Readers running consulting calls on the shared       *)
(* topology, and a set of Indep threads each running an independent        *)
(* history of calls on private topologies.  Every call of the alphabet of  *)
(* Registry.tla (RegOps: topology init / dup / shmem adopt, destroy, shmem *)
(* get_length / write, the four diff XML functions, each succeeding or     *)
(* failing) is a sequence of registry steps under the mutex - its          *)
(* footprint, e.g. IInit ; body ; IFini for a call that takes and releases *)
(* the registry without owning a topology.  With Balance = TRUE only the   *)
(* footprints allowed by the balance law are taken and RegistryOK is an    *)
(* invariant; with Balance = FALSE a call of net effect 0 may take a       *)
(* broken return path (a fini without init, an init never given back) and  *)
(* TLC must find the interference (non-vacuity of RegistryOK).             *)
(*                                                                         *)
(* A consulting call is  Begin -> (write section | read section) -> End :  *)
(* when the cache is invalid the call REFRESHES it, i.e. writes shared     *)
(* state - exactly what hwloc_distances_get / hwloc_memattr_get_* do.      *)
(* Discipline = TRUE is the documented one: readers only start after Load  *)
(* or Refresh, while the modifier is idle.  With Discipline = FALSE the    *)
(* readers may start right after a Modify, and TLC must find the race      *)
(* (non-vacuity of NoReaderWrite / NoRace).                                *)
(***************************************************************************)
EXTENDS Registry, FiniteSets, Sequences, TLC

CONSTANTS Readers, Indep, NDist, NAttr, NEnv, Discipline, MaxModify,
          MaxLive,     \* bound on the topologies one independent thread owns at a time
          Balance      \* TRUE: every return path obeys the balance law of Registry.tla

VARIABLES mstate,      \* modifier: "init" | "loaded" | "dirty" (modified, not refreshed) | "reading"
          distValid, attrValid, envChecked,
          rpc,         \* reader program counter: [Readers -> <<"idle"|"done"|"r"|"w", kind, index>>]
          nmod,        \* number of Modify steps so far (bound)
          users, registered, lock,
          ipc,         \* independent threads: "idle" (between calls) | "want" (in a call, next registry step pending) | "in" (holds the mutex)
          ifp,         \* remaining registry steps (deltas) of the call in progress
          inet,        \* net effect of the call in progress on the number of topologies the thread owns
          iheld,       \* registry references the thread holds (its RegInit steps minus its RegFini steps)
          ilive        \* topologies the thread owns
ivars == <<ipc, ifp, inet, iheld, ilive>>
vars == <<mstate, distValid, attrValid, envChecked, rpc, nmod, users, registered, lock, ivars>>

Dists == 1..NDist   Attrs == 1..NAttr   Envs == 1..NEnv
\* reader program counter values: <<state, kind, index>>
Free == "nobody"                     \* the mutex is not held
Idle == <<"idle", "", 0>>
Done == <<"done", "", 0>>

Init ==
  /\ mstate = "init"
  /\ distValid = [d \in Dists |-> FALSE] /\ attrValid = [a \in Attrs |-> FALSE]
  /\ envChecked = [k \in Envs |-> FALSE]
  /\ rpc = [r \in Readers |-> Idle]
  /\ nmod = 0
  /\ users = 0 /\ registered = FALSE /\ lock = Free
  /\ ipc = [i \in Indep |-> "idle"] /\ ifp = [i \in Indep |-> <<>>] /\ inet = [i \in Indep |-> 0]
  /\ iheld = [i \in Indep |-> 0] /\ ilive = [i \in Indep |-> 0]

(* ---------------- modifier ---------------- *)
\* load (and the first single-threaded run of the consulting battery) validates every cache and consults every environment variable
Load == /\ mstate = "init"
        /\ mstate' = "loaded"
        /\ distValid' = [d \in Dists |-> TRUE] /\ attrValid' = [a \in Attrs |-> TRUE]
        /\ envChecked' = [k \in Envs |-> TRUE]
        /\ UNCHANGED <<rpc, nmod, users, registered, lock, ivars>>

\* any modification (restrict, insert, distances/memattr update) invalidates the caches
Modify == /\ mstate \in {"loaded", "dirty"} /\ nmod < MaxModify
          /\ mstate' = "dirty" /\ nmod' = nmod + 1
          /\ distValid' = [d \in Dists |-> FALSE] /\ attrValid' = [a \in Attrs |-> FALSE]
          /\ UNCHANGED <<envChecked, rpc, users, registered, lock, ivars>>

\* hwloc_topology_refresh()
Refresh == /\ mstate = "dirty"
           /\ mstate' = "loaded"
           /\ distValid' = [d \in Dists |-> TRUE] /\ attrValid' = [a \in Attrs |-> TRUE]
           /\ UNCHANGED <<envChecked, rpc, nmod, users, registered, lock, ivars>>

\* the readers are released; under the documented discipline only from a loaded/refreshed topology
StartReaders == /\ mstate \in (IF Discipline THEN {"loaded"} ELSE {"loaded", "dirty"})
                /\ mstate' = "reading"
                /\ UNCHANGED <<distValid, attrValid, envChecked, rpc, nmod, users, registered, lock, ivars>>

(* ---------------- readers ---------------- *)
Valid(kind, x) == CASE kind = "dist" -> distValid[x] [] kind = "attr" -> attrValid[x] [] kind = "env" -> envChecked[x]
Indexes(kind) == CASE kind = "dist" -> Dists [] kind = "attr" -> Attrs [] kind = "env" -> Envs

GetBegin(r) == /\ mstate = "reading" /\ rpc[r] = Idle
               /\ \E kind \in {"dist", "attr", "env"} : \E x \in Indexes(kind) :
                    rpc' = [rpc EXCEPT ![r] = <<IF Valid(kind, x) THEN "r" ELSE "w", kind, x>>]
               /\ UNCHANGED <<mstate, distValid, attrValid, envChecked, nmod, users, registered, lock, ivars>>

\* end of the section: a write section leaves the cache valid
GetEnd(r) == /\ rpc[r][1] \in {"r", "w"}
             /\ LET s == rpc[r] IN
                  /\ distValid' = IF s[1] = "w" /\ s[2] = "dist" THEN [distValid EXCEPT ![s[3]] = TRUE] ELSE distValid
                  /\ attrValid' = IF s[1] = "w" /\ s[2] = "attr" THEN [attrValid EXCEPT ![s[3]] = TRUE] ELSE attrValid
                  /\ envChecked' = IF s[1] = "w" /\ s[2] = "env" THEN [envChecked EXCEPT ![s[3]] = TRUE] ELSE envChecked
             /\ rpc' = [rpc EXCEPT ![r] = Idle]
             /\ UNCHANGED <<mstate, nmod, users, registered, lock, ivars>>

ReaderDone(r) == /\ rpc[r] = Idle /\ mstate = "reading"
                 /\ rpc' = [rpc EXCEPT ![r] = Done]
                 /\ UNCHANGED <<mstate, distValid, attrValid, envChecked, nmod, users, registered, lock, ivars>>

(* ---------------- independent topologies: the components registry ---------------- *)
\* the registry step under the mutex (RegInit / RegFini), the alphabet of calls and the balance law are in Registry.tla,
\* shared with the generator of independent histories and the trace specification

\* thread i starts a call of net effect n (some op of RegOps, succeeding or failing: Nets); the return path it takes is one of the
\* footprints of n
Nets == {Net(op, ok) : op \in RegOps, ok \in BOOLEAN}
ICall(i, n) ==
  /\ ipc[i] = "idle"
  /\ n = -1 => ilive[i] > 0                          \* DropOps: there is something to destroy
  /\ n = 1 => ilive[i] < MaxLive                     \* TakeOps, succeeding
  /\ \E fp \in Footprints(n) \cup (IF ~Balance /\ n = 0 THEN BrokenFootprints ELSE {}) :
       /\ ifp' = [ifp EXCEPT ![i] = fp] /\ inet' = [inet EXCEPT ![i] = IF fp = <<>> THEN 0 ELSE n]
       /\ ipc' = [ipc EXCEPT ![i] = IF fp = <<>> THEN "idle" ELSE "want"]
  /\ UNCHANGED <<mstate, distValid, attrValid, envChecked, rpc, nmod, users, registered, lock, iheld, ilive>>
\* hwloc_components_init / hwloc_components_fini: take the mutex ...
ILock(i) == /\ ipc[i] = "want" /\ lock = Free
            /\ lock' = i /\ ipc' = [ipc EXCEPT ![i] = "in"]
            /\ UNCHANGED <<mstate, distValid, attrValid, envChecked, rpc, nmod, users, registered, ifp, inet, iheld, ilive>>
\* ... and do the step; after the last step of the footprint the call returns and the thread owns inet[i] more topologies.
\* Between the two steps of <<1, -1>> the thread is in the body of the call (XML import / export, duplication into the
\* shared-memory mapping) and needs the components registered although it may own no topology
IStep(i) == /\ ipc[i] = "in" /\ lock = i
            /\ LET d == Head(ifp[i])  r == IF d = 1 THEN RegInit(users) ELSE RegFini(users)  last == Len(ifp[i]) = 1 IN
                 /\ users' = r.users
                 /\ registered' = IF d = 1 THEN registered \/ r.edge ELSE registered /\ ~r.edge
                 /\ iheld' = [iheld EXCEPT ![i] = @ + d]
                 /\ ifp' = [ifp EXCEPT ![i] = Tail(@)]
                 /\ ipc' = [ipc EXCEPT ![i] = IF last THEN "idle" ELSE "want"]
                 /\ ilive' = [ilive EXCEPT ![i] = IF last THEN @ + inet[i] ELSE @]
                 /\ inet' = [inet EXCEPT ![i] = IF last THEN 0 ELSE @]
            /\ lock' = Free
            /\ UNCHANGED <<mstate, distValid, attrValid, envChecked, rpc, nmod>>

Next == \/ Load \/ Modify \/ Refresh \/ StartReaders
        \/ \E r \in Readers : GetBegin(r) \/ GetEnd(r) \/ ReaderDone(r)
        \/ \E i \in Indep : ILock(i) \/ IStep(i) \/ \E n \in Nets : ICall(i, n)
Spec == Init /\ [][Next]_vars

(* ---------------- properties ---------------- *)
InWrite(r) == rpc[r][1] = "w"
InSection(r) == rpc[r][1] \in {"r", "w"}

\* under the documented discipline no consulting call ever writes shared state
NoReaderWrite == \A r \in Readers : ~InWrite(r)

\* no two threads are in conflicting sections of the same variable
NoRace == \A r1, r2 \in Readers :
            (r1 # r2 /\ InSection(r1) /\ InSection(r2) /\ rpc[r1][2] = rpc[r2][2] /\ rpc[r1][3] = rpc[r2][3])
              => (rpc[r1][1] = "r" /\ rpc[r2][1] = "r")

\* the registry: registered iff someone uses it (outside the critical section); the count is the number of references held;
\* NO INTERFERENCE: a thread that holds a reference - it owns a topology, or it is in the body of a call that took the registry -
\* finds the components registered whatever the other threads did with their own topologies; and the BALANCE LAW: between
\* calls a thread holds exactly one reference per topology it owns
RECURSIVE SumOver(_, _)
SumOver(f, S) == IF S = {} THEN 0 ELSE LET x == CHOOSE x \in S : TRUE IN f[x] + SumOver(f, S \ {x})
RegistryOK == /\ lock = Free => (registered <=> users > 0)
              /\ users = SumOver(iheld, Indep)
              /\ \A i \in Indep : iheld[i] > 0 => registered
              /\ \A i \in Indep : ipc[i] = "idle" => iheld[i] = ilive[i]
              /\ \A i \in Indep : iheld[i] >= 0
              /\ users >= 0

TypeOK == /\ mstate \in {"init", "loaded", "dirty", "reading"}
          /\ lock \in Indep \cup {Free}
          /\ \A i \in Indep : ipc[i] \in {"idle", "want", "in"} /\ ilive[i] \in 0..MaxLive /\ (ipc[i] = "idle" <=> ifp[i] = <<>>)
=============================================================================
