------------------------------ MODULE TopoOps ------------------------------
(***************************************************************************)
(* Relations for the public modifying calls on a loaded topology           *)
(* (properties C02, C08, C12).  Each relation links the projection t       *)
(* before the call, the logged event e (arguments, return value, errno)    *)
(* and the projection u after the call.  Objects are identified across     *)
(* projections by gp_index; positions are per projection.                  *)
(*                                                                         *)
(* The recorder tags every object's userdata with its gp_index right       *)
(* after each projection (Tagged below models that step), so               *)
(*   - an object logged with ud = 0 is new since the previous projection,  *)
(*   - an object logged with ud = gp existed before and kept both its      *)
(*     gp_index and its userdata pointer.                                  *)
(***************************************************************************)
EXTENDS Lifecycle

(* ---- identity of objects across projections ---- *)
GpSet(t) == {O(t, i).gp : i \in Pos(t)}
PosOf(t, g) == CHOOSE i \in Pos(t) : O(t, i).gp = g
GpAt(t, i) == IF i = 0 THEN 0 ELSE O(t, i).gp
GpSeq(t, s) == [k \in DOMAIN s |-> O(t, s[k]).gp]

Tagged(t) == IF t.n = 0 THEN t
             ELSE [t EXCEPT !.objs = [i \in DOMAIN t.objs |->
                      IF t.objs[i].ud = 0 THEN [t.objs[i] EXCEPT !.ud = t.objs[i].gp] ELSE t.objs[i]]]

AttrView(o) == IF o.type = GROUP THEN [o.attr EXCEPT !.depth = 0] ELSE o.attr
\* what an object is, independent of where it sits
Intrinsic(o) == [gp |-> o.gp, type |-> o.type, st |-> o.st, name |-> o.name, os |-> o.os,
                 attr |-> AttrView(o), infos |-> o.infos, ud |-> o.ud]
Sets(o) == [hs |-> o.hs, cs |-> o.cs, ccs |-> o.ccs, ns |-> o.ns, cns |-> o.cns]
\* where it sits, in terms of gp_index
Place(t, i) == LET o == O(t, i) IN
  [parent |-> GpAt(t, o.parent), kids |-> GpSeq(t, o.kids), mem |-> GpSeq(t, o.mem),
   io |-> GpSeq(t, o.io), misc |-> GpSeq(t, o.misc)]
View(t, i) == [in |-> Intrinsic(O(t, i)), sets |-> Sets(O(t, i)), place |-> Place(t, i), tmem |-> O(t, i).tmem]

TopLevel(t) == [flags |-> t.flags, filters |-> t.filters, tinfos |-> t.tinfos,
                tacs |-> t.tacs, tans |-> t.tans]

\* gp_index and userdata stability (C02): u after a call on t
GpUserdataStable(t, u) ==
  \A i \in Pos(u) : LET o == O(u, i) IN
    /\ o.ud \in {0, o.gp}
    /\ (o.ud = 0) <=> (o.gp \notin GpSet(t))
    /\ o.gp \in GpSet(t) => o.type = O(t, PosOf(t, o.gp)).type

\* every object of t other than those in `except` is in u with the same view
FrameExcept(t, u, except) ==
  \A i \in Pos(t) : O(t, i).gp \notin except =>
     /\ O(t, i).gp \in GpSet(u)
     /\ View(u, PosOf(u, O(t, i).gp)) = View(t, i)

Unchanged(t, u) == u = t

(* ---- ancestors ---- *)
RECURSIVE AncSet(_, _)
AncSet(t, i) == IF O(t, i).parent = 0 THEN {} ELSE {O(t, i).parent} \cup AncSet(t, O(t, i).parent)
Related(t, i, k) == i = k \/ i \in AncSet(t, k) \/ k \in AncSet(t, i)

(* ------------------------------------------------------------------ *)
(* hwloc_topology_restrict (C08)                                       *)
(* ------------------------------------------------------------------ *)
R_REMOVE_CPULESS == 1   R_ADAPT_MISC == 2   R_ADAPT_IO == 4   R_BYNODESET == 8   R_REMOVE_MEMLESS == 16
InR(r, x) == \E k \in DOMAIN r : r[k][1] <= x /\ (r[k][2] = -1 \/ x <= r[k][2])

RBadFlags(f) == \/ f < 0 \/ f > 31
                \/ (Bit(f, R_BYNODESET) /\ Bit(f, R_REMOVE_CPULESS))
                \/ (~Bit(f, R_BYNODESET) /\ Bit(f, R_REMOVE_MEMLESS))

\* Returns the sequence of named checks <<name, holds>> that make up the relation, so that a
\* rejection can name the clause (RestrictRel is their conjunction).
RestrictChecks(e, t, u) ==
  LET f == e.flags
      bynode == Bit(f, R_BYNODESET)
      Keep(x) == InR(e.set, x)
      numa == {i \in Pos(t) : O(t, i).type = NUMANODE}
      pus  == {i \in Pos(t) : O(t, i).type = PU}
      \* resources dropped as a consequence of the REMOVE_ flags
      DN == IF ~bynode /\ Bit(f, R_REMOVE_CPULESS)
            THEN {O(t, i).os : i \in {j \in numa : {x \in CS(O(t, j)) : Keep(x)} = {}}} ELSE {}
      DC == IF bynode /\ Bit(f, R_REMOVE_MEMLESS)
            THEN {O(t, i).os : i \in {j \in pus : {x \in NS(O(t, j)) : Keep(x)} = {}}} ELSE {}
      DropC(x) == IF bynode THEN x \in DC ELSE ~Keep(x)
      DropN(x) == IF bynode THEN ~Keep(x) ELSE x \in DN
      NewC(s) == {x \in s : ~DropC(x)}
      NewN(s) == {x \in s : ~DropN(x)}
      allowed == IF bynode THEN RSet(t.tans) ELSE RSet(t.tacs)
      MustFail == RBadFlags(f) \/ {x \in allowed : Keep(x)} = {}
      \* the REMOVE_ flags may not empty the other dimension
      MayFail == \/ (~bynode /\ Bit(f, R_REMOVE_CPULESS) /\ NewN(RSet(t.tans)) = {})
                 \/ (bynode /\ Bit(f, R_REMOVE_MEMLESS) /\ NewC(RSet(t.tacs)) = {})
  IN
  IF e.ret # 0 THEN
       << <<"fail_is_EINVAL", e.ret = -1 /\ e.errno = "EINVAL">>,
          <<"fail_was_required_or_allowed", MustFail \/ MayFail>>,
          <<"fail_left_topology_unchanged", Unchanged(t, u)>> >>
  ELSE IF MustFail THEN << <<"must_fail_but_succeeded", FALSE>> >>
  ELSE
    LET GU == GpSet(u)
         LeafSurvives(i) == IF O(t, i).type = PU THEN ~DropC(O(t, i).os) ELSE ~DropN(O(t, i).os)
         leaves == {i \in pus \cup numa : LeafSurvives(i)}
         \* objects that still have a PU or a NUMA node at or below them
         alive == UNION {{i} \cup AncSet(t, i) : i \in leaves}
         aliveBefore == UNION {{i} \cup AncSet(t, i) : i \in pus \cup numa}
         MiscAdapt == Bit(f, R_ADAPT_MISC)   IOAdapt == Bit(f, R_ADAPT_IO)
         IsSpecial(i) == O(t, i).type \in IOTypes \cup {MISC}
         Gone(i) == O(t, i).gp \notin GU
         \* a special (Misc, I/O) object hangs in a special subtree whose root `top` is attached to a
         \* normal or memory object `a`
         SpecialFate(i) ==
            LET top == CHOOSE k \in ({i} \cup AncSet(t, i)) : IsSpecial(k) /\ ~IsSpecial(O(t, k).parent)
                a == O(t, top).parent
            IN IF a \notin aliveBefore THEN "free"
               ELSE IF a \notin alive /\ ((O(t, top).type = MISC /\ ~MiscAdapt) \/ (O(t, top).type \in IOTypes /\ ~IOAdapt))
                    THEN "gone" ELSE "stays"
         \* merging of a structurally redundant level (KEEP_STRUCTURE, or Die into Package), same rule as at load
         MergeOK(i) ==
            /\ \/ t.filters[O(t, i).type + 1] = FILTER_KEEP_STRUCTURE
               \/ O(t, i).type = DIE
            /\ \A j \in Pos(t) : (O(t, j).depth = O(t, i).depth /\ O(t, j).type = O(t, i).type) => Gone(j)
            /\ \E k \in alive : /\ ~Gone(k) /\ Related(t, i, k) /\ k # i
                                /\ NewC(CS(O(t, k))) = NewC(CS(O(t, i)))
         \* where survivor i may now hang: k = position in t of its parent in u
         ParentOK(i, k) ==
            LET anc == AncSet(t, i) IN
            \/ \* the closest surviving ancestor
               /\ k \in anc
               /\ \A j \in anc \ ({k} \cup AncSet(t, k)) : Gone(j)
            \/ \* memory, Misc and I/O children of an object that was merged into a descendant follow it there
               /\ ~IsNormal(O(t, i))
               /\ \E q \in anc : /\ Gone(q) /\ q \in alive /\ q \in AncSet(t, k)
                                  /\ NewC(CS(O(t, k))) = NewC(CS(O(t, q)))
                                  /\ \A j \in anc \ ({q} \cup AncSet(t, q)) : Gone(j)
    IN
    << <<"nothing_created", GU \subseteq GpSet(t)>>,
       <<"well_formed_after", WellFormed(u)>>,
       <<"gp_and_userdata_stable", GpUserdataStable(t, u)>>,
       <<"flags_filters_infos_kept", [TopLevel(u) EXCEPT !.tacs = <<>>, !.tans = <<>>] = [TopLevel(t) EXCEPT !.tacs = <<>>, !.tans = <<>>]>>,
       <<"allowed_sets_intersected", RSet(u.tacs) = NewC(RSet(t.tacs)) /\ RSet(u.tans) = NewN(RSet(t.tans))>>,
       <<"PUs_are_exactly_those_kept", \A i \in pus : Gone(i) <=> DropC(O(t, i).os)>>,
       <<"NUMA_nodes_are_exactly_those_kept", \A i \in numa : Gone(i) <=> DropN(O(t, i).os)>>,
       <<"nothing_else_disappears_except_by_level_merge",
            \A i \in Pos(t) : ((IsNormal(O(t, i)) /\ O(t, i).type # PU) \/ O(t, i).type = MEMCACHE) =>
                               (Gone(i) => (i \notin alive \/ MergeOK(i)))>>,
       <<"misc_and_io_dropped_or_reattached_never_otherwise_lost",
            \A i \in Pos(t) : IsSpecial(i) => LET fate == SpecialFate(i) IN
                                (fate = "stays" => ~Gone(i)) /\ (fate = "gone" => Gone(i))>>,
       <<"survivors_keep_identity_and_attributes",
            \A i \in Pos(t) : ~Gone(i) => Intrinsic(O(u, PosOf(u, O(t, i).gp))) = Intrinsic(O(t, i))>>,
       <<"survivors_sets_are_old_sets_minus_dropped",
            \A i \in Pos(t) : ~Gone(i) => LET o == O(t, i)  v == O(u, PosOf(u, o.gp)) IN
                /\ v.hs = o.hs
                /\ HasSets(o) => /\ CS(v) = NewC(CS(o)) /\ CCS(v) = NewC(CCS(o))
                                 /\ NS(v) = NewN(NS(o)) /\ CNS(v) = NewN(CNS(o))>>,
       <<"survivors_hang_below_closest_surviving_ancestor",
            \A i \in Pos(t) : (~Gone(i) /\ i # 1) =>
                LET v == O(u, PosOf(u, O(t, i).gp)) IN
                /\ v.parent # 0
                /\ ParentOK(i, PosOf(t, O(u, v.parent).gp))>> >>

RestrictRel(e, t, u) == LET c == RestrictChecks(e, t, u) IN \A k \in DOMAIN c : c[k][2]
RestrictWhy(e, t, u) == LET c == RestrictChecks(e, t, u) IN {c[k][1] : k \in {j \in DOMAIN c : ~c[j][2]}}

(* ------------------------------------------------------------------ *)
(* hwloc_topology_insert_misc_object                                   *)
(* ------------------------------------------------------------------ *)
InsertMiscRel(e, t, u) ==
  IF t.filters[MISC + 1] = FILTER_KEEP_NONE THEN e.ret = -1 /\ e.errno = "EINVAL" /\ Unchanged(t, u)
  ELSE /\ e.ret = 0 /\ e.obj # 0
       /\ e.obj \notin GpSet(t)
       /\ GpSet(u) = GpSet(t) \cup {e.obj}
       /\ WellFormed(u) /\ GpUserdataStable(t, u)
       /\ TopLevel(u) = TopLevel(t)
       /\ FrameExcept(t, u, {e.parent})
       /\ LET n == O(u, PosOf(u, e.obj))
              p == PosOf(u, e.parent)   p0 == PosOf(t, e.parent) IN
            /\ n.type = MISC /\ n.name = <<e.name>> /\ n.hs = <<0, 0, 0, 0>>
            /\ n.parent = p
            \* appended to the list of existing Misc children; nothing else about the parent moved
            /\ Place(u, p) = [Place(t, p0) EXCEPT !.misc = Append(@, e.obj)]
            /\ Intrinsic(O(u, p)) = Intrinsic(O(t, p0)) /\ Sets(O(u, p)) = Sets(O(t, p0))
            /\ n.kids = <<>> /\ n.mem = <<>> /\ n.io = <<>> /\ n.misc = <<>>

(* ------------------------------------------------------------------ *)
(* Group allocation / insertion / free                                 *)
(* ------------------------------------------------------------------ *)
GroupFreeRel(e, t, u) ==
  /\ Unchanged(t, u)
  /\ IF t.filters[GROUP + 1] = FILTER_KEEP_NONE THEN e.alloc = 0 /\ e.ret = -1
     ELSE e.alloc = 1 /\ e.ret = 0

\* common part of "group" (explicit sets) and "group_obj" (sets copied from an object)
\* rc / rn: requested cpuset / nodeset as range lists (possibly infinite); hasC / hasN: given and non-empty
Cut(r, S) == {x \in S : InR(r, x)}
GroupInsertRel(e, t, u, rc, hasC, rn, hasN) ==
  IF t.filters[GROUP + 1] = FILTER_KEEP_NONE THEN e.obj = 0 /\ Unchanged(t, u)      \* alloc or insert refuses
  ELSE
  /\ e.alloc = 1
  /\ \/ \* refused: conflicting or empty sets; every observable attribute unchanged
        /\ e.obj = 0 /\ Unchanged(t, u)                 \* (errno is not documented for this case)
     \/ \* an existing object is returned: the Group added no hierarchy information
        /\ e.obj # 0 /\ e.same = 0 /\ e.obj \in GpSet(t) /\ e.obj \in GpSet(u)
        /\ WellFormed(u) /\ GpUserdataStable(t, u)
        /\ GpSet(u) = GpSet(t)
        /\ TopLevel(u) = TopLevel(t)
        /\ \A i \in Pos(t) : Sets(O(u, PosOf(u, O(t, i).gp))) = Sets(O(t, i))
                             /\ Place(u, PosOf(u, O(t, i).gp)) = Place(t, i)
        /\ hasC => CS(O(u, PosOf(u, e.obj))) = Cut(rc, CS(O(t, 1)))
     \/ \* a new Group is in the tree (when it replaces an existing Group of the same location, hwloc keeps the old structure and moves
        \* the contents of the new one into it: the returned pointer is then not the one that was given, e.same = 0)
        /\ e.obj # 0 /\ e.obj \notin GpSet(t)
        /\ WellFormed(u) /\ GpUserdataStable(t, u)
        \* existing Groups at the same location may be replaced; nothing else disappears
        /\ GpSet(t) \ GpSet(u) \subseteq {O(t, i).gp : i \in {j \in Pos(t) : O(t, j).type = GROUP}}
        /\ GpSet(u) \ GpSet(t) = {e.obj}
        /\ TopLevel(u) = TopLevel(t)
        /\ LET g == O(u, PosOf(u, e.obj)) IN
             /\ g.type = GROUP
             /\ hasC => CS(g) = Cut(rc, CS(O(t, 1)))
             /\ g.attr.dont_merge = e.dont_merge
        \* survivors keep what they are and their sets
        /\ \A i \in Pos(t) : O(t, i).gp \in GpSet(u) =>
              LET v == O(u, PosOf(u, O(t, i).gp)) IN Intrinsic(v) = Intrinsic(O(t, i)) /\ Sets(v) = Sets(O(t, i))

GroupRel(e, t, u) ==
  IF (e.hascs = 0 /\ e.hasns = 0) \/ (e.cs = <<>> /\ e.ns = <<>>)
  THEN (t.filters[GROUP + 1] # FILTER_KEEP_NONE => e.alloc = 1) /\ e.obj = 0 /\ Unchanged(t, u)   \* no set initialised, or all empty
  ELSE GroupInsertRel(e, t, u, e.cs, e.hascs = 1 /\ e.cs # <<>>, e.ns, e.hasns = 1 /\ e.ns # <<>>)

GroupObjRel(e, t, u) ==
  LET src == O(t, PosOf(t, e.src)) IN
  IF ~HasSets(src) \/ (CS(src) = {} /\ NS(src) = {})
  THEN e.obj = 0 /\ Unchanged(t, u)
  ELSE GroupInsertRel(e, t, u, src.cs, CS(src) # {}, src.ns, NS(src) # {})

(* ------------------------------------------------------------------ *)
(* hwloc_topology_allow                                                *)
(* ------------------------------------------------------------------ *)
AllowRel(e, t, u) ==
  LET root == O(t, 1)
      ok == /\ Bit(t.flags, FLAG_INCLUDE_DISALLOWED)
            /\ e.flags \in {1, 4}                       \* LOCAL_RESTRICTIONS (2) needs this system; handled below
            /\ e.flags = 1 => e.hascs = 0 /\ e.hasns = 0
            /\ e.flags = 4 => /\ (e.hascs = 1 => Cut(e.cs, CS(root)) # {})
                              /\ (e.hasns = 1 => Cut(e.ns, NS(root)) # {})
  IN
  IF e.flags = 2 /\ Bit(t.flags, FLAG_INCLUDE_DISALLOWED) /\ e.hascs = 0 /\ e.hasns = 0 /\ t.thissystem = 1
  THEN \* result depends on the operating system: only the frame and well-formedness
       /\ e.ret \in {0, -1}
       /\ [u EXCEPT !.tacs = <<>>, !.tans = <<>>, !.check_ok = 1, !.xd = <<>>] = [t EXCEPT !.tacs = <<>>, !.tans = <<>>, !.check_ok = 1, !.xd = <<>>]
       /\ WellFormed(u)
  ELSE IF ~ok THEN e.ret = -1 /\ e.errno = "EINVAL" /\ Unchanged(t, u)      \* EINVAL leaves the topology untouched
  ELSE /\ e.ret = 0
       \* it does not modify any object
       /\ [u EXCEPT !.tacs = <<>>, !.tans = <<>>, !.check_ok = 1, !.xd = <<>>] = [t EXCEPT !.tacs = <<>>, !.tans = <<>>, !.check_ok = 1, !.xd = <<>>]
       /\ WellFormed(u)
       /\ e.flags = 4 =>
            /\ RSet(u.tacs) = (IF e.hascs = 1 THEN Cut(e.cs, CS(root)) ELSE RSet(t.tacs))
            /\ RSet(u.tans) = (IF e.hasns = 1 THEN Cut(e.ns, NS(root)) ELSE RSet(t.tans))
       /\ e.flags = 1 => CS(root) \subseteq RSet(u.tacs) /\ NS(root) \subseteq RSet(u.tans)

(* ------------------------------------------------------------------ *)
(* infos, subtype, refresh                                             *)
(* ------------------------------------------------------------------ *)
AddInfoRel(e, t, u) ==
  /\ e.ret \in {0, 1}              \* hwloc.h documents 0; the inline wrapper returns hwloc_modify_infos()'s positive count
  /\ WellFormed(u) /\ GpUserdataStable(t, u)
  /\ GpSet(u) = GpSet(t) /\ TopLevel(u) = TopLevel(t)
  /\ FrameExcept(t, u, {e.obj})
  /\ LET a == O(t, PosOf(t, e.obj))  b == O(u, PosOf(u, e.obj)) IN
       /\ b.infos = Append(a.infos, <<e.name, e.value>>)
       /\ [View(u, PosOf(u, e.obj)) EXCEPT !.in.infos = <<>>] = [View(t, PosOf(t, e.obj)) EXCEPT !.in.infos = <<>>]

SetSubtypeRel(e, t, u) ==
  /\ e.ret = 0
  /\ WellFormed(u) /\ GpUserdataStable(t, u)
  /\ GpSet(u) = GpSet(t) /\ TopLevel(u) = TopLevel(t)
  /\ FrameExcept(t, u, {e.obj})
  /\ O(u, PosOf(u, e.obj)).st = e.st
  /\ [View(u, PosOf(u, e.obj)) EXCEPT !.in.st = <<>>] = [View(t, PosOf(t, e.obj)) EXCEPT !.in.st = <<>>]

RefreshRel(e, t, u) == e.ret = 0 /\ Unchanged(t, u)

(* ------------------------------------------------------------------ *)
(* distances / memory attributes / CPU kinds seen from the object tree *)
(* (their own stores are judged by C13, C14, C15): the tree does not   *)
(* move, except for Groups added by a commit that asks for grouping    *)
(* ------------------------------------------------------------------ *)
GroupingRel(t, u) ==
  /\ WellFormed(u) /\ GpUserdataStable(t, u)
  /\ TopLevel(u) = TopLevel(t)
  \* an existing Group at the location of a new one may be replaced by it (hwloc keeps the Group of lower kind); nothing else disappears
  /\ GpSet(t) \ GpSet(u) \subseteq {O(t, i).gp : i \in {j \in Pos(t) : O(t, j).type = GROUP}}
  /\ \A i \in Pos(u) : O(u, i).gp \notin GpSet(t) => O(u, i).type = GROUP
  /\ \A i \in Pos(t) : O(t, i).gp \in GpSet(u) =>
        LET v == O(u, PosOf(u, O(t, i).gp)) IN Intrinsic(v) = Intrinsic(O(t, i)) /\ Sets(v) = Sets(O(t, i))

\* When the stores are observed (recorder option "stores 1") a call on one store leaves the other two alone, a refused call leaves all
\* three alone, and the distances store - the structures hwloc_distances_get() returns, each with the name its handle answers to -
\* moves exactly by the structure the call names: a committed structure is appended under the name given to add_create, with the objects
\* given to add_values; release_remove of a handle removes that very structure; hwloc_distances_remove() removes all.  (What the stored
\* values are is C13's, C14's and C15's business.)
Without(q, k) == [i \in 1..(Len(q) - 1) |-> IF i < k THEN q[i] ELSE q[i + 1]]
StoresFrame(e, t, u) ==
  (t.hasst = 1 /\ u.hasst = 1) =>
    LET a == t.stores  b == u.stores IN
    /\ e.e \in {"dist_add", "dist_remove", "dist_remove_one"} => (b.ma = a.ma /\ b.ck = a.ck)
    /\ e.e = "memattr" => (b.dist = a.dist /\ b.ck = a.ck)
    /\ e.e \in {"cpukind", "cpukind_info"} => (b.dist = a.dist /\ b.ma = a.ma)
    /\ (e.e = "dist_add" /\ e.ret = -1) => b.dist = a.dist
    /\ (e.e = "dist_add" /\ e.ret = 0) =>
          /\ Len(b.dist) = Len(a.dist) + 1
          /\ \E k \in 1..Len(b.dist) : /\ Without(b.dist, k) = a.dist
                                       /\ b.dist[k].name = <<e.name>> /\ b.dist[k].n = e.nb
                                       /\ (e.addflags = 0 => b.dist[k].objs = e.objs)
    /\ e.e = "dist_remove" => (e.ret = 0 /\ b.dist = <<>>)
    /\ e.e = "dist_remove_one" =>
          IF e.nr = 0 THEN b.dist = a.dist
          ELSE /\ e.ret = 0 /\ Len(a.dist) = e.nr /\ (e.name # "" => a.dist[e.k + 1].name = <<e.name>>)
               /\ b.dist = Without(a.dist, e.k + 1)

\* the XML export digest (xd) covers the stores, so it may move here; nothing else does
StoreRel(e, t, u) ==
  /\ (e.e # "cpukind_info" => e.ret \in {0, -1})       \* hwloc_modify_infos returns the number of pairs it changed
  /\ StoresFrame(e, t, u)
  /\ IF e.e = "dist_add" /\ e.commit = 0 /\ (e.addflags % 4) # 0 /\ e.addflags < 4
     THEN GroupingRel(t, u)
     ELSE [u EXCEPT !.xd = <<>>, !.stores = <<>>] = [t EXCEPT !.xd = <<>>, !.stores = <<>>]

ModifyingEvents == {"restrict", "insert_misc", "group", "group_obj", "group_free", "allow", "add_info", "set_subtype", "refresh",
                    "dist_add", "dist_remove", "dist_remove_one", "memattr", "cpukind", "cpukind_info"}

\* t is the stored (tagged) projection before, u the logged one after
ModifyRel(e, t, u, slot) ==
  CASE e.e = "restrict"    -> RestrictRel(e, t, u)
    [] e.e = "insert_misc" -> InsertMiscRel(e, t, u)
    [] e.e = "group"       -> GroupRel(e, t, u)
    [] e.e = "group_obj"   -> GroupObjRel(e, t, u)
    [] e.e = "group_free"  -> GroupFreeRel(e, t, u)
    [] e.e = "allow"       -> AllowRel(e, t, u)
    [] e.e = "add_info"    -> AddInfoRel(e, t, u)
    [] e.e = "set_subtype" -> SetSubtypeRel(e, t, u)
    [] e.e = "refresh"     -> RefreshRel(e, t, u)
    [] e.e \in {"dist_add", "dist_remove", "dist_remove_one", "memattr", "cpukind", "cpukind_info"} -> StoreRel(e, t, u)

(* ------------------------------------------------------------------ *)
(* hwloc_topology_dup (C12): the copy is observably identical,         *)
(* userdata pointers copied verbatim; the source did not move          *)
(* ------------------------------------------------------------------ *)
DupRel(e, t, src_after, dst_after) ==
  /\ e.ret = 0
  /\ src_after = t
  /\ dst_after = t
  /\ WellFormed(dst_after)
=============================================================================
