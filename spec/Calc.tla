-------------------------------- MODULE Calc --------------------------------
(***************************************************************************)
(* Property C20: the command-line tools compute what the library defines.  *)
(*                                                                         *)
(* hwloc-calc is an accumulator machine over the abstract topology t (the  *)
(* record logged by harness/project.h for the very input the tool loads):  *)
(* the state holds the CPU set and the node set accumulated so far (the    *)
(* tool applies every operator to the cpusets AND to the nodesets of the   *)
(* named objects) and the input options in force; every command-line token *)
(* is one step.  The output relations say what each output mode may print  *)
(* for the final state.  hwloc-distrib, hwloc-diff/patch and lstopo have   *)
(* one relation each at the end of the module.                             *)
(*                                                                         *)
(* Sources of every clause: hwloc(7) "Location Specification" and "hwloc   *)
(* Indexes", hwloc-calc(1), hwloc-distrib(1), hwloc-diff(1)/patch(1),      *)
(* lstopo(1), hwloc/helper.h (cpuset<->nodeset conversion, hwloc_distrib). *)
(* Where these leave the result open the value is flagged det = FALSE and  *)
(* only "no crash" (and the exit status where documented) is demanded.     *)
(* Sets are BitmapStr values [fin, inf, n] (finite or cofinite).           *)
(***************************************************************************)
EXTENDS Topology, TLC
BS == INSTANCE BitmapStr

\* With(e, LAMBDA x : B) is LET x == e IN B, evaluated once: TLC keeps the value of an operator argument but evaluates
\* a LET definition again at every use (minutes instead of seconds where x is a parsed line or a list of objects)
With(e, B(_)) == B(e)

(* ------------------------------ set values ----------------------------- *)
V0 == BS!Empty
VR(r) == BS!FromRanges(r)                     \* r: sequence of <<lo, hi>>, hi = -1 infinite
VFin(S) == [fin |-> S, inf |-> FALSE, n |-> BS!RoundUp32((IF S = {} THEN 0 ELSE BS!SetMax(S)) + 1)]
W2(a, b) == BS!Max2(a.n, b.n)
VOr(a, b)     == LET n == W2(a, b)  x == BS!Widen(a, n)  y == BS!Widen(b, n) IN [fin |-> x.fin \cup y.fin, inf |-> x.inf \/ y.inf, n |-> n]
VAnd(a, b)    == LET n == W2(a, b)  x == BS!Widen(a, n)  y == BS!Widen(b, n) IN [fin |-> x.fin \cap y.fin, inf |-> x.inf /\ y.inf, n |-> n]
VAndNot(a, b) == LET n == W2(a, b)  x == BS!Widen(a, n)  y == BS!Widen(b, n) IN [fin |-> x.fin \ y.fin, inf |-> x.inf /\ ~y.inf, n |-> n]
VXor(a, b)    == LET n == W2(a, b)  x == BS!Widen(a, n)  y == BS!Widen(b, n)
                 IN [fin |-> (x.fin \ y.fin) \cup (y.fin \ x.fin), inf |-> x.inf # y.inf, n |-> n]
VMeets(a, b)  == LET n == W2(a, b)  x == BS!Widen(a, n)  y == BS!Widen(b, n) IN x.fin \cap y.fin # {} \/ (x.inf /\ y.inf)
VSub(a, b)    == LET n == W2(a, b)  x == BS!Widen(a, n)  y == BS!Widen(b, n) IN x.fin \subseteq y.fin /\ (x.inf => y.inf)
VEmpty(a)     == a.fin = {} /\ ~a.inf
VSame(a, b)   == BS!SameSet(a, b)
VFirst(a)     == IF a.fin # {} THEN BS!SetMin(a.fin) ELSE a.n        \* only for non-empty a
VSingl(a)     == IF VEmpty(a) THEN a ELSE VFin({VFirst(a)})          \* hwloc_bitmap_singlify: the lowest index (C03)
RECURSIVE VUnion(_)
VUnion(S) == IF S = {} THEN V0 ELSE LET x == CHOOSE x \in S : TRUE IN VOr(x, VUnion(S \ {x}))

(* ---------------------------- topology access -------------------------- *)
LObjs(t, d) == t.levels[LevelIdx(t, d)].objs            \* positions, logical order
OCS(t, p) == VR(O(t, p).cs)
ONS(t, p) == VR(O(t, p).ns)
\* I/O and Misc objects stand for the processors / nodes close to them: first ancestor that has sets
RECURSIVE SetsAnc(_, _)
SetsAnc(t, p) == IF O(t, p).hs[1] = 1 THEN p ELSE IF O(t, p).parent <= 0 THEN 0 ELSE SetsAnc(t, O(t, p).parent)
NumaObjs(t) == LObjs(t, -3)
\* hwloc/helper.h: hwloc_cpuset_to_nodeset / hwloc_cpuset_from_nodeset
CsToNs(t, v) == VFin({O(t, NumaObjs(t)[k]).os : k \in {k \in DOMAIN NumaObjs(t) : VMeets(OCS(t, NumaObjs(t)[k]), v)}})
NsToCs(t, v) == VUnion({OCS(t, NumaObjs(t)[k]) : k \in {k \in DOMAIN NumaObjs(t) : BS!Bit(v, O(t, NumaObjs(t)[k]).os)}})
IODepths == {-4, -5, -6, -7}

(* ------------------------------ type names ----------------------------- *)
\* names of hwloc(7) "hwloc Objects" and the abbreviations its examples use
TypeOfName(s) ==
  CASE s \in {"machine"} -> MACHINE
    [] s \in {"package", "pack"} -> PACKAGE
    [] s \in {"die"} -> DIE
    [] s \in {"core"} -> CORE
    [] s \in {"pu"} -> PU
    [] s \in {"l1cache", "l1"} -> L1   [] s \in {"l2cache", "l2"} -> L2   [] s \in {"l3cache", "l3"} -> L3
    [] s \in {"l4cache"} -> L4   [] s \in {"l5cache"} -> L5
    [] s \in {"l1icache", "l1i"} -> L1I   [] s \in {"l2icache"} -> L2I   [] s \in {"l3icache"} -> L3I
    [] s \in {"group"} -> GROUP
    [] s \in {"numanode", "numa", "node"} -> NUMANODE
    [] s \in {"bridge"} -> BRIDGE
    [] s \in {"pcidev", "pci"} -> PCIDEV
    [] s \in {"osdev", "os"} -> OSDEV
    [] s \in {"misc"} -> MISC
    [] OTHER -> -1
IsNum(s) == BS!NumOK(s)
GroupK(s) == IF Len(s) = 6 /\ SubSeq(s, 1, 5) = "group" /\ SubSeq(s, 6, 6) \in BS!DecChars THEN BS!NumVal(SubSeq(s, 6, 6)) ELSE -1
\* level named by a type string or a depth: [ok, d]
LevelOfName(t, s) ==
  IF IsNum(s) THEN [ok |-> BS!NumVal(s) < t.depth, d |-> BS!NumVal(s)]
  ELSE IF GroupK(s) >= 0 THEN
    LET ds == {d \in 0..(t.depth - 1) : t.levels[d + 1].type = GROUP /\ t.levels[d + 1].nb > 0
                                          /\ O(t, t.levels[d + 1].objs[1]).attr.depth = GroupK(s)}
    IN IF Cardinality(ds) = 1 THEN [ok |-> TRUE, d |-> CHOOSE d \in ds : TRUE] ELSE [ok |-> FALSE, d |-> -1]
  ELSE LET ty == TypeOfName(s) IN
    IF ty = -1 THEN [ok |-> FALSE, d |-> -1]
    ELSE [ok |-> t.tdepth[ty + 1] \notin {DEPTH_UNKNOWN, DEPTH_MULTIPLE}, d |-> t.tdepth[ty + 1]]

(* ------------------------------- ranges -------------------------------- *)
\* r = [rk, a, b]: one a | span a-b | from a- | cnt a:b | all | odd | even
RangeTxt(r) == CASE r.rk = "one" -> BS!Dec(r.a)
                 [] r.rk = "span" -> BS!Dec(r.a) \o "-" \o BS!Dec(r.b)
                 [] r.rk = "from" -> BS!Dec(r.a) \o "-"
                 [] r.rk = "cnt" -> BS!Dec(r.a) \o ":" \o BS!Dec(r.b)
                 [] OTHER -> r.rk
RangeOK(r) == /\ r.rk \in {"one", "span", "from", "cnt", "all", "odd", "even"}
              /\ r.a \in Nat /\ r.b \in Nat
              /\ r.rk = "span" => r.a <= r.b
\* index values denoted by a range among the valid values 0..w-1 (logical) or V (physical)
RangeVals(r, V) ==
  CASE r.rk = "one"  -> {r.a} \cap V
    [] r.rk = "span" -> (r.a..r.b) \cap V
    [] r.rk = "from" -> {v \in V : v >= r.a}
    [] r.rk = "all"  -> V
    [] r.rk = "odd"  -> {v \in V : v % 2 = 1}
    [] r.rk = "even" -> {v \in V : v % 2 = 0}
    [] r.rk = "cnt"  -> LET w == Cardinality(V) IN
                          IF w = 0 \/ r.b = 0 THEN {} ELSE IF r.b >= w THEN V ELSE {(r.a + j) % w : j \in 0..(r.b - 1)} \cap V
\* "x:y enumerates y objects starting from index x (wrapping around the end of the index range if needed)":
\* determined when x is a valid index and the valid indexes are 0..w-1
CntDet(r, V) == r.rk = "cnt" => (V = {} \/ (V = 0..(Cardinality(V) - 1) /\ r.a \in V))

\* cand: candidate positions in logical order.  Result: [det, sel] with sel a set of positions
Pick(t, cand, r, logical) ==
  LET w == Len(cand) IN
  IF logical THEN [det |-> CntDet(r, 0..(w - 1)), sel |-> {cand[v + 1] : v \in RangeVals(r, 0..(w - 1))}]
  ELSE LET V == {O(t, cand[k]).os : k \in 1..w} \ {-1}
           First(v) == cand[CHOOSE k \in 1..w : O(t, cand[k]).os = v /\ \A j \in 1..(k - 1) : O(t, cand[j]).os # v]
       IN [det |-> CntDet(r, V) /\ (r.rk = "cnt" => Cardinality(V) = w),
           sel |-> {First(v) : v \in RangeVals(r, V)}]                    \* "the first object matching the given index is used"

(* ------------------------------ locations ------------------------------ *)
\* objects of level d in the scope (sc, sn): as the tool searches them (sets intersect) ...
InScopeI(t, p, sc, sn) == LET c == OCS(t, p)  n == ONS(t, p) IN
  /\ ~(VEmpty(c) /\ VEmpty(n))
  /\ (~VEmpty(c) => VMeets(c, sc))
  /\ (~VEmpty(n) => VMeets(n, sn))
\* ... and as "relative to the scope of the parent object" reads (included in it); the location is
\* determined when both readings give the same candidates
InScopeD(t, p, top, sc, sn) == LET c == OCS(t, p)  n == ONS(t, p) IN
  IF top THEN TRUE
  ELSE ~(VEmpty(c) /\ VEmpty(n)) /\ VSub(c, sc) /\ (VEmpty(c) => VMeets(n, sn))

BadVal   == [ok |-> FALSE, det |-> TRUE, cs |-> V0, ns |-> V0]
OpenVal  == [ok |-> TRUE, det |-> FALSE, cs |-> V0, ns |-> V0]
ObjsVal(t, S, det) == [ok |-> TRUE, det |-> det, cs |-> VUnion({OCS(t, p) : p \in S}), ns |-> VUnion({ONS(t, p) : p \in S})]

\* chain = sequence of [tn, r]; evaluated in scope (top, sc, sn).  Requires all names valid, no I/O level.
RECURSIVE ChainVal(_, _, _, _, _, _)
ChainVal(t, logical, chain, top, sc, sn) ==
  LET h == Head(chain)
      d == LevelOfName(t, h.tn).d
      candI == SelectSeq(LObjs(t, d), LAMBDA p : InScopeI(t, p, sc, sn))
      candD == SelectSeq(LObjs(t, d), LAMBDA p : InScopeD(t, p, top, sc, sn))
      pk == Pick(t, candI, h.r, logical)
      det0 == candI = candD /\ pk.det
  IN IF Len(chain) = 1 THEN ObjsVal(t, pk.sel, det0)
     ELSE LET subs == {ChainVal(t, logical, Tail(chain), FALSE, OCS(t, p), ONS(t, p)) : p \in pk.sel}
          IN [ok |-> TRUE, det |-> det0 /\ \A s \in subs : s.det,
              cs |-> VUnion({s.cs : s \in subs}), ns |-> VUnion({s.ns : s \in subs})]

\* PCI bus id text "dddd:bb:dd.f"
RECURSIVE Hex(_, _)
Hex(x, k) == IF k = 0 THEN "" ELSE Hex(x \div 16, k - 1) \o BS!Ch(BS!HexLower, (x % 16) + 1)
BusId(o) == LET a == o.attr.pci IN Hex(a.dom, 4) \o ":" \o Hex(a.bus, 2) \o ":" \o Hex(a.dev, 2) \o "." \o Hex(a.func, 1)

\* the value of one location under the input options of st
LocVal(t, st, loc) ==
  CASE loc.k \in {"all", "root"} -> [ok |-> TRUE, det |-> TRUE, cs |-> VR(t.tcs), ns |-> VR(t.tns)]
    [] loc.k = "raw" ->
         LET f == IF st.cif # "" THEN st.cif ELSE loc.f
             p == BS!Parse(f, loc.s, FALSE)
             \* without --cif the tool "tries to guess" the format, and hwloc-calc(1) warns that digits and commas without
             \* "0x" may be taken for a list or for a mask: determined for "0x..." strings on which the hwloc and taskset
             \* readings agree, and for lists that contain a range
             unamb == \/ st.cif # ""
                      \/ /\ BS!StartsWith(loc.s, "0x") /\ f \in {"hwloc", "taskset"}
                         /\ \A g \in {"hwloc", "taskset"} : LET q == BS!Parse(g, loc.s, FALSE) IN q.ok => VSame(q.v, p.v)
                      \/ /\ f = "list" /\ \E i \in 1..Len(loc.s) : BS!Ch(loc.s, i) = "-"
         IN IF ~p.ok \/ ~unamb THEN OpenVal
            ELSE IF st.ni THEN [ok |-> TRUE, det |-> TRUE, cs |-> NsToCs(t, p.v), ns |-> p.v]
                 ELSE [ok |-> TRUE, det |-> TRUE, cs |-> p.v, ns |-> CsToNs(t, p.v)]
    [] loc.k = "obj" ->
         LET lv == [k \in DOMAIN loc.chain |-> LevelOfName(t, loc.chain[k].tn)]
             n == Len(loc.chain)
         IN IF ~lv[1].ok \/ (n >= 2 /\ ~lv[2].ok) THEN BadVal              \* unknown or unavailable level: not a location
            ELSE IF \E k \in 3..n : ~lv[k].ok THEN OpenVal
            ELSE IF lv[1].d \in IODepths THEN
                   \* I/O and Misc objects: by logical index in their level, no chaining
                   IF n > 1 \/ ~st.li THEN OpenVal
                   ELSE LET pk == Pick(t, LObjs(t, lv[1].d), loc.chain[1].r, TRUE)
                        IN ObjsVal(t, {SetsAnc(t, p) : p \in pk.sel} \ {0}, pk.det)
            ELSE IF \E k \in 2..n : lv[k].d \in IODepths THEN OpenVal
            ELSE ChainVal(t, st.li, loc.chain, TRUE, VR(t.tccs), VR(t.tcns))
    [] loc.k = "pci=" ->
         LET S == {p \in SeqSet(LObjs(t, -5)) : BusId(O(t, p)) = loc.s} IN
         IF S = {} THEN BadVal ELSE ObjsVal(t, {SetsAnc(t, p) : p \in S} \ {0}, Cardinality(S) = 1)
    [] loc.k = "os=" ->
         LET S == {p \in SeqSet(LObjs(t, -6)) : O(t, p).name = <<loc.s>>} IN
         IF S = {} THEN BadVal ELSE ObjsVal(t, {SetsAnc(t, p) : p \in S} \ {0}, Cardinality(S) = 1)
    [] OTHER -> BadVal                                                      \* "bad": not a location of the documented grammar

LocTxt(loc) ==
  CASE loc.k \in {"all", "root"} -> loc.k
    [] loc.k \in {"raw", "bad"} -> loc.s
    [] loc.k = "obj" -> BS!Join([k \in DOMAIN loc.chain |-> loc.chain[k].tn \o ":" \o RangeTxt(loc.chain[k].r)], ".")
    [] loc.k = "pci=" -> "pci=" \o loc.s
    [] loc.k = "os=" -> "os=" \o loc.s
LocOK(loc) == /\ loc.op \in {"", "~", "x", "^"}
              /\ loc.k \in {"all", "root", "raw", "bad", "obj", "pci=", "os="}
              /\ loc.k = "obj" => Len(loc.chain) >= 1 /\ \A k \in DOMAIN loc.chain : RangeOK(loc.chain[k].r)
              /\ loc.k = "raw" => loc.f \in BS!Fmts

(* --------------------------- the accumulator --------------------------- *)
\* li/lo: logical input/output indexes; ni/no: node sets on input/output; cif: forced input format or "";
\* n: locations accepted so far; bad: some token was not a location (the tool says "ignored unrecognized
\* argument"); det: every accepted location had a determined value
St0 == [cs |-> V0, ns |-> V0, li |-> TRUE, lo |-> TRUE, ni |-> FALSE, no |-> FALSE, cif |-> "", n |-> 0, bad |-> FALSE, det |-> TRUE]
ApplyOp(op, acc, v) == CASE op = "" -> VOr(acc, v) [] op = "~" -> VAndNot(acc, v) [] op = "x" -> VAnd(acc, v) [] op = "^" -> VXor(acc, v)

InOpts == {"-l", "-p", "--li", "--pi", "--lo", "--po", "-n", "--ni", "--no", "--logical", "--physical",
           "--logical-input", "--physical-input", "--nodeset", "--nodeset-input"}
StepOpt(st, o) ==
  CASE o \in {"-l", "--logical"}  -> [st EXCEPT !.li = TRUE, !.lo = TRUE]
    [] o \in {"-p", "--physical"} -> [st EXCEPT !.li = FALSE, !.lo = FALSE]
    [] o \in {"--li", "--logical-input"}  -> [st EXCEPT !.li = TRUE]
    [] o \in {"--pi", "--physical-input"} -> [st EXCEPT !.li = FALSE]
    [] o = "--lo" -> [st EXCEPT !.lo = TRUE]
    [] o = "--po" -> [st EXCEPT !.lo = FALSE]
    [] o \in {"-n", "--nodeset"} -> [st EXCEPT !.ni = TRUE, !.no = TRUE]
    [] o \in {"--ni", "--nodeset-input"} -> [st EXCEPT !.ni = TRUE]
    [] o = "--no" -> [st EXCEPT !.no = TRUE]
\* one action per kind of token
AddLoc(t, st, loc) == LET v == LocVal(t, st, loc) IN
  IF ~v.ok THEN [st EXCEPT !.bad = TRUE]
  ELSE [st EXCEPT !.cs = ApplyOp(loc.op, st.cs, v.cs), !.ns = ApplyOp(loc.op, st.ns, v.ns), !.n = st.n + 1, !.det = st.det /\ v.det]
Step(t, st, tok) ==
  CASE tok.k = "opt" -> StepOpt(st, tok.o)
    [] tok.k = "cif" -> [st EXCEPT !.cif = tok.f]
    [] OTHER -> AddLoc(t, st, tok)
TokArgv(tok) == CASE tok.k = "opt" -> <<tok.o>> [] tok.k = "cif" -> <<"--cif", tok.f>> [] OTHER -> <<tok.op \o LocTxt(tok)>>
TokOK(tok) == IF tok.k = "opt" THEN tok.o \in InOpts
              ELSE IF tok.k = "cif" THEN tok.f \in BS!Fmts
              ELSE LocOK(tok)
RECURSIVE Run(_, _, _)
Run(t, st, toks) == IF toks = <<>> THEN st ELSE Run(t, Step(t, st, Head(toks)), Tail(toks))
RECURSIVE Flat(_)
Flat(ss) == IF ss = <<>> THEN <<>> ELSE Head(ss) \o Flat(Tail(ss))
ToksArgv(toks) == Flat([k \in DOMAIN toks |-> TokArgv(toks[k])])

(* ------------------------------ output modes --------------------------- *)
\* mode.m: "set" (f, no, single, legacy) | "I" (tn, po, oo, sep, single) | "N" (tn) | "largest" (po, sep) | "H" (tns, po, sep)
\*         | "fbL" (po) feed the previous --largest output back | "fbH" (tn) feed the previous -H output back into -I tn
\*         | "badopt" (av) malformed option words
Seps == {"", ",", " ", "+", "_", ";"}
PoArgv(mode) == IF mode.po THEN <<"--po">> ELSE <<>>
SepArgv(mode) == IF mode.sep = "" THEN <<>> ELSE <<"--sep", mode.sep>>
ModeArgv(mode) ==
  CASE mode.m = "set" -> (IF mode.no THEN <<"--no">> ELSE <<>>) \o (IF mode.single THEN <<"--single">> ELSE <<>>)
                         \o (IF mode.legacy THEN <<"--taskset">> ELSE IF mode.f = "" THEN <<>> ELSE <<"--cof", mode.f>>)
    [] mode.m = "I" -> <<"-I", mode.tn>> \o PoArgv(mode) \o (IF mode.oo THEN <<"--oo">> ELSE <<>>) \o SepArgv(mode)
                       \o (IF mode.single THEN <<"--single">> ELSE <<>>)
    [] mode.m = "N" -> <<"-N", mode.tn>> \o (IF mode.single THEN <<"--single">> ELSE <<>>)
    [] mode.m = "largest" -> <<"--largest">> \o PoArgv(mode) \o SepArgv(mode)
    [] mode.m = "H" -> <<"-H", BS!Join(mode.tns, ".")>> \o PoArgv(mode) \o SepArgv(mode)
    [] mode.m = "badopt" -> mode.av
    [] mode.m = "stdin" -> (IF mode.f = "" THEN <<>> ELSE <<"--cof", mode.f>>) \o (IF mode.q THEN <<"-q">> ELSE <<>>)
\* hwloc-calc(1): "If no object or CPU mask strings are given on the command-line, the program will read the standard
\* input.  It will combine multiple objects or CPU mask strings that are given on the same line of the standard input
\* line with spaces as separators.  Different input lines will be processed separately."
\* mode "stdin" (f, q, pad): the option tokens stay on the command line (so they are all in force before the first
\* location), the locations go to one input line, which is given twice; pad: the line is made at least that long by
\* additional separators (its length is what the tool's line buffer sees)
IsOptTok(tok) == tok.k \in {"opt", "cif"}
StdinOrder(toks) == SelectSeq(toks, IsOptTok) \o SelectSeq(toks, LAMBDA tok : ~IsOptTok(tok))
StdinWords(toks) == LET ls == SelectSeq(toks, LAMBDA tok : ~IsOptTok(tok)) IN [k \in DOMAIN ls |-> ls[k].op \o LocTxt(ls[k])]
StdinLine(toks, pad) ==
  LET ws == StdinWords(toks)
      base == BS!Join(ws, " ")
      extra == IF pad > Len(base) THEN pad - Len(base) ELSE 0
  IN IF Len(ws) <= 1 THEN base \o BS!Rep(" ", extra)
     ELSE ws[1] \o BS!Rep(" ", extra) \o " " \o BS!Join(Tail(ws), " ")
StdinText(toks, mode) == LET ln == StdinLine(toks, mode.pad) IN ln \o "\n" \o ln \o "\n"
\* a word with a separator inside is not one word of an input line
StdinPlain(toks) == \A k \in DOMAIN StdinWords(toks) : LET w == StdinWords(toks)[k] IN w # "" /\ \A i \in 1..Len(w) : BS!Ch(w, i) # " "
\* the whole command line after the topology options; prev = stdout words of the previous invocation (feedback modes)
FbSplit(prev, sep) == IF prev = <<>> \/ prev[1] = "" THEN <<>> ELSE BS!Split(prev[1], sep)
CmdArgv(toks, mode, prev) ==
  CASE mode.m = "fbL" -> (IF mode.po THEN <<"--pi">> ELSE <<>>) \o FbSplit(prev, " ")
    [] mode.m = "fbH" -> <<"-I", mode.tn>> \o FbSplit(prev, " ")
    [] mode.m = "stdin" -> ToksArgv(SelectSeq(toks, IsOptTok)) \o ModeArgv(mode)
    [] mode.pre -> ModeArgv(mode) \o ToksArgv(toks)
    [] OTHER -> ToksArgv(toks) \o ModeArgv(mode)
ModeOK(mode) == /\ mode.m \in {"set", "I", "N", "largest", "H", "fbL", "fbH", "badopt", "stdin"}
                /\ mode.m = "set" => mode.f \in BS!Fmts \cup {""} /\ mode.no \in BOOLEAN /\ mode.single \in BOOLEAN /\ mode.legacy \in BOOLEAN
                /\ mode.m \in {"I", "largest", "H"} => mode.sep \in Seps /\ mode.po \in BOOLEAN
                /\ mode.m = "stdin" => mode.f \in BS!Fmts \cup {""} /\ mode.q \in BOOLEAN /\ mode.pad \in Nat

\* final option state: the mode's own option words come after (or before) the locations
Final(st, mode) ==
  [lo |-> IF mode.m \in {"I", "largest", "H"} /\ mode.po THEN FALSE ELSE st.lo,
   no |-> IF mode.m = "set" /\ mode.no THEN TRUE ELSE st.no]

IdxTxt(t, p, lo) == IF lo THEN BS!Dec(O(t, p).lidx) ELSE IF O(t, p).os = -1 THEN "-1" ELSE BS!Dec(O(t, p).os)

\* -I / -N: objects of the level "that intersect the CPU set".  For memory levels the tool looks at the node set
\* ("-I numa selects all nodes that are somehow local to any of the input objects"): both readings are accepted.
MeetsAcc(t, p, cs, ns, bynode) ==
  LET q == SetsAnc(t, p) IN
  IF q = 0 THEN FALSE ELSE IF bynode THEN VMeets(ONS(t, q), ns) ELSE VMeets(OCS(t, q), cs)
IObjs(t, d, cs, ns, bynode) == SelectSeq(LObjs(t, d), LAMBDA p : MeetsAcc(t, p, cs, ns, bynode))
IReadings(t, d) == IF d \in {-3, -8} THEN {TRUE, FALSE} ELSE {FALSE}
EffCs(st, single) == IF single THEN VSingl(st.cs) ELSE st.cs
ITexts(t, objs, lo, oo, sname) == [k \in DOMAIN objs |-> (IF oo THEN sname \o ":" ELSE "") \o IdxTxt(t, objs[k], lo)]
SameBag(a, b) == Len(a) = Len(b) /\ SeqSet(a) = SeqSet(b)
WordsOf(line, sep) == IF line = "" THEN <<>> ELSE BS!Split(line, sep)

\* --largest: "largest objects which exactly include all input objects ...  None of these output objects
\* intersect each other, and the sum of them is exactly equivalent to the input.  No larger object is included"
TokParts(w) == BS!Split(w, ":")
NormalDepths(t) == 0..(t.depth - 1)
ResolveTok(t, lnames, w, lo) ==
  LET ps == TokParts(w)
      ds == {d \in NormalDepths(t) : lnames[d + 1] = ps[1]}
  IN IF Len(ps) # 2 \/ ~BS!NumOK(ps[2]) THEN {}
     ELSE UNION {{p \in SeqSet(LObjs(t, d)) : IF lo THEN O(t, p).lidx = BS!NumVal(ps[2]) ELSE O(t, p).os = BS!NumVal(ps[2])} : d \in ds}
LargestRelRef(t, cs, objs) ==
  /\ VSame(VUnion({OCS(t, p) : p \in objs}), cs)
  /\ \A p \in objs : \A q \in objs : p # q => ~VMeets(OCS(t, p), OCS(t, q))
  /\ \A p \in objs : ~\E q \in Pos(t) : /\ IsNormal(O(t, q)) /\ VSub(OCS(t, q), cs)
                                        /\ VSub(OCS(t, p), OCS(t, q)) /\ ~VSame(OCS(t, p), OCS(t, q))
\* The same three clauses on explicit index sets: when all the sets involved are finite (the cpusets of objects always
\* are) VSame / VMeets / VSub are =, non-empty intersection and \subseteq of the fin components.  Each object's set is
\* built once (F) instead of once per pair of objects - with hundreds of objects the difference is minutes.
\* MC_Calc!LargestEq compares the two formulations.
LargestRelFin(t, objs, F, C) ==
  With(TLCEval({q \in Pos(t) : IsNormal(O(t, q)) /\ F[q] \subseteq C}), LAMBDA Big :
    /\ UNION {F[p] : p \in objs} = C
    /\ \A p \in objs : \A q \in objs : p # q => F[p] \cap F[q] = {}
    /\ \A p \in objs : ~\E q \in Big : F[p] \subseteq F[q] /\ F[p] # F[q])
LargestRel(t, cs, objs) ==
  IF cs.inf \/ \E p \in Pos(t) : OCS(t, p).inf THEN LargestRelRef(t, cs, objs)
  ELSE LargestRelFin(t, TLCEval(objs), TLCEval([p \in Pos(t) |-> TLCEval(OCS(t, p).fin)]), TLCEval(cs.fin))
\* a constructive witness (model-level non-vacuity of LargestRel): greedy from the root
RECURSIVE LargestDo(_, _, _)
LargestDo(t, p, cs) ==
  IF VEmpty(VAnd(OCS(t, p), cs)) THEN {}
  ELSE IF VSub(OCS(t, p), cs) THEN {p}
  ELSE UNION {LargestDo(t, O(t, p).kids[k], cs) : k \in DOMAIN O(t, p).kids}

\* -H t1.t2...: objects of the last type intersecting the set, as "type1:index1.type2:index2" with indexes
\* relative to the parent (or OS indexes)
RECURSIVE HToks(_, _, _, _, _, _, _, _)
HToks(t, lnames, ds, k, scope, set, prefix, lo) ==
  With(SelectSeq(LObjs(t, ds[k]), LAMBDA p : VMeets(OCS(t, p), scope)), LAMBDA cover :
    LET One(j) == LET p == cover[j]
                      s == prefix \o (IF k > 1 THEN "." ELSE "") \o lnames[ds[k] + 1] \o ":"
                           \o (IF lo THEN BS!Dec(j - 1) ELSE IF O(t, p).os = -1 THEN "-1" ELSE BS!Dec(O(t, p).os))
                  IN IF ~VMeets(OCS(t, p), set) THEN <<>>
                     ELSE IF k = Len(ds) THEN << [s |-> s, p |-> p] >>
                     ELSE HToks(t, lnames, ds, k + 1, OCS(t, p), VAnd(set, OCS(t, p)), s, lo)
    IN Flat([j \in DOMAIN cover |-> One(j)]))
HLevels(t, tns) == [k \in DOMAIN tns |-> LevelOfName(t, tns[k])]
\* chains are determined when the types are normal and strictly deeper from left to right
HDet(t, tns) == LET lv == HLevels(t, tns) IN
  /\ \A k \in DOMAIN lv : lv[k].ok /\ lv[k].d >= 0
  /\ \A k \in 1..(Len(lv) - 1) : lv[k].d < lv[k + 1].d

(* -------------------- what hwloc-calc may print and return -------------- *)
\* ev: [lines, rc, sig, san]; last: what the previous invocations of the same location sequence printed
\*     last.I = [tn, po, words] of the latest -I; last.out = words of the latest invocation, last.m its mode
NoCrash(ev) == ev.sig = 0 /\ ev.san = 0 /\ ev.rc \in 0..255 /\ ev.rc < 126
OneLine(ev) == Len(ev.lines) = 1
CalcRel(t, names, st, mode, ev, last) ==
  LET fin == Final(st, mode)
      lnames == names.l
      snames == names.s
  IN
  /\ NoCrash(ev)
  /\ IF mode.m = "badopt" THEN ev.rc # 0                        \* malformed options: non-zero exit status
     ELSE IF mode.m \in {"I", "N"} /\ ~LevelOfName(t, mode.tn).ok THEN ev.rc # 0   \* unknown / unavailable type
     \* -H: "Only normal CPU-side object types should be used" (NUMA nodes are tolerated)
     ELSE IF mode.m = "H" /\ \E k \in DOMAIN mode.tns : ~LevelOfName(t, mode.tns[k]).ok \/ LevelOfName(t, mode.tns[k]).d \in IODepths \cup {-8}
          THEN ev.rc # 0
     ELSE IF st.n = 0 THEN TRUE                                  \* no location: the tool turns to its standard input
     \* a failure needs a reason: an ignored token, a set --largest cannot cover, a feedback of words that are no locations
     ELSE IF ev.rc # 0 THEN st.bad \/ (mode.m = "largest" /\ (~st.det \/ ~VSub(st.cs, VR(t.tcs)))) \/ mode.m \in {"fbL", "fbH"}
     ELSE IF ~st.det THEN TRUE
     ELSE CASE mode.m = "set" ->
                 IF mode.single /\ fin.no THEN TRUE
                 ELSE /\ OneLine(ev)
                      /\ BS!OutOK(IF mode.legacy THEN "taskset" ELSE IF mode.f = "" THEN "hwloc" ELSE mode.f, ev.lines[1],
                                  IF fin.no THEN st.ns ELSE EffCs(st, mode.single))
            [] mode.m = "I" ->
                 LET d == LevelOfName(t, mode.tn).d
                     sep == IF mode.sep = "" THEN "," ELSE mode.sep
                     oo == mode.oo /\ d \notin IODepths
                 IN /\ OneLine(ev)
                    /\ (mode.oo /\ d \in IODepths) \/
                       \E by \in IReadings(t, d) :
                          SameBag(WordsOf(ev.lines[1], sep),
                                  ITexts(t, IObjs(t, d, EffCs(st, mode.single), st.ns, by), fin.lo, oo, snames[LevelIdx(t, d)]))
            [] mode.m = "N" ->
                 LET d == LevelOfName(t, mode.tn).d IN
                 /\ OneLine(ev)
                 /\ \E by \in IReadings(t, d) : ev.lines[1] = BS!Dec(Len(IObjs(t, d, EffCs(st, mode.single), st.ns, by)))
                 \* "-N equals the number of objects -I lists"
                 /\ (last.I.tn = mode.tn /\ last.I.single = mode.single) => ev.lines[1] = BS!Dec(Len(last.I.words))
            [] mode.m = "largest" ->
                 IF ~VSub(st.cs, VR(t.tcs)) THEN TRUE
                 ELSE /\ OneLine(ev)
                      /\ With(WordsOf(ev.lines[1], IF mode.sep = "" THEN " " ELSE mode.sep), LAMBDA ws :
                         With(TLCEval([k \in DOMAIN ws |-> TLCEval(ResolveTok(t, lnames, ws[k], fin.lo))]), LAMBDA cand :
                           /\ fin.lo => \A k \in DOMAIN ws : Cardinality(cand[k]) = 1
                           /\ (\A k \in DOMAIN ws : Cardinality(cand[k]) = 1) =>
                                 /\ LargestRel(t, st.cs, {CHOOSE p \in cand[k] : TRUE : k \in DOMAIN ws})
                                 /\ Cardinality({CHOOSE p \in cand[k] : TRUE : k \in DOMAIN ws}) = Len(ws)))
            [] mode.m = "H" ->
                 IF ~HDet(t, mode.tns) THEN TRUE
                 ELSE LET sep == IF mode.sep = "" THEN " " ELSE mode.sep
                          ds == [k \in DOMAIN mode.tns |-> LevelOfName(t, mode.tns[k]).d]
                      IN /\ OneLine(ev)
                         /\ With(HToks(t, lnames, ds, 1, OCS(t, 1), st.cs, "", fin.lo), LAMBDA exp :
                              SameBag(WordsOf(ev.lines[1], sep), [k \in DOMAIN exp |-> exp[k].s]))
            \* standard input: one output per input line; the same line twice gives the same set twice (whatever the
            \* tool prints before, e.g. its prompt)
            [] mode.m = "stdin" ->
                 LET n == Len(ev.lines) IN
                 /\ n >= 2
                 /\ \A k \in {n - 1, n} : BS!OutOK(IF mode.f = "" THEN "hwloc" ELSE mode.f, ev.lines[k], IF fin.no THEN st.ns ELSE st.cs)
            \* "feeding --largest output back yields the same set" (when every word names one object)
            [] mode.m = "fbL" ->
                 With(FbSplit(last.out, " "), LAMBDA ws :
                 With(TLCEval([k \in DOMAIN ws |-> TLCEval(ResolveTok(t, lnames, ws[k], ~mode.po))]), LAMBDA cand :
                   (last.m = "largest" /\ last.rc = 0 /\ ws # <<>> /\ (st.lo \/ mode.po) /\ VSub(st.cs, VR(t.tcs)) /\ \A k \in DOMAIN ws : Cardinality(cand[k]) = 1)
                    => /\ OneLine(ev) /\ BS!OutOK("hwloc", ev.lines[1], st.cs)))
            \* the -H words fed back into -I <last type> list the same objects as -I <last type> of the original set,
            \* when every such object has an ancestor in each level of the chain
            [] mode.m = "fbH" ->
                 LET ds == [k \in DOMAIN last.tns |-> LevelOfName(t, last.tns[k]).d]
                     dl == ds[Len(ds)]
                 IN
                 With(IF last.m = "H" /\ HDet(t, last.tns) THEN HToks(t, lnames, ds, 1, OCS(t, 1), st.cs, "", TRUE) ELSE <<>>, LAMBDA exp :
                 With({exp[k].p : k \in DOMAIN exp}, LAMBDA finals :
                   (last.m = "H" /\ last.rc = 0 /\ ~last.po /\ st.lo /\ HDet(t, last.tns) /\ mode.tn = last.tns[Len(last.tns)] /\ exp # <<>>)
                    => /\ OneLine(ev)
                       /\ SeqSet(WordsOf(ev.lines[1], ",")) = {BS!Dec(O(t, p).lidx) : p \in finals}
                       /\ (finals = SeqSet(IObjs(t, dl, st.cs, st.ns, FALSE)) /\ last.I.tn = mode.tn /\ ~last.I.po /\ ~last.I.oo /\ ~last.I.single)
                             => SeqSet(WordsOf(ev.lines[1], ",")) = SeqSet(last.I.words)))

(* ------------------------------ hwloc-distrib -------------------------- *)
\* dm = [n, single, f, from, to, reverse]; roots: positions of the objects the distribution starts from;
\* "exactly N sets satisfying the hwloc_distrib guarantees": non-empty, included in the roots' cpusets, the
\* union covers all roots, pairwise disjoint when N does not exceed the number of PUs below the roots
\* (when the distribution may go down to the PUs, i.e. no --to/--at)
DistribArgv(dm) == (IF dm.single THEN <<"--single">> ELSE <<>>) \o (IF dm.f = "" THEN <<>> ELSE <<"--cof", dm.f>>)
                   \o (IF dm.from # "" /\ dm.from = dm.to THEN <<"--at", dm.from>>
                       ELSE (IF dm.from = "" THEN <<>> ELSE <<"--from", dm.from>>) \o (IF dm.to = "" THEN <<>> ELSE <<"--to", dm.to>>))
                   \o (IF dm.reverse THEN <<"--reverse">> ELSE <<>>) \o dm.extra \o (IF dm.n = -1 THEN <<>> ELSE <<BS!Dec(dm.n)>>)
\* R: the set the roots cover; parsed[k] = the set printed on line k
DistribSets(t, dm, ev, fromlv, tolv, R, parsed) ==
  LET S(k) == parsed[k].v IN
          /\ ev.rc = 0
          /\ Len(ev.lines) = dm.n                                           \* exactly N sets
          /\ \A k \in DOMAIN ev.lines : parsed[k].ok /\ ~VEmpty(S(k)) /\ VSub(S(k), R)
          /\ dm.single => \A k \in DOMAIN ev.lines : ~S(k).inf /\ Cardinality(S(k).fin) = 1
          /\ (~dm.single /\ dm.n >= 1) => VSame(VUnion({S(k) : k \in DOMAIN ev.lines}), R)
          \* --to / --at: "distribute down to objects of the given type": no object of that level is split
          /\ (dm.to # "" /\ ~dm.single /\ fromlv.d <= tolv.d) =>
                With(TLCEval([p \in SeqSet(LObjs(t, tolv.d)) |-> OCS(t, p)]), LAMBDA OC :
                  \A k \in DOMAIN ev.lines : \A p \in SeqSet(LObjs(t, tolv.d)) : VMeets(OC[p], S(k)) => VSub(OC[p], S(k)))
          /\ (dm.to = "" /\ dm.n <= Cardinality(R.fin)) =>
                \A j \in DOMAIN ev.lines : \A k \in DOMAIN ev.lines : j # k => ~VMeets(S(j), S(k))
DistribRel(t, dm, ev) ==
  LET f == IF dm.f = "" THEN "hwloc" ELSE dm.f
      fromlv == IF dm.from = "" THEN [ok |-> TRUE, d |-> 0] ELSE LevelOfName(t, dm.from)
      tolv == IF dm.to = "" THEN [ok |-> TRUE, d |-> t.depth] ELSE LevelOfName(t, dm.to)
  IN
  /\ NoCrash(ev)
  /\ IF dm.extra # <<>> \/ dm.n = -1 THEN ev.rc # 0                       \* malformed: unknown option, missing / duplicate number
     ELSE IF ~fromlv.ok \/ ~tolv.ok \/ fromlv.d < 0 \/ tolv.d < 0 THEN ev.rc # 0       \* unknown / unavailable / non-normal type
     ELSE DistribSets(t, dm, ev, fromlv, tolv, VUnion({OCS(t, p) : p \in SeqSet(LObjs(t, fromlv.d))}),
                      TLCEval([k \in DOMAIN ev.lines |-> BS!Parse(f, ev.lines[k], TRUE)]))

(* --------------------------------- lstopo ------------------------------ *)
\* One lstopo command line is the record
\*   lm = [of, dest, filt, xw, sw, copts, extra]
\*   of    output format name: xml | v2xml | v3xml | synthetic | console | bogus (not a format)
\*   dest  how the format / destination is given: "of" (--of F) | "long" (--output-format F) | "dash" (-.F, stdout by
\*         extension) | "file" (<path>.F, a new file) | "filef" (-f <path>.F, an existing file is overwritten)
\*   filt  words of one topology-filtering option (lstopo(1): --filter <type>:<kind> and its documented shorthands)
\*   xw/sw the word given to --export-xml-flags / --export-synthetic-flags ("" = option absent)
\*   copts words of console-only display options; extra: words that make the command line malformed
\* The relations: what the library configuration of the loaded topology is (LsCfg: filters, topology flags, export
\* flags - the helper loads the same input that way), and LstopoRel: the text lstopo wrote is exactly the text the
\* library export returned to the helper for the same topology and flags.
LowerAZ == "abcdefghijklmnopqrstuvwxyz"
UpperAZ == "ABCDEFGHIJKLMNOPQRSTUVWXYZ"
UpCh(c) == LET S == {i \in 1..26 : BS!Ch(LowerAZ, i) = c} IN IF S = {} THEN c ELSE BS!Ch(UpperAZ, CHOOSE i \in S : TRUE)
RECURSIVE Upper(_)
Upper(s) == IF s = "" THEN "" ELSE UpCh(BS!Ch(s, 1)) \o Upper(SubSeq(s, 2, Len(s)))
HasSub(s, p) == \E i \in 1..(Len(s) - Len(p) + 1) : SubSeq(s, i, i + Len(p) - 1) = p
RECURSIVE SumOfSet(_)
SumOfSet(S) == IF S = {} THEN 0 ELSE LET x == CHOOSE x \in S : TRUE IN x + SumOfSet(S \ {x})

\* "Flags may be given as numeric values or as a comma-separated list of flag names ... Those names may be substrings
\* of actual flag names as long as a single one matches ... (or none)": the value of a flags word, -1 when it is malformed
SynFlagNames == << [n |-> "HWLOC_TOPOLOGY_EXPORT_SYNTHETIC_FLAG_NO_EXTENDED_TYPES", v |-> 1],
                   [n |-> "HWLOC_TOPOLOGY_EXPORT_SYNTHETIC_FLAG_NO_ATTRS", v |-> 2],
                   [n |-> "HWLOC_TOPOLOGY_EXPORT_SYNTHETIC_FLAG_V1", v |-> 4],
                   [n |-> "HWLOC_TOPOLOGY_EXPORT_SYNTHETIC_FLAG_IGNORE_MEMORY", v |-> 8] >>
XmlFlagNames == << [n |-> "HWLOC_TOPOLOGY_EXPORT_XML_FLAG_V2", v |-> 2] >>
FlagPiece(p, names) == {k \in DOMAIN names : p # "" /\ HasSub(names[k].n, Upper(p))}
FlagWordVal(txt, names) ==
  IF BS!NumOK(txt) THEN BS!NumVal(txt)
  ELSE IF Upper(txt) = "NONE" THEN 0
  ELSE LET ps == BS!Split(txt, ",") IN
       IF \E k \in DOMAIN ps : Cardinality(FlagPiece(ps[k], names)) # 1 THEN -1
       ELSE SumOfSet({names[CHOOSE j \in FlagPiece(ps[k], names) : TRUE].v : k \in DOMAIN ps})

\* type filters as the helper is given them: "<type number>:<filter number>,..."
FilterKinds == {"all", "none", "structure", "important"}
KindNo(k) == CASE k = "all" -> FILTER_KEEP_ALL [] k = "none" -> FILTER_KEEP_NONE [] k = "structure" -> FILTER_KEEP_STRUCTURE [] OTHER -> FILTER_KEEP_IMPORTANT
TfOf(types, f) == BS!Join([k \in DOMAIN types |-> BS!Dec(types[k]) \o ":" \o BS!Dec(f)], ",")
AllTypesSeq == [ty \in 1..NTYPES |-> ty - 1]
CacheTypesSeq == <<L1, L2, L3, L4, L5, L1I, L2I, L3I, MEMCACHE>>
ICacheTypesSeq == <<L1I, L2I, L3I>>
IOTypesSeq == <<BRIDGE, PCIDEV, OSDEV>>
FiltBad == [ok |-> FALSE, tf |-> "", fl |-> 8]
FiltIs(tf) == [ok |-> TRUE, tf |-> tf, fl |-> 8]
\* lstopo(1): "--filter <type>:<kind>: Filter objects of type <type>, or of any type if <type> is all.  io, cache and
\* icache are also supported"; --no-io = io:none, --whole-io = io:all, --no-bridges = bridge:none, --merge = all:structure,
\* --no-caches = cache:none, --no-useless-caches = cache:structure, --no-icaches = icache:none, --ignore <type> = <type>:none,
\* --no-smt = PU:none.  PUs and NUMA nodes cannot be filtered out of a topology (hwloc_topology_set_type_filter): those
\* options only change what lstopo draws.  fl: the topology flags (IMPORT_SUPPORT, plus INCLUDE_DISALLOWED for --disallowed)
FilterOf(ty, kind) ==
  IF kind \notin FilterKinds THEN FiltBad
  ELSE IF ty = "all" THEN FiltIs(TfOf(AllTypesSeq, KindNo(kind)))
  ELSE IF ty = "io" THEN FiltIs(TfOf(IOTypesSeq, KindNo(kind)))
  ELSE IF ty = "cache" THEN FiltIs(TfOf(CacheTypesSeq, KindNo(kind)))
  ELSE IF ty = "icache" THEN FiltIs(TfOf(ICacheTypesSeq, KindNo(kind)))
  ELSE IF TypeOfName(ty) = -1 THEN FiltBad
  ELSE IF TypeOfName(ty) \in {PU, NUMANODE} THEN FiltIs("")
  ELSE FiltIs(TfOf(<<TypeOfName(ty)>>, KindNo(kind)))
FiltOf(w) ==
  CASE w = <<>> -> FiltIs("")
    [] w = <<"--merge">> -> FilterOf("all", "structure")
    [] w = <<"--no-io">> -> FilterOf("io", "none")
    [] w = <<"--whole-io">> -> FilterOf("io", "all")
    [] w = <<"--no-bridges">> -> FilterOf("bridge", "none")
    [] w = <<"--no-caches">> -> FilterOf("cache", "none")
    [] w = <<"--no-useless-caches">> -> FilterOf("cache", "structure")
    [] w = <<"--no-icaches">> -> FilterOf("icache", "none")
    [] w = <<"--no-smt">> -> FilterOf("pu", "none")
    [] w \in {<<"--disallowed">>, <<"--whole-system">>} -> [ok |-> TRUE, tf |-> "", fl |-> 9]
    [] Len(w) = 2 /\ w[1] = "--filter" ->
         LET ps == BS!Split(w[2], ":") IN IF Len(ps) # 2 THEN FiltBad ELSE FilterOf(ps[1], ps[2])
    [] Len(w) = 2 /\ w[1] = "--ignore" -> IF w[2] \in {"cache", "all", "io", "icache"} THEN FiltBad ELSE FilterOf(w[2], "none")
    [] OTHER -> FiltBad

LsOfs == {"xml", "v2xml", "v3xml", "synthetic", "console", "bogus"}
LsDests == {"of", "long", "dash", "file", "filef"}
LsIsXml(lm) == lm.of \in {"xml", "v2xml", "v3xml"}
LsXmlVal(lm) == IF lm.xw = "" THEN 0 ELSE FlagWordVal(lm.xw, XmlFlagNames)
LsSynVal(lm) == IF lm.sw = "" THEN 0 ELSE FlagWordVal(lm.sw, SynFlagNames)
\* "Output formats v2xml and v3xml may also be used to specify which XML version is desired" (after the flags option)
LsXmlFlags(lm) == LET v == LsXmlVal(lm)  has == (v \div 2) % 2 = 1 IN
  CASE lm.of = "v2xml" -> IF has THEN v ELSE v + 2
    [] lm.of = "v3xml" -> IF has THEN v - 2 ELSE v
    [] OTHER -> v
LsMalformed(lm) == \/ lm.extra # <<>> \/ lm.of = "bogus" \/ ~FiltOf(lm.filt).ok
                   \/ LsXmlVal(lm) = -1 \/ LsSynVal(lm) = -1
LmOK(lm) == /\ lm.of \in LsOfs /\ lm.dest \in LsDests
            /\ \A k \in DOMAIN lm.filt : Len(lm.filt[k]) >= 0
            /\ \A k \in DOMAIN lm.copts : Len(lm.copts[k]) >= 0
            /\ \A k \in DOMAIN lm.extra : Len(lm.extra[k]) >= 0
            /\ Len(lm.xw) >= 0 /\ Len(lm.sw) >= 0
\* the library configuration of the topology lstopo exports: [tf, fl, xmlf, synf] (-1: no such export)
LsCfg(lm) == LET bad == LsMalformed(lm) IN
  [tf |-> IF bad THEN "" ELSE FiltOf(lm.filt).tf,
   fl |-> IF bad THEN 8 ELSE FiltOf(lm.filt).fl,
   xmlf |-> IF ~bad /\ LsIsXml(lm) THEN LsXmlFlags(lm) ELSE -1,
   synf |-> IF ~bad /\ lm.of = "synthetic" THEN LsSynVal(lm) ELSE -1]
\* the command line after the input options; outfile: the path given for dest file / filef (its extension names the format)
LsDestArgv(lm, outfile) ==
  CASE lm.dest = "of" -> <<"--of", lm.of>>
    [] lm.dest = "long" -> <<"--output-format", lm.of>>
    [] lm.dest = "dash" -> <<"-." \o lm.of>>
    [] lm.dest = "file" -> <<outfile>>
    [] lm.dest = "filef" -> <<"-f", outfile>>
LstopoArgv(lm, outfile) ==
  lm.filt \o (IF lm.xw = "" THEN <<>> ELSE <<"--export-xml-flags", lm.xw>>)
          \o (IF lm.sw = "" THEN <<>> ELSE <<"--export-synthetic-flags", lm.sw>>)
          \o lm.copts \o lm.extra \o LsDestArgv(lm, outfile)
EndsWith(s, p) == Len(s) >= Len(p) /\ SubSeq(s, Len(s) - Len(p) + 1, Len(s)) = p
\* ev.text / ev.lines: what lstopo wrote to its destination (standard output, or the file for dest file / filef)
LstopoRel(lib, lm, ev) ==
  /\ NoCrash(ev)
  /\ IF LsMalformed(lm) THEN ev.rc # 0                                       \* malformed arguments, unknown output format
     ELSE IF LsIsXml(lm) THEN
        IF lib.xmlret < 0 THEN ev.rc # 0
        ELSE ev.rc = 0 /\ ev.text = lib.xml
     ELSE IF lm.of = "synthetic" THEN
        IF lib.synret < 0 THEN ev.rc # 0
        ELSE ev.rc = 0 /\ ev.lines = <<lib.syn>>
     ELSE TRUE                                                               \* console: the rendering is not specified here
\* "and reload to an equivalent topology": projections equal up to what the export format does not carry
ObjView(o) == [type |-> o.type, os |-> o.os, depth |-> o.depth, lidx |-> o.lidx, cs |-> o.cs, ns |-> o.ns, ccs |-> o.ccs, cns |-> o.cns,
               parent |-> o.parent, kids |-> o.kids, mem |-> o.mem, io |-> o.io, misc |-> o.misc, st |-> o.st, name |-> o.name,
               attr |-> o.attr, tmem |-> o.tmem, infos |-> o.infos]
TopoView(t) == [objs |-> [p \in Pos(t) |-> ObjView(O(t, p))], depth |-> t.depth, tcs |-> t.tcs, tns |-> t.tns, tacs |-> t.tacs, tans |-> t.tans]
\* a synthetic description carries the types, the arities and the PU / NUMA node indexes (seen in the sets)
SynLevel(t, d) == [k \in DOMAIN LObjs(t, d) |-> LET o == O(t, LObjs(t, d)[k]) IN [type |-> o.type, cs |-> o.cs, ns |-> o.ns, arity |-> o.arity, marity |-> o.marity]]
PUView(t) == [k \in DOMAIN LObjs(t, t.depth - 1) |-> O(t, LObjs(t, t.depth - 1)[k]).cs]
StructLevel(t, d) == [k \in DOMAIN LObjs(t, d) |-> LET o == O(t, LObjs(t, d)[k]) IN [type |-> o.type, arity |-> o.arity, marity |-> o.marity]]
StructView(t) == [depth |-> t.depth, levels |-> [d \in 0..(t.depth - 1) |-> StructLevel(t, d)], numa |-> Len(LObjs(t, -3))]
SynView(t) == [depth |-> t.depth, levels |-> [d \in 0..(t.depth - 1) |-> SynLevel(t, d)], numa |-> SynLevel(t, -3)]
=============================================================================
