--------------------------- MODULE MC_Concurrency ---------------------------
(* model-checking configurations of Concurrency.tla: see MC_Concurrency_ok.cfg (documented discipline: the three
   properties are invariants) and MC_Concurrency_race.cfg (no discipline: TLC must find the reader write) *)
EXTENDS Concurrency
R == {"r1", "r2", "r3"}
I == {"i1", "i2"}
=============================================================================
