---------------------------- MODULE MC_Bitmap_q ----------------------------
(* quick configuration: two 64-bit words, singletons at the word edges     *)
EXTENDS MC_Bitmap
QLo == <<0, 1, 63, 64, 65>>
QHi == <<0, 62, 63, 64, 127>>
=============================================================================
