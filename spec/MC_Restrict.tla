---------------------------- MODULE MC_Restrict ----------------------------
(***************************************************************************)
(* Design-level model of hwloc_topology_restrict on the resources of a     *)
(* topology (C08): the surviving PUs and NUMA nodes and the allowed sets,  *)
(* for a locality map given as constants.  It enumerates every (flag word, *)
(* set) pair, once and twice, checks that the documented failure           *)
(* conditions are exactly what keeps the topology non-empty, and that      *)
(* restriction is monotone and composes by intersection; every edge of the *)
(* state graph is emitted as a behaviour for replay on the real library,   *)
(* where TopoOps!RestrictRel judges the full object tree.                  *)
(***************************************************************************)
EXTENDS TopoOps, Json, TLC

CONSTANTS PUs,        \* set of PU os_index
          Nodes,      \* set of NUMA os_index
          NodeCpus,   \* [Nodes -> SUBSET PUs]   locality of each node
          SetChoices, \* sequence of argument sets, each a sequence of <<lo,hi>> ranges (hi = -1: infinite)
          FlagWords,  \* set of flag words
          MaxSteps, NStripes, Stripe
VARIABLES pus, nodes, steps, hist

Init == pus = PUs /\ nodes = Nodes /\ steps = 0 /\ hist = <<>>

Keep(r, x) == InR(r, x)
NodeCs(n, p) == NodeCpus[n] \cap p                       \* cpuset of node n when the PUs p remain
PuNs(c, ns) == {n \in ns : c \in NodeCpus[n]}            \* local nodes of PU c among ns

\* outcome of restrict(flags f, set number k): <<ret, pus', nodes'>>
Outcome(f, k) ==
  LET r == SetChoices[k]
      bynode == Bit(f, R_BYNODESET)
      p2 == IF bynode THEN (IF Bit(f, R_REMOVE_MEMLESS)
                            THEN {c \in pus : PuNs(c, {n \in nodes : Keep(r, n)}) # {}} ELSE pus)
            ELSE {c \in pus : Keep(r, c)}
      n2 == IF bynode THEN {n \in nodes : Keep(r, n)}
            ELSE (IF Bit(f, R_REMOVE_CPULESS) THEN {n \in nodes : NodeCs(n, p2) # {}} ELSE nodes)
      mustfail == RBadFlags(f) \/ (IF bynode THEN {n \in nodes : Keep(r, n)} = {} ELSE {c \in pus : Keep(r, c)} = {})
      mayfail == p2 = {} \/ n2 = {}
  IN IF mustfail \/ mayfail THEN <<-1, pus, nodes>> ELSE <<0, p2, n2>>

Restrict(f, k) ==
  LET o == Outcome(f, k) IN
  /\ steps < MaxSteps
  /\ pus' = o[2] /\ nodes' = o[3] /\ steps' = steps + 1
  /\ hist' = Append(hist, <<f, k, o[1]>>)

Next == \E f \in FlagWords, k \in DOMAIN SetChoices : Restrict(f, k)
Spec == Init /\ [][Next]_<<pus, nodes, steps, hist>>
StateView == <<pus, nodes, steps>>

\* the failure conditions keep the topology loadable: PUs and NUMA nodes never vanish entirely
NeverEmpty == pus # {} /\ nodes # {}
Monotone == pus \subseteq PUs /\ nodes \subseteq Nodes
\* restricting by cpuset without REMOVE flags composes by intersection (checked on the history)
ComposeOK == \A i \in DOMAIN hist : (hist[i][1] \in {0, 2, 4, 6} /\ hist[i][3] = 0) => \A c \in pus : Keep(SetChoices[hist[i][2]], c)

RECURSIVE HSum(_)
HSum(h) == IF h = <<>> THEN 0 ELSE (Head(h)[1] * 7 + Head(h)[2] * 3 + 1) + 5 * HSum(Tail(h))
EmitEdge == (HSum(hist') % NStripes = Stripe) => PrintT(<<"EDGE", ToJson(hist')>>)
=============================================================================
