---------------------------- MODULE TraceBitmap ----------------------------
(***************************************************************************)
(* Trace validation for C03: every line recorded from the real library by  *)
(* harness/hwv_bitmap must be explained by the BitmapOps register machine. *)
(* All fields are logged, so the search is linear in the trace length.     *)
(***************************************************************************)
EXTENDS BitmapOps, Json, IOUtils

T == ndJsonDeserialize(IOEnv.TRACE)

VARIABLES l, m, reg

RangesOf(js) == [k \in 1..Len(js) |-> <<js[k][1], js[k][2]>>]
\* a logged range list is accepted only if it denotes a union of blocks
Val(js) == RangesVal(m, RangesOf(js))
Exact(js) == RangesAligned(m, RangesOf(js))
\* a logged 64-bit word (list of bit ranges) as a set of bit positions
WordSet(js) == UNION {js[k][1]..js[k][2] : k \in 1..Len(js)}

Init == l = 1 /\ m = [lo |-> <<0>>, hi |-> <<0>>] /\ reg = <<>>

IsEvent(e) == l <= Len(T) /\ T[l].e = e /\ l' = l + 1

TReset == /\ IsEvent("Reset")
          /\ LET mm == [lo |-> T[l].lo, hi |-> T[l].hi] IN
               /\ MapOK(mm)
               /\ m' = mm
               /\ reg' = [r \in 1..T[l].R |-> [v |-> Empty, cnt |-> 1]]

TOp == /\ IsEvent("op")
       /\ LET e == T[l]
              bl == IF e.r = <<>> THEN {} ELSE Val(e.r).s
              o == Op(e.op, e.d, e.a, e.b, e.x, e.y, bl)
              nreg == ApplyOp(m, reg, o)
          IN /\ e.r # <<>> => Exact(e.r)
             /\ e.ret = 0
             /\ Exact(e.res)
             /\ Val(e.res) = nreg[e.d].v                       \* the destination is the set-theoretic result
             /\ \A r \in 1..Len(reg) :                          \* and no other register moved (aliasing included)
                   Exact(e.all[r]) /\ Val(e.all[r]) = nreg[r].v
             /\ reg' = nreg
       /\ UNCHANGED m

UnaryOK(u) ==
  LET a == reg[u.r].v IN
  /\ (u.iszero = 1) = IsZero(a)
  /\ (u.isfull = 1) = IsFull(m, a)
  /\ u.first = First(m, a)
  /\ u.last = Last(m, a)
  /\ u.weight = Weight(m, a)
  /\ u.nr = NrUlongs(m, a)
  /\ u.first_unset = FirstUnset(m, a)
  /\ u.last_unset = LastUnset(m, a)
  /\ WordSet(u.to_ulong) = WordBits(m, a, 0)
  /\ \A k \in 1..Len(u.probes) :
        LET pr == u.probes[k] IN
        /\ pr[1] >= 0 => ((pr[2] = 1) = Elem(m, a, pr[1]))
        /\ pr[3] = NextIn(m, a, pr[1])
        /\ pr[4] = NextUnset(m, a, pr[1])
  /\ \A k \in 1..Len(u.words) : WordSet(u.words[k][2]) = WordBits(m, a, u.words[k][1])
  /\ \A k \in 1..Len(u.ulongs) : WordSet(u.ulongs[k]) = WordBits(m, a, k - 1)

PairOK(p) ==
  LET a == reg[p.a].v  b == reg[p.b].v IN
  /\ (p.eq = 1) = IsEqual(a, b)
  /\ (p.incl = 1) = IsIncluded(a, b)
  /\ (p.inter = 1) = Intersects(a, b)
  /\ p.cmp = Compare(a, b)
  /\ p.cmpf = CompareFirst(m, a, b)
  /\ p.cmpi = CompareInclusion(a, b)

TBattery == /\ IsEvent("battery")
            /\ \A k \in 1..Len(T[l].u) : UnaryOK(T[l].u[k])
            /\ \A k \in 1..Len(T[l].p) : PairOK(T[l].p[k])
            /\ UNCHANGED <<m, reg>>

Next == TReset \/ TOp \/ TBattery
Spec == Init /\ [][Next]_<<l, m, reg>>

Accepted == TLCGet("stats").diameter - 1 = Len(T)
=============================================================================
