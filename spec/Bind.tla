------------------------------- MODULE Bind -------------------------------
(***************************************************************************)
(* C10 - binding calls validate their arguments, hand only legal sets to   *)
(* the operating system, and round-trip.                                   *)
(*                                                                         *)
(* This module is the ORACLE: Rel(tp, st, c, r) relates                    *)
(*   tp  the topology as seen through the public API                       *)
(*       [ts    is_thissystem (TRUE: OS hooks, FALSE: dummy hooks),        *)
(*        cs,cc,ca   topology / complete / allowed cpuset,                 *)
(*        ns,nc,na   topology / complete / allowed nodeset,                *)
(*        nodes      set of [os, cpus] (NUMA node objects),                *)
(*        hooks      fields of hwloc_topology_get_support() that are 1:    *)
(*                   the binding hooks that exist, the policies announced, *)
(*        kallowed   CPUs the kernel lets this process run on,             *)
(*        kmems      NUMA nodes the kernel lets this process allocate on], *)
(*   st  the state before the call                                         *)
(*       [aff  thread name -> kernel affinity of that thread,              *)
(*        mp   kernel memory policy of the calling thread (opaque),        *)
(*        mb   what get_membind must report (API-level round trip),        *)
(*        ab   what get_area_membind must report for the test buffer],     *)
(*   c   the call [op, flags, set, pol, tgt, len],                         *)
(*   r   what was observed [ret, err, out, opol, sys, nq, aff, mp]:        *)
(*       return value (0 / -1; for alloc_membind 0 = non-NULL), errno      *)
(*       name, output set and policy, the sequence sys of state-changing   *)
(*       system calls issued between call and return (each [k, t, mask,    *)
(*       ret, err]), the number nq of querying system calls, and the       *)
(*       kernel affinity / memory policy read back after the call.         *)
(*                                                                         *)
(* Sets are plain sets of integers.  The same operators are used by the    *)
(* bounded model (MC_Bind, abstract atoms) and by trace validation         *)
(* (TraceBind, concrete OS indexes).  Each entry point is split the way    *)
(* hwloc/bind.c is: CheckFlags -> FixSet -> Dispatch.                      *)
(***************************************************************************)
EXTENDS Integers, Sequences, FiniteSets

CB_PROCESS == 1  CB_THREAD == 2  CB_STRICT == 4  CB_NOMEMBIND == 8  CB_ALL == 15
MB_PROCESS == 1  MB_THREAD == 2  MB_STRICT == 4  MB_MIGRATE == 8
MB_NOCPUBIND == 16  MB_BYNODESET == 32  MB_ALL == 63
P_DEFAULT == 0  P_FIRSTTOUCH == 1  P_BIND == 2  P_INTERLEAVE == 3
P_NEXTTOUCH == 4  P_WEIGHTED == 5  P_MIXED == -1

HasBit(f, b) == f >= 0 /\ (f \div b) % 2 = 1
\* CheckFlags: a bit outside the documented mask (all+1 is a power of two)
Unknown(f, all) == f < 0 \/ f \div (all + 1) # 0
PolicyOK(p) == p \in {P_DEFAULT, P_FIRSTTOUCH, P_BIND, P_INTERLEAVE, P_NEXTTOUCH, P_WEIGHTED}

CpuSetOps  == {"set_cpubind", "set_proc_cpubind", "set_thread_cpubind"}
CpuGetOps  == {"get_cpubind", "get_proc_cpubind", "get_thread_cpubind",
               "get_last_cpu_location", "get_proc_last_cpu_location"}
MemSetOps  == {"set_membind", "set_proc_membind", "set_area_membind", "alloc_membind"}
MemGetOps  == {"get_membind", "get_proc_membind", "get_area_membind", "get_area_memlocation"}
AllOps     == CpuSetOps \cup CpuGetOps \cup MemSetOps \cup MemGetOps \cup {"load"}

(* ------------------------------------------------------------------ *)
(* FixSet                                                              *)
(* ------------------------------------------------------------------ *)
CpuBad(tp, S) == S = {} \/ ~(S \subseteq tp.cc)
CpuFix(tp, S) == IF tp.cs \subseteq S THEN tp.cc ELSE S

\* documented helpers hwloc_cpuset_to_nodeset / hwloc_cpuset_from_nodeset
NodesOf(tp, S) == {n.os : n \in {m \in tp.nodes : m.cpus \cap S # {}}}
CpusOf(tp, N)  == UNION {n.cpus : n \in {m \in tp.nodes : m.os \in N}}

ByNode(c) == HasBit(c.flags, MB_BYNODESET)
MemSetBad(tp, c) == IF ByNode(c) THEN c.set = {} \/ ~(c.set \subseteq tp.nc)
                    ELSE c.set = {} \/ ~(c.set \subseteq tp.cc)
\* a valid cpuset that touches no NUMA node: the result is not documented
Unmappable(tp, c) == ~ByNode(c) /\ ~(tp.cs \subseteq c.set) /\ NodesOf(tp, c.set) = {}
MemFix(tp, c) ==
  LET N == IF ByNode(c) THEN c.set
           ELSE IF tp.cs \subseteq c.set THEN tp.nc ELSE NodesOf(tp, c.set)
  IN IF tp.ns \subseteq N THEN tp.nc ELSE N

(* ------------------------------------------------------------------ *)
(* outcome classes                                                     *)
(* ------------------------------------------------------------------ *)
\* nothing reached the operating system and nothing changed
Untouched(st, r) == r.sys = <<>> /\ r.nq = 0 /\ r.aff = st.aff /\ r.mp = st.mp
\* queries only
Quiet(st, r)     == r.sys = <<>> /\ r.aff = st.aff /\ r.mp = st.mp
Einval(st, r)    == r.ret = -1 /\ r.err = "EINVAL" /\ Untouched(st, r)
Enosys(st, r)    == r.ret = -1 /\ r.err = "ENOSYS" /\ Untouched(st, r)
DummyOK(st, r)   == r.ret = 0 /\ Untouched(st, r)
Refused(st, r)   == r.ret = -1 /\ Untouched(st, r)

WholeCpu(tp, S)  == tp.cs \subseteq S /\ S \subseteq tp.cc
WholeNode(tp, S) == tp.ns \subseteq S /\ S \subseteq tp.nc
WholeMem(tp, c, S) == IF ByNode(c) THEN WholeNode(tp, S)
                      ELSE CpusOf(tp, tp.ns) \subseteq S /\ S \subseteq tp.cc

(* ------------------------------------------------------------------ *)
(* Dispatch: which of the process-wide / thread hooks may serve a call *)
(* ------------------------------------------------------------------ *)
Ambig(f, P, T) == HasBit(f, P) /\ HasBit(f, T)   \* combination not defined by the documentation
Lv(f, P, T) == IF HasBit(f, P) /\ ~HasBit(f, T) THEN {"proc"}
               ELSE IF HasBit(f, T) /\ ~HasBit(f, P) THEN {"thread"}
               ELSE {"proc", "thread"}            \* 0: "whichever is available"
Can(tp, f, P, T, hp, ht) ==
  {l \in Lv(f, P, T) : (l = "proc" /\ hp \in tp.hooks) \/ (l = "thread" /\ ht \in tp.hooks)}
Threads(st) == DOMAIN st.aff
Targets(st, l) == IF l = "proc" THEN Threads(st) ELSE {"main"}

(* ------------------------------------------------------------------ *)
(* native CPU binding                                                  *)
(* ------------------------------------------------------------------ *)
Ok(r, t) == \E i \in 1..Len(r.sys) : r.sys[i].k = "setaff" /\ r.sys[i].t = t /\ r.sys[i].ret = 0

\* every mask handed to the OS is the validated, fixed set, for the right threads
OnlyLegalAff(r, F, T) == \A i \in 1..Len(r.sys) :
                            r.sys[i].k = "setaff" /\ r.sys[i].mask = F /\ r.sys[i].t \in T
SetSucceeds(r, T)     == r.ret = 0 => \A t \in T : Ok(r, t)
SetFailsOnlyByOS(r)   == r.ret = -1 => \E i \in 1..Len(r.sys) : r.sys[i].ret # 0
\* the live guarantee: a non-empty subset of what the kernel allows can be bound
LiveBind(tp, r, F)    == F \subseteq tp.kallowed => r.ret = 0
AffAfter(tp, st, r, F) == \A t \in Threads(st) :
                            IF Ok(r, t)
                            THEN r.aff[t] # {} /\ r.aff[t] \subseteq F /\ (F \subseteq tp.kallowed => r.aff[t] = F)
                            ELSE r.aff[t] = st.aff[t]

NativeSetAff(tp, st, F, T, r) ==
  /\ r.ret \in {0, -1}
  /\ OnlyLegalAff(r, F, T)
  /\ SetSucceeds(r, T)
  /\ SetFailsOnlyByOS(r)
  /\ LiveBind(tp, r, F)
  /\ AffAfter(tp, st, r, F)
  /\ r.mp = st.mp

\* read back: what the kernel holds, as far as the topology can name it
ReadsBack(tp, U, S) == S \subseteq U /\ (U \cap tp.cc) \subseteq S
NativeGetAff(tp, st, T, strict, r) ==
  LET U    == UNION {st.aff[t] : t \in T}
      same == \A t1, t2 \in T : st.aff[t1] = st.aff[t2]
      diff == \E t1, t2 \in T : st.aff[t1] \cap tp.cc # st.aff[t2] \cap tp.cc
  IN /\ Quiet(st, r)
     \* (the errno of a STRICT mismatch is documented for memory binding only)
     /\ IF strict /\ diff THEN r.ret = -1
        ELSE IF strict /\ ~same THEN r.ret = -1 \/ (r.ret = 0 /\ ReadsBack(tp, U, r.out))
        ELSE r.ret = 0 /\ ReadsBack(tp, U, r.out)

\* last location: inside the binding of the calling thread
NativeLastLoc(tp, st, T, r) ==
  /\ Quiet(st, r)
  /\ r.ret = 0
  /\ r.out # {}
  /\ IF T = {"main"} \/ Threads(st) = {"main"} THEN r.out \subseteq st.aff["main"]
     ELSE \* a sleeping thread is migrated lazily: only the caller is pinned down
          /\ (T = Threads(st)) => r.out \cap st.aff["main"] # {}
          /\ Cardinality(r.out) <= Cardinality(T)

(* ------------------------------------------------------------------ *)
(* CPU binding entry points                                            *)
(* ------------------------------------------------------------------ *)
RelSetCpubind(tp, st, c, r) ==
  IF Unknown(c.flags, CB_ALL) \/ CpuBad(tp, c.set) THEN Einval(st, r)
  ELSE IF ~tp.ts THEN DummyOK(st, r)
  ELSE LET F   == CpuFix(tp, c.set)
           can == Can(tp, c.flags, CB_PROCESS, CB_THREAD, "set_thisproc_cpubind", "set_thisthread_cpubind")
       IN IF can = {} THEN Enosys(st, r)
          ELSE \/ \E l \in can : NativeSetAff(tp, st, F, Targets(st, l), r)
               \/ Ambig(c.flags, CB_PROCESS, CB_THREAD) /\ Refused(st, r)

RelGetCpubind(tp, st, c, r) ==
  IF Unknown(c.flags, CB_ALL) THEN Einval(st, r)
  ELSE IF ~tp.ts THEN DummyOK(st, r) /\ WholeCpu(tp, r.out)
  ELSE LET can == Can(tp, c.flags, CB_PROCESS, CB_THREAD, "get_thisproc_cpubind", "get_thisthread_cpubind")
       IN IF can = {} THEN Enosys(st, r)
          ELSE \/ \E l \in can : NativeGetAff(tp, st, Targets(st, l), l = "proc" /\ HasBit(c.flags, CB_STRICT), r)
               \/ Ambig(c.flags, CB_PROCESS, CB_THREAD) /\ Refused(st, r)

RelLastLoc(tp, st, c, r) ==
  IF Unknown(c.flags, CB_ALL) THEN Einval(st, r)
  ELSE IF ~tp.ts THEN DummyOK(st, r) /\ WholeCpu(tp, r.out)
  ELSE LET can == Can(tp, c.flags, CB_PROCESS, CB_THREAD,
                      "get_thisproc_last_cpu_location", "get_thisthread_last_cpu_location")
       IN IF can = {} THEN Enosys(st, r)
          ELSE \/ \E l \in can : NativeLastLoc(tp, st, Targets(st, l), r)
               \/ Ambig(c.flags, CB_PROCESS, CB_THREAD) /\ Refused(st, r)

\* pid-based calls (the pid is the tid of thread c.tgt; on Linux THREAD means "that thread only")
PidTargets(st, c) == IF HasBit(c.flags, CB_THREAD) THEN {c.tgt} ELSE Threads(st)

RelSetProcCpubind(tp, st, c, r) ==
  IF Unknown(c.flags, CB_ALL) \/ CpuBad(tp, c.set) THEN Einval(st, r)
  ELSE IF ~tp.ts THEN DummyOK(st, r)
  ELSE IF "set_proc_cpubind" \notin tp.hooks THEN Enosys(st, r)
  ELSE NativeSetAff(tp, st, CpuFix(tp, c.set), PidTargets(st, c), r)

RelGetProcCpubind(tp, st, c, r) ==
  IF Unknown(c.flags, CB_ALL) THEN Einval(st, r)
  ELSE IF ~tp.ts THEN DummyOK(st, r) /\ WholeCpu(tp, r.out)
  ELSE IF "get_proc_cpubind" \notin tp.hooks THEN Enosys(st, r)
  ELSE NativeGetAff(tp, st, PidTargets(st, c), ~HasBit(c.flags, CB_THREAD) /\ HasBit(c.flags, CB_STRICT), r)

RelProcLastLoc(tp, st, c, r) ==
  IF Unknown(c.flags, CB_ALL) THEN Einval(st, r)
  ELSE IF ~tp.ts THEN DummyOK(st, r) /\ WholeCpu(tp, r.out)
  ELSE IF "get_proc_last_cpu_location" \notin tp.hooks THEN Enosys(st, r)
  ELSE NativeLastLoc(tp, st, PidTargets(st, c), r)

\* pthread-based calls; HWLOC_CPUBIND_PROCESS "can not be used": then only harmlessness is required
RelSetThreadCpubind(tp, st, c, r) ==
  IF Unknown(c.flags, CB_ALL) \/ CpuBad(tp, c.set) THEN Einval(st, r)
  ELSE IF ~tp.ts THEN DummyOK(st, r)
  ELSE IF "set_thread_cpubind" \notin tp.hooks THEN Enosys(st, r)
  ELSE \/ NativeSetAff(tp, st, CpuFix(tp, c.set), {c.tgt}, r)
       \/ HasBit(c.flags, CB_PROCESS) /\ Refused(st, r)

RelGetThreadCpubind(tp, st, c, r) ==
  IF Unknown(c.flags, CB_ALL) THEN Einval(st, r)
  ELSE IF ~tp.ts THEN DummyOK(st, r) /\ WholeCpu(tp, r.out)
  ELSE IF "get_thread_cpubind" \notin tp.hooks THEN Enosys(st, r)
  ELSE \/ NativeGetAff(tp, st, {c.tgt}, FALSE, r)
       \/ HasBit(c.flags, CB_PROCESS) /\ Refused(st, r)

(* ------------------------------------------------------------------ *)
(* native memory binding                                               *)
(* ------------------------------------------------------------------ *)
\* the only node masks that may reach the OS: none (policy without nodes) or the fixed nodeset
OnlyLegalMem(r, N, kinds) == \A i \in 1..Len(r.sys) :
                               /\ r.sys[i].k \in kinds
                               /\ r.sys[i].t = "main"
                               /\ r.sys[i].mask = {} \/ r.sys[i].mask = N
Done(r, k, N) == \E i \in 1..Len(r.sys) : r.sys[i].k = k /\ r.sys[i].mask = N /\ r.sys[i].ret = 0
NodePolicy(p) == p \in {P_BIND, P_INTERLEAVE, P_WEIGHTED}

(* A request that constrains nothing - DEFAULT ("the nodeset argument is ignored") or a set that covers the   *)
(* whole topology (replaced by the complete set; what FIRSTTOUCH "should usually" be called with) - can always *)
(* be enforced: EXDEV / EINVAL do not apply to it.  The library may decline it before the OS only as "not      *)
(* supported" (ENOSYS), and not even that when hwloc_topology_get_support() announces the policy (and MIGRATE  *)
(* if asked for; NOCPUBIND "may reduce the support"): then the request reaches the OS and the OS decides.      *)
(* tp.hooks holds every field of the support structure that is 1.                                              *)
PolicyBit(p) == CASE p = P_FIRSTTOUCH -> "firsttouch_membind" [] p = P_BIND -> "bind_membind"
                  [] p = P_INTERLEAVE -> "interleave_membind" [] p = P_WEIGHTED -> "weighted_interleave_membind"
                  [] p = P_NEXTTOUCH -> "nexttouch_membind" [] OTHER -> "-"
Announced(tp, c) == /\ PolicyBit(c.pol) \in tp.hooks
                    /\ HasBit(c.flags, MB_MIGRATE) => "migrate_membind" \in tp.hooks
                    /\ ~HasBit(c.flags, MB_NOCPUBIND)
Unconstrained(tp, c) == c.pol = P_DEFAULT \/ MemFix(tp, c) = tp.nc
WholeServed(tp, c, r) ==
  (Unconstrained(tp, c) /\ r.sys = <<>>) => /\ ~Announced(tp, c)
                                            /\ r.ret = -1 => r.err = "ENOSYS"

NativeSetMem(tp, st, c, r, kinds, how, must) ==
  LET N == MemFix(tp, c) IN
  /\ r.ret \in {0, -1}
  /\ WholeServed(tp, c, r)
  /\ OnlyLegalMem(r, N, kinds)
  /\ r.aff = st.aff
  /\ (~\E i \in 1..Len(r.sys) : r.sys[i].k = "set_mempolicy" /\ r.sys[i].ret = 0) => r.mp = st.mp
  /\ (must /\ r.ret = 0 /\ NodePolicy(c.pol)) => Done(r, how, N)      \* success means the OS was told

MemArgsBad(c) == Unknown(c.flags, MB_ALL) \/ ~PolicyOK(c.pol)

(* ------------------------------------------------------------------ *)
(* "replaces a set that covers the whole topology by the complete set" *)
(* and the documented cpuset -> nodeset conversion, as an equivalence: *)
(* a memory binding request is handled as its CANONICAL form, the      *)
(* nodeset flavour with the fixed set.  Whatever hwloc hands to the OS *)
(* and answers is a function of the canonical form and of what the OS  *)
(* answered, so two requests with the same canonical form must be      *)
(* handled alike (also where no node mask reaches the OS: FIRSTTOUCH,  *)
(* DEFAULT, a refusal before the OS).                                  *)
(* ------------------------------------------------------------------ *)
Fixable(tp, c) == c.op \in MemSetOps /\ ~MemArgsBad(c) /\ ~MemSetBad(tp, c) /\ ~Unmappable(tp, c)
CanonCall(tp, c) == [c EXCEPT !.flags = IF ByNode(c) THEN c.flags ELSE c.flags + MB_BYNODESET,
                              !.set   = MemFix(tp, c)]
\* a, b: [ret, err, sys] of two requests with the same canonical form.  The requests made to the OS are the
\* same up to and including the first one the OS answered differently; if the OS never answered differently the
\* whole exchange and the result are the same.
SameHandling(a, b) ==
  LET n    == IF Len(a.sys) < Len(b.sys) THEN Len(a.sys) ELSE Len(b.sys)
      Req(x) == <<x.k, x.t, x.mask>>
      d    == {i \in 1..n : a.sys[i] # b.sys[i]}
  IN IF d = {} THEN Len(a.sys) = Len(b.sys) /\ a.ret = b.ret /\ (a.ret = -1 => a.err = b.err)
     ELSE LET i == CHOOSE j \in d : \A k \in d : j <= k IN Req(a.sys[i]) = Req(b.sys[i])
Handling(r) == [ret |-> r.ret, err |-> r.err, sys |-> r.sys]

RelSetMembind(tp, st, c, r) ==
  IF MemArgsBad(c) \/ MemSetBad(tp, c) THEN Einval(st, r)
  ELSE IF Unmappable(tp, c) THEN Refused(st, r)
  ELSE IF ~tp.ts THEN DummyOK(st, r)
  ELSE LET can == Can(tp, c.flags, MB_PROCESS, MB_THREAD, "set_thisproc_membind", "set_thisthread_membind")
       IN IF can = {} THEN Enosys(st, r)
          ELSE \/ NativeSetMem(tp, st, c, r, {"set_mempolicy", "migrate_pages"}, "set_mempolicy", TRUE)
               \/ Ambig(c.flags, MB_PROCESS, MB_THREAD) /\ Refused(st, r)

RelSetProcMembind(tp, st, c, r) ==
  IF MemArgsBad(c) \/ MemSetBad(tp, c) THEN Einval(st, r)
  ELSE IF Unmappable(tp, c) THEN Refused(st, r)
  ELSE IF ~tp.ts THEN DummyOK(st, r)
  ELSE IF "set_proc_membind" \notin tp.hooks THEN Enosys(st, r)
  ELSE NativeSetMem(tp, st, c, r, {"set_mempolicy", "migrate_pages"}, "set_mempolicy", TRUE)

RelSetAreaMembind(tp, st, c, r) ==
  IF MemArgsBad(c) THEN Einval(st, r)
  ELSE IF c.len = 0 THEN \* "0 on success or if len is 0"; an invalid set may still be diagnosed
       IF MemSetBad(tp, c) \/ Unmappable(tp, c) THEN DummyOK(st, r) \/ Refused(st, r) ELSE DummyOK(st, r)
  ELSE IF MemSetBad(tp, c) THEN Einval(st, r)
  ELSE IF Unmappable(tp, c) THEN Refused(st, r)
  ELSE IF ~tp.ts THEN DummyOK(st, r)
  ELSE IF "set_area_membind" \notin tp.hooks THEN Enosys(st, r)
  ELSE NativeSetMem(tp, st, c, r, {"mbind"}, "mbind", TRUE) /\ r.mp = st.mp

\* alloc: ret 0 = a pointer, -1 = NULL.  Without STRICT a failed binding falls back to a plain allocation.
RelAllocMembind(tp, st, c, r) ==
  LET strict == HasBit(c.flags, MB_STRICT) IN
  IF MemArgsBad(c) THEN Einval(st, r)
  ELSE IF MemSetBad(tp, c) \/ HasBit(c.flags, MB_MIGRATE)
       THEN IF strict THEN Einval(st, r) ELSE Untouched(st, r) /\ r.ret \in {0, -1}
  ELSE IF Unmappable(tp, c) THEN Untouched(st, r) /\ (strict => r.ret = -1)
  ELSE IF ~tp.ts THEN DummyOK(st, r)
  ELSE IF {"alloc_membind", "set_area_membind"} \cap tp.hooks = {}
       THEN IF strict THEN Enosys(st, r) ELSE DummyOK(st, r)
  ELSE /\ NativeSetMem(tp, st, c, r, {"mbind"}, "mbind", strict)   \* without STRICT the allocation survives a refused binding
       /\ r.mp = st.mp
       /\ ~strict => r.ret = 0

\* what get_membind / get_area_membind must report: [known, pol, anyn, nodes]
Reports(tp, c, b, r) ==
  b.known => /\ r.ret = 0
             /\ r.opol = b.pol
             /\ ~b.anyn => r.out = (IF ByNode(c) THEN b.nodes ELSE CpusOf(tp, b.nodes))
GetPolicyOK(r) == r.ret = 0 => r.opol \in {P_FIRSTTOUCH, P_BIND, P_INTERLEAVE, P_WEIGHTED, P_NEXTTOUCH, P_MIXED}

RelGetMembind(tp, st, c, r) ==
  IF Unknown(c.flags, MB_ALL) THEN Einval(st, r)
  ELSE IF ~tp.ts THEN DummyOK(st, r) /\ WholeMem(tp, c, r.out) /\ r.opol = P_MIXED
  ELSE LET can == Can(tp, c.flags, MB_PROCESS, MB_THREAD, "get_thisproc_membind", "get_thisthread_membind")
       IN IF can = {} THEN Enosys(st, r)
          ELSE \/ Quiet(st, r) /\ r.ret \in {0, -1} /\ GetPolicyOK(r) /\ Reports(tp, c, st.mb, r)
               \/ Ambig(c.flags, MB_PROCESS, MB_THREAD) /\ Refused(st, r)

RelGetProcMembind(tp, st, c, r) ==
  IF Unknown(c.flags, MB_ALL) THEN Einval(st, r)
  ELSE IF ~tp.ts THEN DummyOK(st, r) /\ WholeMem(tp, c, r.out) /\ r.opol = P_MIXED
  ELSE IF "get_proc_membind" \notin tp.hooks THEN Enosys(st, r)
  ELSE Quiet(st, r) /\ r.ret \in {0, -1} /\ GetPolicyOK(r)

RelGetAreaMembind(tp, st, c, r) ==
  IF Unknown(c.flags, MB_ALL) \/ c.len = 0 THEN Einval(st, r)
  ELSE IF ~tp.ts THEN DummyOK(st, r) /\ WholeMem(tp, c, r.out) /\ r.opol = P_MIXED
  ELSE IF "get_area_membind" \notin tp.hooks THEN Enosys(st, r)
  ELSE Quiet(st, r) /\ r.ret \in {0, -1} /\ GetPolicyOK(r) /\ Reports(tp, c, st.ab, r)

RelGetAreaMemlocation(tp, st, c, r, docstrict) ==
  IF Unknown(c.flags, MB_ALL) THEN Einval(st, r)
  ELSE IF c.len = 0 THEN DummyOK(st, r) /\ (docstrict => r.out = {})
  ELSE IF ~tp.ts THEN DummyOK(st, r) /\ WholeMem(tp, c, r.out)
  ELSE IF "get_area_memlocation" \notin tp.hooks THEN Enosys(st, r)
  ELSE /\ Quiet(st, r) /\ r.ret \in {0, -1}
       /\ r.ret = 0 => r.out \subseteq (IF ByNode(c) THEN tp.kmems ELSE CpusOf(tp, tp.kmems))

(* ------------------------------------------------------------------ *)
(* hwloc_topology_load() of a fresh topology leaves the binding alone  *)
(* ------------------------------------------------------------------ *)
RelLoad(tp, st, c, r) ==
  /\ r.ret = 0
  /\ r.aff = st.aff                                    \* SaveAff; (BindTo(i))*; RestoreAff
  /\ r.mp = st.mp
  /\ \A i \in 1..Len(r.sys) : r.sys[i].k = "setaff" /\ r.sys[i].t = "main" /\ r.sys[i].mask # {}

Rel(tp, st, c, r, docstrict) ==
  CASE c.op = "set_cpubind"                -> RelSetCpubind(tp, st, c, r)
    [] c.op = "get_cpubind"                -> RelGetCpubind(tp, st, c, r)
    [] c.op = "set_proc_cpubind"           -> RelSetProcCpubind(tp, st, c, r)
    [] c.op = "get_proc_cpubind"           -> RelGetProcCpubind(tp, st, c, r)
    [] c.op = "set_thread_cpubind"         -> RelSetThreadCpubind(tp, st, c, r)
    [] c.op = "get_thread_cpubind"         -> RelGetThreadCpubind(tp, st, c, r)
    [] c.op = "get_last_cpu_location"      -> RelLastLoc(tp, st, c, r)
    [] c.op = "get_proc_last_cpu_location" -> RelProcLastLoc(tp, st, c, r)
    [] c.op = "set_membind"                -> RelSetMembind(tp, st, c, r)
    [] c.op = "get_membind"                -> RelGetMembind(tp, st, c, r)
    [] c.op = "set_proc_membind"           -> RelSetProcMembind(tp, st, c, r)
    [] c.op = "get_proc_membind"           -> RelGetProcMembind(tp, st, c, r)
    [] c.op = "set_area_membind"           -> RelSetAreaMembind(tp, st, c, r)
    [] c.op = "get_area_membind"           -> RelGetAreaMembind(tp, st, c, r)
    [] c.op = "get_area_memlocation"       -> RelGetAreaMemlocation(tp, st, c, r, docstrict)
    [] c.op = "alloc_membind"              -> RelAllocMembind(tp, st, c, r)
    [] c.op = "load"                       -> RelLoad(tp, st, c, r)
    [] OTHER                               -> FALSE

(* ------------------------------------------------------------------ *)
(* state after the call: the kernel state is what was read back; the   *)
(* API-level expectations mb / ab follow successful set calls          *)
(* ------------------------------------------------------------------ *)
Firsttouch == [known |-> TRUE, pol |-> P_FIRSTTOUCH, anyn |-> TRUE, nodes |-> {}]
Unknownb   == [known |-> FALSE, pol |-> 0, anyn |-> TRUE, nodes |-> {}]

\* a successful set call whose effect the kernel of this machine can represent exactly
Expect(tp, c, r, how) ==
  LET N == MemFix(tp, c) IN
  IF r.ret # 0 THEN Unknownb
  ELSE IF c.pol \in {P_DEFAULT, P_FIRSTTOUCH} THEN Firsttouch
  ELSE IF NodePolicy(c.pol) /\ N \subseteq tp.kmems /\ Done(r, how, N)
          /\ (c.pol # P_BIND \/ HasBit(c.flags, MB_STRICT) \/ Cardinality(N) = 1)
       THEN [known |-> TRUE, pol |-> c.pol, anyn |-> FALSE, nodes |-> N]
  ELSE Unknownb

Happened(r, k) == \E i \in 1..Len(r.sys) : r.sys[i].k = k /\ r.sys[i].ret = 0

NextSt(tp, st, c, r) ==
  [aff |-> r.aff,
   mp  |-> r.mp,
   mb  |-> IF r.mp = st.mp /\ ~Happened(r, "set_mempolicy") THEN st.mb
           ELSE IF c.op = "set_membind" THEN Expect(tp, c, r, "set_mempolicy") ELSE Unknownb,
   ab  |-> IF ~Happened(r, "mbind") \/ c.op = "alloc_membind" THEN st.ab
           ELSE IF c.op = "set_area_membind" THEN Expect(tp, c, r, "mbind") ELSE Unknownb]

(* ------------------------------------------------------------------ *)
(* is_thissystem as documented: HWLOC_THISSYSTEM wins, then the        *)
(* IS_THISSYSTEM flag, then the kind of backend                        *)
(* ------------------------------------------------------------------ *)
ExpectedThisSystem(kind, flag, env) ==
  IF env = "1" THEN TRUE ELSE IF env = "0" THEN FALSE
  ELSE IF flag = 1 THEN TRUE ELSE kind = "native"

\* what the live part of the property presupposes of the running system
LiveHooks == {"set_thisthread_cpubind", "get_thisthread_cpubind", "get_thisthread_last_cpu_location"}
=============================================================================
