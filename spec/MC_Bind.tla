------------------------------ MODULE MC_Bind ------------------------------
(***************************************************************************)
(* Bounded model of the binding API (C10): a constructive transcription of *)
(* hwloc/bind.c (CheckFlags -> FixSet -> Dispatch), of the dummy hooks and *)
(* of the Linux hooks on top of an abstract kernel.  Every transition is   *)
(* checked against the oracle relation Bind!Rel (StepOK) and emitted as    *)
(* an edge [configuration, source, destination, call] of the state graph;  *)
(* tools/props/c10.py turns the graph into transition tours (histories of  *)
(* this model that take every emitted transition) which are replayed on    *)
(* the real library.  Sets are sets of abstract atoms:                     *)
(*   CPUs  1..4 chosen PUs, 5 rest of the topology, 6 in the complete set  *)
(*         only (disallowed), 7 outside the complete set, 8 the infinite   *)
(*         tail, 9 CPUs only the kernel knows about;                       *)
(*   nodes 1,2 nodes of the topology, 3 in the complete nodeset only,      *)
(*         4 the other nodes of the topology, 7 outside, 8 the infinite    *)
(*         tail.                                                           *)
(* Twin configurations: a memory binding request that is not in canonical  *)
(* form (Bind!CanonCall: nodeset flavour, fixed set) is followed by its    *)
(* canonical form, so that every tour holds both and trace validation can  *)
(* compare how the two were handled (Bind!SameHandling).                   *)
(***************************************************************************)
EXTENDS Bind, TLC, Json, MC_Bind_cfg

\* MC_Bind_cfg!Cfgs: configuration name -> record of everything that is fixed during one exploration:
\*   the topology kind (TS .. KMems, ThreadsC) and the alphabet of calls (Ops .. LoadComps, OnlyInit).
\* The configuration is chosen in Init ("three topology kinds x IS_THISSYSTEM on/off x stage").
\* tools/props/c10.py generates MC_Bind_cfg.tla from the topologies the real library builds; the copy
\* in spec/ is a small stand-alone example.  (A definition in an extended module, rather than a
\* CONSTANT overridden in the cfg file, because TLC evaluates the former once and the latter on every use.)

VARIABLES cfg,       \* the configuration (never changes)
          st,        \* [aff, mp, mb, ab] as in Bind
          kb,        \* abstract kernel: policy of the test buffer
          pend,      \* Twin configurations: the canonical form of the last request, to be made next (or NoCall)
          last       \* [c, r] of the last transition (not part of the state: VIEW hides it)

TS        == Cfgs[cfg].TS
CS        == Cfgs[cfg].CS
CC        == Cfgs[cfg].CC
CA        == Cfgs[cfg].CA
NS        == Cfgs[cfg].NS
NC        == Cfgs[cfg].NC
NA        == Cfgs[cfg].NA
NodesC    == Cfgs[cfg].NodesC
Hooks     == Cfgs[cfg].Hooks
KAllowed  == Cfgs[cfg].KAllowed
KMems     == Cfgs[cfg].KMems
ThreadsC  == Cfgs[cfg].ThreadsC
Ops       == Cfgs[cfg].Ops
CpuFam    == Cfgs[cfg].CpuFam
NodeFam   == Cfgs[cfg].NodeFam
CpuFlagsC == Cfgs[cfg].CpuFlagsC
MemFlagsC == Cfgs[cfg].MemFlagsC
Pols      == Cfgs[cfg].Pols
Lens      == Cfgs[cfg].Lens
LoadComps == Cfgs[cfg].LoadComps
OnlyInit  == Cfgs[cfg].OnlyInit
Twin      == Cfgs[cfg].Twin

TP == [ts |-> TS, cs |-> CS, cc |-> CC, ca |-> CA, ns |-> NS, nc |-> NC, na |-> NA,
       nodes |-> NodesC, hooks |-> Hooks, kallowed |-> KAllowed, kmems |-> KMems]

MpDefault == [mode |-> 0, nodes |-> {}]
NoCall == [op |-> "none", flags |-> 0, set |-> {}, pol |-> 0, tgt |-> "main", len |-> 1]
Init == /\ cfg \in DOMAIN Cfgs
        /\ st = [aff |-> [t \in ThreadsC |-> KAllowed], mp |-> MpDefault, mb |-> Firsttouch, ab |-> Firsttouch]
        /\ kb = MpDefault
        /\ pend = NoCall
        /\ last = [c |-> [op |-> "none"], r |-> [ret |-> 0]]

(* ------------------------------------------------------------------ *)
(* results                                                             *)
(* ------------------------------------------------------------------ *)
Res(ret, err, out, opol, sys, nq, aff, mp, nkb) ==
  [ret |-> ret, err |-> err, out |-> out, opol |-> opol, sys |-> sys, nq |-> nq, aff |-> aff, mp |-> mp, kb |-> nkb]
Fail(s, e)          == Res(-1, e, {}, 0, <<>>, 0, s.aff, s.mp, kb)
Succ(s, out, opol)  == Res(0, "0", out, opol, <<>>, 0, s.aff, s.mp, kb)
Query(s, out, opol) == Res(0, "0", out, opol, <<>>, 1, s.aff, s.mp, kb)
Hook(h) == ~TS \/ h \in Hooks          \* the dummy hooks all exist

(* ------------------------------------------------------------------ *)
(* FixSet (hwloc_fix_cpubind, hwloc_fix_membind, hwloc_fix_membind_cpuset) *)
(* ------------------------------------------------------------------ *)
FixCpubind(S) == IF S = {} THEN [bad |-> TRUE, s |-> {}]
                 ELSE IF ~(S \subseteq CC) THEN [bad |-> TRUE, s |-> {}]
                 ELSE IF CS \subseteq S THEN [bad |-> FALSE, s |-> CC]
                 ELSE [bad |-> FALSE, s |-> S]
FixMembind(N) == IF N = {} THEN [bad |-> TRUE, s |-> {}]
                 ELSE IF ~(N \subseteq NC) THEN [bad |-> TRUE, s |-> {}]
                 ELSE IF NS \subseteq N THEN [bad |-> FALSE, s |-> NC]
                 ELSE [bad |-> FALSE, s |-> N]
FixMembindCpuset(S) == IF S = {} THEN [bad |-> TRUE, s |-> {}]
                       ELSE IF ~(S \subseteq CC) THEN [bad |-> TRUE, s |-> {}]
                       ELSE IF CS \subseteq S THEN [bad |-> FALSE, s |-> NC]
                       ELSE [bad |-> FALSE, s |-> NodesOf(TP, S)]
\* hwloc_set_membind & co: cpuset -> nodeset, then the by-nodeset path
FixMem(c) == IF HasBit(c.flags, MB_BYNODESET) THEN FixMembind(c.set)
             ELSE LET f == FixMembindCpuset(c.set) IN IF f.bad THEN f ELSE FixMembind(f.s)

(* ------------------------------------------------------------------ *)
(* abstract kernel + Linux hooks                                       *)
(* ------------------------------------------------------------------ *)
ThreadSeq(T) == IF T = {"main", "helper"} THEN <<"main", "helper">>
                ELSE IF T = {"helper"} THEN <<"helper">> ELSE <<"main">>
SysAff(T, F, ok) == [i \in 1..Len(ThreadSeq(T)) |->
                       [k |-> "setaff", t |-> ThreadSeq(T)[i], mask |-> F,
                        ret |-> IF ok THEN 0 ELSE -1, err |-> IF ok THEN "0" ELSE "EINVAL"]]
\* sched_setaffinity: the kernel intersects with what it allows, EINVAL when nothing is left
LinuxSetAff(s, F, T) ==
  LET ok == F \cap KAllowed # {} IN
  {Res(IF ok THEN 0 ELSE -1, IF ok THEN "0" ELSE "EINVAL", {}, 0, SysAff(T, F, ok), 0,
       IF ok THEN [t \in ThreadsC |-> IF t \in T THEN F \cap KAllowed ELSE s.aff[t]] ELSE s.aff, s.mp, kb)}
\* hwloc_linux_get_tid_cpubind reports the CPUs up to the last one of the complete set
LinuxGetAff(s, T, strict) ==
  LET U == UNION {s.aff[t] : t \in T} IN
  IF strict /\ \E t1, t2 \in T : s.aff[t1] \cap CC # s.aff[t2] \cap CC THEN {Res(-1, "EXDEV", {}, 0, <<>>, 1, s.aff, s.mp, kb)}
  ELSE {Query(s, U \cap CC, 0)}
LinuxLastLoc(s, T) ==
  IF T = {"main", "helper"} THEN {Query(s, {x, y}, 0) : x \in s.aff["main"], y \in s.aff["helper"]}
  ELSE {Query(s, {x}, 0) : x \in UNION {s.aff[t] : t \in T}}

LinuxMode(pol, flags) == CASE pol = P_DEFAULT -> 0 [] pol = P_FIRSTTOUCH -> 4
                           [] pol = P_BIND -> (IF HasBit(flags, MB_STRICT) THEN 2 ELSE 5)
                           [] pol = P_INTERLEAVE -> 3 [] pol = P_WEIGHTED -> 6 [] OTHER -> -1
MemSys(k, N, ok) == [k |-> k, t |-> "main", mask |-> N, ret |-> IF ok THEN 0 ELSE -1, err |-> IF ok THEN "0" ELSE "EINVAL"]
\* common part of hwloc_linux_set_thisthread_membind (how = "set_mempolicy") and
\* hwloc_linux_set_area_membind (how = "mbind"); returns [ret, err, sys, pol] (pol = new kernel policy or the old one)
LinuxSetPolicy(old, N, pol, flags, how) ==
  IF LinuxMode(pol, flags) = -1 THEN [ret |-> -1, err |-> "ENOSYS", sys |-> <<>>, pol |-> old]
  ELSE IF pol = P_DEFAULT THEN [ret |-> 0, err |-> "0", sys |-> <<MemSys(how, {}, TRUE)>>, pol |-> MpDefault]
  ELSE IF pol = P_FIRSTTOUCH THEN
       IF N # NC THEN [ret |-> -1, err |-> "EXDEV", sys |-> <<>>, pol |-> old]
       ELSE [ret |-> 0, err |-> "0", sys |-> <<MemSys(how, {}, TRUE)>>, pol |-> [mode |-> 4, nodes |-> {}]]
  ELSE LET ok  == N \cap KMems # {}
           mig == IF how = "set_mempolicy" /\ HasBit(flags, MB_MIGRATE) THEN <<MemSys("migrate_pages", N, ok)>> ELSE <<>>
       IN IF mig # <<>> /\ ~ok /\ HasBit(flags, MB_STRICT)
          THEN [ret |-> -1, err |-> "EINVAL", sys |-> mig, pol |-> old]
          ELSE [ret |-> IF ok THEN 0 ELSE -1, err |-> IF ok THEN "0" ELSE "EINVAL",
                sys |-> mig \o <<MemSys(how, N, ok)>>,
                pol |-> IF ok THEN [mode |-> LinuxMode(pol, flags), nodes |-> N \cap KMems] ELSE old]
LinuxSetThreadMem(s, N, pol, flags) ==
  LET x == LinuxSetPolicy(s.mp, N, pol, flags, "set_mempolicy") IN
  {Res(x.ret, x.err, {}, 0, x.sys, 0, s.aff, x.pol, kb)}
LinuxSetArea(s, N, pol, flags) ==
  LET x == LinuxSetPolicy(kb, N, pol, flags, "mbind") IN
  {Res(x.ret, x.err, {}, 0, x.sys, 0, s.aff, s.mp, x.pol)}
LinuxAlloc(s, N, pol, flags) ==
  LET x == LinuxSetPolicy(MpDefault, N, pol, flags, "mbind") IN
  {Res(IF x.ret = -1 /\ HasBit(flags, MB_STRICT) THEN -1 ELSE 0, x.err, {}, 0, x.sys, 0, s.aff, s.mp, kb)}
\* hwloc_linux_membind_policy_to_hwloc + nodeset
LinuxReport(s, p, c) ==
  LET first == p.mode \in {0, 4} \/ (p.mode = 1 /\ p.nodes = {})
      N     == IF first THEN NS ELSE p.nodes
      pol   == IF first THEN P_FIRSTTOUCH ELSE IF p.mode \in {1, 2, 5} THEN P_BIND
               ELSE IF p.mode = 3 THEN P_INTERLEAVE ELSE P_WEIGHTED
  IN {Query(s, IF HasBit(c.flags, MB_BYNODESET) THEN N ELSE CpusOf(TP, N), pol)}

(* ------------------------------------------------------------------ *)
(* dummy hooks                                                         *)
(* ------------------------------------------------------------------ *)
DummyCpu(s)    == {Succ(s, CC, 0)}
DummyMem(s, c) == {Succ(s, IF HasBit(c.flags, MB_BYNODESET) THEN NC ELSE CpusOf(TP, NC), P_MIXED)}

(* ------------------------------------------------------------------ *)
(* entry points, as in hwloc/bind.c                                    *)
(* ------------------------------------------------------------------ *)
\* the PROCESS / THREAD / neither dispatch shared by six entry points
Dispatch(s, flags, P, T, hp, ht, procdo, threaddo) ==
  IF HasBit(flags, P) THEN (IF Hook(hp) THEN procdo ELSE {Fail(s, "ENOSYS")})
  ELSE IF HasBit(flags, T) THEN (IF Hook(ht) THEN threaddo ELSE {Fail(s, "ENOSYS")})
  ELSE IF Hook(hp) THEN procdo            \* (these hooks never answer ENOSYS here: no fallback step)
  ELSE IF Hook(ht) THEN threaddo
  ELSE {Fail(s, "ENOSYS")}

DoSetCpubind(s, c) ==
  IF Unknown(c.flags, CB_ALL) THEN {Fail(s, "EINVAL")}
  ELSE LET fx == FixCpubind(c.set) IN
       IF fx.bad THEN {Fail(s, "EINVAL")}
       ELSE Dispatch(s, c.flags, CB_PROCESS, CB_THREAD, "set_thisproc_cpubind", "set_thisthread_cpubind",
                     IF TS THEN LinuxSetAff(s, fx.s, ThreadsC) ELSE {Succ(s, {}, 0)},
                     IF TS THEN LinuxSetAff(s, fx.s, {"main"}) ELSE {Succ(s, {}, 0)})
DoGetCpubind(s, c) ==
  IF Unknown(c.flags, CB_ALL) THEN {Fail(s, "EINVAL")}
  ELSE Dispatch(s, c.flags, CB_PROCESS, CB_THREAD, "get_thisproc_cpubind", "get_thisthread_cpubind",
                IF TS THEN LinuxGetAff(s, ThreadsC, HasBit(c.flags, CB_STRICT)) ELSE DummyCpu(s),
                IF TS THEN LinuxGetAff(s, {"main"}, FALSE) ELSE DummyCpu(s))
DoLastLoc(s, c) ==
  IF Unknown(c.flags, CB_ALL) THEN {Fail(s, "EINVAL")}
  ELSE Dispatch(s, c.flags, CB_PROCESS, CB_THREAD, "get_thisproc_last_cpu_location", "get_thisthread_last_cpu_location",
                IF TS THEN LinuxLastLoc(s, ThreadsC) ELSE DummyCpu(s),
                IF TS THEN LinuxLastLoc(s, {"main"}) ELSE DummyCpu(s))
PidT(c) == IF HasBit(c.flags, CB_THREAD) THEN {c.tgt} ELSE ThreadsC
DoSetProcCpubind(s, c) ==
  IF Unknown(c.flags, CB_ALL) THEN {Fail(s, "EINVAL")}
  ELSE LET fx == FixCpubind(c.set) IN
       IF fx.bad THEN {Fail(s, "EINVAL")}
       ELSE IF ~Hook("set_proc_cpubind") THEN {Fail(s, "ENOSYS")}
       ELSE IF TS THEN LinuxSetAff(s, fx.s, PidT(c)) ELSE {Succ(s, {}, 0)}
DoGetProcCpubind(s, c) ==
  IF Unknown(c.flags, CB_ALL) THEN {Fail(s, "EINVAL")}
  ELSE IF ~Hook("get_proc_cpubind") THEN {Fail(s, "ENOSYS")}
  ELSE IF TS THEN LinuxGetAff(s, PidT(c), ~HasBit(c.flags, CB_THREAD) /\ HasBit(c.flags, CB_STRICT)) ELSE DummyCpu(s)
DoProcLastLoc(s, c) ==
  IF Unknown(c.flags, CB_ALL) THEN {Fail(s, "EINVAL")}
  ELSE IF ~Hook("get_proc_last_cpu_location") THEN {Fail(s, "ENOSYS")}
  ELSE IF TS THEN LinuxLastLoc(s, PidT(c)) ELSE DummyCpu(s)
DoSetThreadCpubind(s, c) ==
  IF Unknown(c.flags, CB_ALL) THEN {Fail(s, "EINVAL")}
  ELSE LET fx == FixCpubind(c.set) IN
       IF fx.bad THEN {Fail(s, "EINVAL")}
       ELSE IF ~Hook("set_thread_cpubind") THEN {Fail(s, "ENOSYS")}
       ELSE IF TS THEN LinuxSetAff(s, fx.s, {c.tgt}) ELSE {Succ(s, {}, 0)}
DoGetThreadCpubind(s, c) ==
  IF Unknown(c.flags, CB_ALL) THEN {Fail(s, "EINVAL")}
  ELSE IF ~Hook("get_thread_cpubind") THEN {Fail(s, "ENOSYS")}
  ELSE IF TS THEN LinuxGetAff(s, {c.tgt}, FALSE) ELSE DummyCpu(s)

MemCheck(c) == Unknown(c.flags, MB_ALL) \/ ~PolicyOK(c.pol)
DoSetMembind(s, c) ==
  \* (for a cpuset the conversion happens before the flag check; both answer EINVAL)
  IF MemCheck(c) THEN {Fail(s, "EINVAL")}
  ELSE LET fx == FixMem(c) IN
       IF fx.bad THEN {Fail(s, "EINVAL")}
       ELSE Dispatch(s, c.flags, MB_PROCESS, MB_THREAD, "set_thisproc_membind", "set_thisthread_membind",
                     {Succ(s, {}, 0)},      \* only the dummy hooks provide a process-wide memory binding
                     IF TS THEN LinuxSetThreadMem(s, fx.s, c.pol, c.flags) ELSE {Succ(s, {}, 0)})
DoGetMembind(s, c) ==
  IF Unknown(c.flags, MB_ALL) THEN {Fail(s, "EINVAL")}
  ELSE Dispatch(s, c.flags, MB_PROCESS, MB_THREAD, "get_thisproc_membind", "get_thisthread_membind",
                DummyMem(s, c),
                IF TS THEN LinuxReport(s, s.mp, c) ELSE DummyMem(s, c))
DoSetProcMembind(s, c) ==
  IF MemCheck(c) THEN {Fail(s, "EINVAL")}
  ELSE LET fx == FixMem(c) IN
       IF fx.bad THEN {Fail(s, "EINVAL")}
       ELSE IF ~Hook("set_proc_membind") THEN {Fail(s, "ENOSYS")}
       ELSE {Succ(s, {}, 0)}
DoGetProcMembind(s, c) ==
  IF Unknown(c.flags, MB_ALL) THEN {Fail(s, "EINVAL")}
  ELSE IF ~Hook("get_proc_membind") THEN {Fail(s, "ENOSYS")}
  ELSE DummyMem(s, c)
DoSetAreaMembind(s, c) ==
  IF MemCheck(c) THEN {Fail(s, "EINVAL")}
  ELSE IF ~HasBit(c.flags, MB_BYNODESET) /\ FixMembindCpuset(c.set).bad THEN {Fail(s, "EINVAL")}
  ELSE IF c.len = 0 THEN {Succ(s, {}, 0)}
  ELSE LET fx == FixMem(c) IN
       IF fx.bad THEN {Fail(s, "EINVAL")}
       ELSE IF ~Hook("set_area_membind") THEN {Fail(s, "ENOSYS")}
       ELSE IF TS THEN LinuxSetArea(s, fx.s, c.pol, c.flags) ELSE {Succ(s, {}, 0)}
DoGetAreaMembind(s, c) ==
  IF Unknown(c.flags, MB_ALL) THEN {Fail(s, "EINVAL")}
  ELSE IF c.len = 0 THEN {Fail(s, "EINVAL")}
  ELSE IF ~Hook("get_area_membind") THEN {Fail(s, "ENOSYS")}
  ELSE IF TS THEN LinuxReport(s, kb, c) ELSE DummyMem(s, c)
DoGetAreaMemlocation(s, c) ==
  IF Unknown(c.flags, MB_ALL) THEN {Fail(s, "EINVAL")}
  ELSE IF c.len = 0 THEN {Succ(s, {}, 0)}
  ELSE IF ~Hook("get_area_memlocation") THEN {Fail(s, "ENOSYS")}
  ELSE IF TS THEN {Query(s, IF HasBit(c.flags, MB_BYNODESET) THEN {n} ELSE CpusOf(TP, {n}), 0) : n \in KMems}
  ELSE {Succ(s, IF HasBit(c.flags, MB_BYNODESET) THEN NC ELSE CpusOf(TP, NC), 0)}
DoAllocMembind(s, c) ==
  LET fallback == IF HasBit(c.flags, MB_STRICT) THEN {Fail(s, "EINVAL")} ELSE {Succ(s, {}, 0)} IN
  IF MemCheck(c) THEN {Fail(s, "EINVAL")}
  ELSE LET fx == FixMem(c) IN
       IF fx.bad \/ HasBit(c.flags, MB_MIGRATE) THEN fallback
       ELSE IF Hook("alloc_membind") THEN (IF TS THEN LinuxAlloc(s, fx.s, c.pol, c.flags) ELSE {Succ(s, {}, 0)})
       ELSE IF HasBit(c.flags, MB_STRICT) THEN {Fail(s, "ENOSYS")} ELSE {Succ(s, {}, 0)}

\* LoadNative: SaveAff; (BindTo(i))*; RestoreAff  (x86 backend, also part of the default load on x86)
DoLoad(s, c) ==
  LET orig  == s.aff["main"]
      pus   == CS \cap KAllowed
      visit == [i \in 1..Cardinality(pus) |-> CHOOSE x \in pus : Cardinality({y \in pus : y < x}) = i - 1]
      bind  == [i \in 1..Len(visit) |-> [k |-> "setaff", t |-> "main", mask |-> {visit[i]}, ret |-> 0, err |-> "0"]]
      back  == <<[k |-> "setaff", t |-> "main", mask |-> orig, ret |-> 0, err |-> "0"]>>
  IN {Res(0, "0", {}, 0, bind \o back, 1, s.aff, s.mp, kb)}

Do(s, c) ==
  CASE c.op = "set_cpubind"                -> DoSetCpubind(s, c)
    [] c.op = "get_cpubind"                -> DoGetCpubind(s, c)
    [] c.op = "set_proc_cpubind"           -> DoSetProcCpubind(s, c)
    [] c.op = "get_proc_cpubind"           -> DoGetProcCpubind(s, c)
    [] c.op = "set_thread_cpubind"         -> DoSetThreadCpubind(s, c)
    [] c.op = "get_thread_cpubind"         -> DoGetThreadCpubind(s, c)
    [] c.op = "get_last_cpu_location"      -> DoLastLoc(s, c)
    [] c.op = "get_proc_last_cpu_location" -> DoProcLastLoc(s, c)
    [] c.op = "set_membind"                -> DoSetMembind(s, c)
    [] c.op = "get_membind"                -> DoGetMembind(s, c)
    [] c.op = "set_proc_membind"           -> DoSetProcMembind(s, c)
    [] c.op = "get_proc_membind"           -> DoGetProcMembind(s, c)
    [] c.op = "set_area_membind"           -> DoSetAreaMembind(s, c)
    [] c.op = "get_area_membind"           -> DoGetAreaMembind(s, c)
    [] c.op = "get_area_memlocation"       -> DoGetAreaMemlocation(s, c)
    [] c.op = "alloc_membind"              -> DoAllocMembind(s, c)
    [] c.op = "load"                       -> DoLoad(s, c)

(* ------------------------------------------------------------------ *)
(* the alphabet of calls                                               *)
(* ------------------------------------------------------------------ *)
Call(op, flags, set, pol, tgt, len) == [op |-> op, flags |-> flags, set |-> set, pol |-> pol, tgt |-> tgt, len |-> len]
TgtsFor(o) == IF o \in {"set_cpubind", "get_cpubind", "get_last_cpu_location"} THEN {"main"} ELSE ThreadsC
MemFam(f)  == IF HasBit(f, MB_BYNODESET) THEN NodeFam ELSE CpuFam
LensFor(o) == IF o \in {"set_area_membind", "get_area_membind", "get_area_memlocation"} THEN Lens ELSE {1}
CallT(c) == <<c.op, c.flags, c.set, c.pol, c.tgt, c.len>>
\* compact identity of a model state (for the emitted transition graph)
RECURSIVE Mask(_)
Mask(S) == IF S = {} THEN 0 ELSE LET x == CHOOSE y \in S : TRUE IN 2^x + Mask(S \ {x})
B(b) == IF b THEN 1 ELSE 0
Sid(s, k, p) == <<Mask(s.aff["main"]), IF "helper" \in ThreadsC THEN Mask(s.aff["helper"]) ELSE 0,
               s.mp.mode, Mask(s.mp.nodes), k.mode, Mask(k.nodes),
               B(s.mb.known), s.mb.pol, B(s.mb.anyn), Mask(s.mb.nodes),
               B(s.ab.known), s.ab.pol, B(s.ab.anyn), Mask(s.ab.nodes),
               IF p.op = "none" THEN "" ELSE ToString(CallT(p))>>

InitSt == [aff |-> [t \in ThreadsC |-> KAllowed], mp |-> MpDefault, mb |-> Firsttouch, ab |-> Firsttouch]

Step(c) == \E r \in Do(st, c) :
             /\ last' = [c |-> c, r |-> r]
             /\ st' = NextSt(TP, st, c, r)
             /\ kb' = r.kb

\* one named action per family of entry points; OnlyInit restricts the (huge) validation alphabets to the initial state
SetCpu == \E o \in Ops \cap CpuSetOps : \E f \in CpuFlagsC : \E S \in CpuFam : \E t \in TgtsFor(o) : Step(Call(o, f, S, 0, t, 1))
GetCpu == \E o \in Ops \cap CpuGetOps : \E f \in CpuFlagsC : \E t \in TgtsFor(o) : Step(Call(o, f, {}, 0, t, 1))
SetMem == \E o \in Ops \cap MemSetOps : \E f \in MemFlagsC : \E S \in MemFam(f) : \E p \in Pols : \E ln \in LensFor(o) :
            Step(Call(o, f, S, p, "main", ln))
GetMem == \E o \in Ops \cap MemGetOps : \E f \in MemFlagsC : \E ln \in LensFor(o) : Step(Call(o, f, {}, 0, "main", ln))
Load   == "load" \in Ops /\ \E comp \in LoadComps : Step(Call("load", 0, {}, 0, comp, 1))

\* the request and its canonical form differ: the canonical form comes next
HasTwin(c) == Twin /\ Fixable(TP, c) /\ CanonCall(TP, c) # c

Next == /\ IF pend.op # "none"
           THEN Step(pend) /\ pend' = NoCall
           ELSE /\ OnlyInit => (st = InitSt /\ kb = MpDefault)
                /\ (SetCpu \/ GetCpu \/ SetMem \/ GetMem \/ Load)
                /\ pend' = IF HasTwin(last'.c) THEN CanonCall(TP, last'.c) ELSE NoCall
        /\ UNCHANGED cfg

Spec == Init /\ [][Next]_<<cfg, st, kb, pend, last>>
View == <<cfg, st, kb, pend>>

(* ------------------------------------------------------------------ *)
(* the property on the model                                           *)
(* ------------------------------------------------------------------ *)
\* every transition of the constructive model satisfies the oracle relation
StepOK == Assert(Rel(TP, st, last'.c, last'.r, TRUE), <<"model step violates Bind!Rel", cfg, st, last'>>)
\* whatever reaches the OS is a non-empty subset of the complete set
SysLegal(sys) == \A i \in 1..Len(sys) :
                   IF sys[i].k = "setaff" THEN sys[i].mask # {} /\ sys[i].mask \subseteq CC
                   ELSE sys[i].mask \subseteq NC
\* (load discovers a fresh native topology: its masks are only required to be non-empty)
\* a request and its canonical form are handled alike (on this deterministic kernel: identically)
StepTwin == Assert(pend.op # "none" => SameHandling(Handling(last.r), Handling(last'.r)),
                   <<"a request and its canonical form are handled differently", cfg, st, last, last'>>)
StepLegal == Assert(IF last'.c.op = "load" THEN \A i \in 1..Len(last'.r.sys) : last'.r.sys[i].mask # {} ELSE SysLegal(last'.r.sys),
                    <<"an illegal set reaches the OS", last'>>)
\* a call that fails without having reached the OS changes nothing
StepClean == Assert((last'.r.ret = -1 /\ last'.r.sys = <<>>) => (st' = st /\ kb' = kb), <<"a refused call changed the state", last'>>)
\* foreign topologies have no system effect at all (state invariant)
ForeignInert == ~TS => st.aff = InitSt.aff /\ st.mp = MpDefault /\ kb = MpDefault
AffLegal == \A t \in ThreadsC : st.aff[t] # {} /\ st.aff[t] \subseteq KAllowed
TypeOK == /\ DOMAIN st.aff = ThreadsC
          /\ st.mb.known \in BOOLEAN /\ st.ab.known \in BOOLEAN

EmitInit == (last.c.op = "none") => PrintT(<<"INIT", ToJson([g |-> cfg, s |-> Sid(st, kb, pend)])>>)
StepChecks == StepOK /\ StepLegal /\ StepClean /\ StepTwin
EmitEdge == StepChecks
            /\ PrintT(<<"EDGE", ToJson([g |-> cfg, s |-> Sid(st, kb, pend), d |-> Sid(st', kb', pend'), c |-> CallT(last'.c)])>>)
=============================================================================
