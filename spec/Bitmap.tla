------------------------------- MODULE Bitmap -------------------------------
(***************************************************************************)
(* Abstract semantics of hwloc bitmaps (property C03).                     *)
(*                                                                         *)
(* A bitmap value is a set of non-negative integers that is finite or      *)
(* cofinite.  Values are represented over a *block map* m:                 *)
(*     m.lo, m.hi : sequences of equal length NB, block p = [lo[p],hi[p]]  *)
(*     blocks are adjacent, block 1 starts at 0, and the tail block is     *)
(*     [hi[NB]+1, infinity).                                               *)
(* A value is  [s |-> set of finite blocks, inf |-> tail block included].  *)
(* Every real bitmap built from single-index operations on size-1 blocks   *)
(* and range operations aligned on block boundaries is a union of blocks,  *)
(* so the correspondence with the real set is exact.                       *)
(* Nothing here refers to hwloc's word representation.                     *)
(***************************************************************************)
EXTENDS Integers, Sequences, FiniteSets

NB(m)     == Len(m.lo)
Blocks(m) == 1..NB(m)
TailLo(m) == m.hi[NB(m)] + 1

MapOK(m) ==
  /\ Len(m.lo) = Len(m.hi) /\ Len(m.lo) >= 1
  /\ m.lo[1] = 0
  /\ \A p \in Blocks(m) : m.lo[p] <= m.hi[p]
  /\ \A p \in 1..(NB(m)-1) : m.lo[p+1] = m.hi[p] + 1

SetMin(S) == CHOOSE x \in S : \A y \in S : x <= y
SetMax(S) == CHOOSE x \in S : \A y \in S : x >= y
Max2(a, b) == IF a >= b THEN a ELSE b
Min2(a, b) == IF a <= b THEN a ELSE b
Sign(x) == IF x < 0 THEN -1 ELSE IF x > 0 THEN 1 ELSE 0

RECURSIVE SumSizes(_, _)
SumSizes(m, S) == IF S = {} THEN 0
                  ELSE LET p == SetMin(S) IN m.hi[p] - m.lo[p] + 1 + SumSizes(m, S \ {p})

Values(m) == [s : SUBSET Blocks(m), inf : BOOLEAN]

Empty == [s |-> {}, inf |-> FALSE]
Full(m) == [s |-> Blocks(m), inf |-> TRUE]

(* ---- set algebra ---- *)
Or(a, b)     == [s |-> a.s \cup b.s, inf |-> a.inf \/ b.inf]
And(a, b)    == [s |-> a.s \cap b.s, inf |-> a.inf /\ b.inf]
AndNot(a, b) == [s |-> a.s \ b.s,    inf |-> a.inf /\ ~b.inf]
Xor(a, b)    == [s |-> (a.s \ b.s) \cup (b.s \ a.s), inf |-> a.inf # b.inf]
Not(m, a)    == [s |-> Blocks(m) \ a.s, inf |-> ~a.inf]

(* ---- membership and iteration ---- *)
Elem(m, a, i) == \/ \E p \in a.s : m.lo[p] <= i /\ i <= m.hi[p]
                 \/ a.inf /\ i >= TailLo(m)
IsZero(a)    == a.s = {} /\ ~a.inf
IsFull(m, a) == a.s = Blocks(m) /\ a.inf
First(m, a)  == IF a.s # {} THEN m.lo[SetMin(a.s)] ELSE IF a.inf THEN TailLo(m) ELSE -1
Last(m, a)   == IF a.inf THEN -1 ELSE IF a.s = {} THEN -1 ELSE m.hi[SetMax(a.s)]
\* smallest element strictly greater than prev (prev = -1 gives First)
NextIn(m, a, prev) ==
  LET c == {p \in a.s : m.hi[p] > prev} IN
  IF c # {} THEN Max2(m.lo[SetMin(c)], prev + 1)
  ELSE IF a.inf THEN Max2(TailLo(m), prev + 1) ELSE -1
FirstUnset(m, a)      == First(m, Not(m, a))
LastUnset(m, a)       == Last(m, Not(m, a))
NextUnset(m, a, prev) == NextIn(m, Not(m, a), prev)
Weight(m, a)   == IF a.inf THEN -1 ELSE SumSizes(m, a.s)
NrUlongs(m, a) == IF a.inf THEN -1 ELSE IF a.s = {} THEN 0 ELSE (Last(m, a) \div 64) + 1
\* the i-th 64-bit word as the set of its bit positions
WordBits(m, a, i) == {j \in 0..63 : Elem(m, a, 64 * i + j)}

(* ---- comparisons ---- *)
IsEqual(a, b)        == a = b
IsIncluded(sub, sup) == sub.s \subseteq sup.s /\ (sub.inf => sup.inf)
Intersects(a, b)     == a.s \cap b.s # {} \/ (a.inf /\ b.inf)

\* lexicographic from the highest index; the empty set is lowest; an infinite
\* set is above any finite one.  Sign only.
Compare(a, b) ==
  IF a = b THEN 0
  ELSE IF a.inf # b.inf THEN (IF a.inf THEN 1 ELSE -1)
  ELSE LET d == (a.s \ b.s) \cup (b.s \ a.s) IN IF SetMax(d) \in a.s THEN 1 ELSE -1

\* by lowest index; the empty set is higher than anything.  Sign only.
CompareFirst(m, a, b) ==
  LET fa == First(m, a)  fb == First(m, b) IN
  IF fa = -1 /\ fb = -1 THEN 0
  ELSE IF fa = -1 THEN 1
  ELSE IF fb = -1 THEN -1
  ELSE Sign(fa - fb)

\* 0 equal, 1 a included in b, 2 a contains b, 3 intersect without inclusion, 4 disjoint
CompareInclusion(a, b) ==
  IF a = b THEN 0
  ELSE IF IsIncluded(a, b) THEN 1
  ELSE IF IsIncluded(b, a) THEN 2
  ELSE IF Intersects(a, b) THEN 3 ELSE 4

(* ---- single-index and range constructors (arguments are indexes) ---- *)
\* the blocks exactly covering [lo, hi]; defined only for aligned ranges
Aligned(m, lo, hi) ==
  /\ lo <= hi
  /\ \E p \in Blocks(m) : m.lo[p] = lo
  /\ \E p \in Blocks(m) : m.hi[p] = hi
RangeBlocks(m, lo, hi) == {p \in Blocks(m) : lo <= m.lo[p] /\ m.hi[p] <= hi}
\* [lo, infinity), lo is a block start or the tail start
FromBlocks(m, lo) == {p \in Blocks(m) : lo <= m.lo[p]}
AlignedFrom(m, lo) == lo = TailLo(m) \/ \E p \in Blocks(m) : m.lo[p] = lo

RangeVal(m, lo, hi)  == [s |-> RangeBlocks(m, lo, hi), inf |-> FALSE]
FromVal(m, lo)       == [s |-> FromBlocks(m, lo), inf |-> TRUE]
Single(m, i)         == RangeVal(m, i, i)

Singlify(m, a) == IF IsZero(a) THEN a ELSE Single(m, First(m, a))
\* Singlify is expressible iff the first element is a whole block
SinglifyOK(m, a) == IsZero(a) \/ Aligned(m, First(m, a), First(m, a))

\* a range list (as logged by the recorder) to a value.  ranges is a
\* sequence of <<lo, hi>> with hi = -1 meaning infinity; exact iff aligned.
RangesAligned(m, ranges) ==
  \A k \in DOMAIN ranges :
     IF ranges[k][2] = -1 THEN AlignedFrom(m, ranges[k][1])
     ELSE Aligned(m, ranges[k][1], ranges[k][2])
RangesVal(m, ranges) ==
  [s   |-> UNION {IF ranges[k][2] = -1 THEN FromBlocks(m, ranges[k][1])
                  ELSE RangeBlocks(m, ranges[k][1], ranges[k][2]) : k \in DOMAIN ranges},
   inf |-> \E k \in DOMAIN ranges : ranges[k][2] = -1]

(* ---- algebraic sanity of this oracle itself (checked by TLC on small maps) ---- *)
OracleLaws(m) ==
  \A a, b \in Values(m) :
    /\ Not(m, Or(a, b)) = And(Not(m, a), Not(m, b))
    /\ AndNot(a, b) = And(a, Not(m, b))
    /\ Xor(a, b) = Or(AndNot(a, b), AndNot(b, a))
    /\ Compare(a, b) = -Compare(b, a)
    /\ (Compare(a, b) = 0 <=> a = b)
    /\ CompareFirst(m, a, b) = -CompareFirst(m, b, a)
    /\ (IsZero(a) /\ ~IsZero(b) => CompareFirst(m, a, b) = 1)
    /\ (IsZero(a) /\ ~IsZero(b) => Compare(a, b) = -1)
    /\ (CompareInclusion(a, b) = 0 <=> IsEqual(a, b))
    /\ (CompareInclusion(a, b) \in {0, 1} <=> IsIncluded(a, b))
    /\ (CompareInclusion(a, b) = 4 <=> ~Intersects(a, b) /\ ~IsZero(a) /\ ~IsZero(b))
    /\ (IsIncluded(a, b) /\ IsIncluded(b, a) => a = b)
    /\ (~a.inf => Weight(m, a) >= Cardinality(a.s))
    /\ (First(m, a) = -1 <=> IsZero(a))
    /\ (FirstUnset(m, a) = -1 <=> IsFull(m, a))
=============================================================================
