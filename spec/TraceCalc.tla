------------------------------ MODULE TraceCalc ------------------------------
(***************************************************************************)
(* Trace validation for C20.  A behaviour is                               *)
(*   Reset, then any number of                                             *)
(*   Topo     (helper hwv_calc: the library's view of an input: projection,*)
(*             level names, and on request the library's own exports)      *)
(*   calc / distrib / lstopo / diff / patch                                *)
(*            (process-level events recorded by tools/props/c20.py: the    *)
(*             structured command emitted by the model, the argv actually  *)
(*             run, stdout split in lines, exit status, signal, sanitizer) *)
(* Every tool event is checked against the relations of Calc.tla evaluated *)
(* on the topology of the latest matching Topo event; the argv is bound to *)
(* the structured command by the same rendering operators the model used.  *)
(***************************************************************************)
EXTENDS Calc, Json, IOUtils

T == ndJsonDeserialize(IOEnv.TRACE)

VARIABLES l, cur, slots, last
vars == <<l, cur, slots, last>>

NoTopo == [ok |-> 0]
NoI == [tn |-> "", po |-> FALSE, oo |-> FALSE, single |-> FALSE, words |-> <<>>]
NoLast == [toks |-> <<>>, I |-> NoI, out |-> <<>>, m |-> "", rc |-> 0, po |-> FALSE, tns |-> <<>>]
NoSlots == [a |-> NoTopo, b |-> NoTopo, p |-> NoTopo, q |-> NoTopo, lib |-> NoTopo]

Init == l = 1 /\ cur = NoTopo /\ slots = NoSlots /\ last = NoLast
IsEvent(e) == l <= Len(T) /\ T[l].e = e /\ l' = l + 1

TReset == /\ IsEvent("Reset") /\ T[l].beh \in Int
          /\ cur' = NoTopo /\ slots' = NoSlots /\ last' = NoLast

\* the helper's load: every configuration field is logged; a failed load has no projection
TopoFieldsOK(e) ==
  /\ e.flags \in Nat /\ e.all \in -1..3 /\ e.io \in -1..3 /\ e.rflags \in Nat /\ e.xmlf \in -1..7 /\ e.synf \in -1..31
  /\ e.kind \in {"S", "X"} /\ e.ok \in {0, 1} /\ e.rret \in {0, -1}
  /\ e.ok = 1 => /\ e.stage = "" /\ e.errno = "0"
                 /\ Len(e.lnames) = e.topo.depth + 6 /\ Len(e.snames) = e.topo.depth + 6
                 /\ e.sym \in {0, 1} /\ e.xmlret \in {0, -1, -2} /\ e.synret \in {0, -1, -2}
                 /\ (e.xmlf = -1) = (e.xmlret = -2) /\ (e.synf = -1) = (e.synret = -2)
                 /\ SingleMachineRoot(e.topo) /\ LinksResolved(e.topo)
TTopo == /\ IsEvent("Topo")
         /\ LET e == T[l] IN
              /\ TopoFieldsOK(e)
              /\ e.id \in {"t", "a", "b", "p", "q", "lib", "re"}
              /\ cur' = IF e.id = "t" THEN e ELSE cur
              /\ slots' = CASE e.id = "a" -> [slots EXCEPT !.a = e] [] e.id = "b" -> [slots EXCEPT !.b = e]
                            [] e.id = "p" -> [slots EXCEPT !.p = e] [] e.id = "q" -> [slots EXCEPT !.q = e]
                            [] e.id = "lib" -> [slots EXCEPT !.lib = e] [] OTHER -> slots
              \* "re": the reload of what lstopo printed for the topology in slot lib
              /\ e.id = "re" =>
                   /\ slots.lib.ok = 1
                   \* NO_EXTENDED_TYPES (1) and V1 (4) descriptions are meant for older hwloc releases: this one need not load them
                   /\ ((IF e.kind = "X" THEN slots.lib.xmlret ELSE slots.lib.synret) = 0
                       /\ ~(e.kind = "S" /\ e.ok = 0 /\ (slots.lib.synf % 2 = 1 \/ (slots.lib.synf \div 4) % 2 = 1))) =>
                        /\ e.ok = 1
                        /\ IF e.kind = "X" THEN TopoView(e.topo) = TopoView(slots.lib.topo)
                           \* HWLOC_TOPOLOGY_EXPORT_SYNTHETIC_FLAG_IGNORE_MEMORY (8): only the CPU hierarchy is described
                           ELSE IF (slots.lib.synf \div 8) % 2 = 1 THEN
                                  IF (slots.lib.synf \div 2) % 2 = 1 THEN Len(PUView(e.topo)) = Len(PUView(slots.lib.topo))
                                  ELSE PUView(e.topo) = PUView(slots.lib.topo)
                           \* HWLOC_TOPOLOGY_EXPORT_SYNTHETIC_FLAG_NO_ATTRS (2): no indexes, no sizes: the shape only
                           ELSE IF (slots.lib.synf \div 2) % 2 = 1 THEN StructView(e.topo) = StructView(slots.lib.topo)
                           ELSE SynView(e.topo) = SynView(slots.lib.topo)
         /\ last' = NoLast

\* how a tool is pointed at the input of a Topo event
RestrictArgv(te) == IF te.restrict = "" THEN <<>>
                    ELSE <<"--restrict", (IF SubSeq(te.restrict, 1, 1) = "n" THEN "nodeset=" ELSE "") \o SubSeq(te.restrict, 2, Len(te.restrict))>>
                         \o (IF te.rflags = 0 THEN <<>> ELSE <<"--restrict-flags", BS!Dec(te.rflags)>>)
InputArgv(te) == <<"-i", te.src>> \o RestrictArgv(te)
\* hwloc-calc: hwloc_topology_set_all_types_filter(KEEP_ALL), flags IMPORT_SUPPORT
CalcCfg(te) == te.ok = 1 /\ te.flags = 8 /\ te.all = 0 /\ te.io = -1 /\ te.tf = ""
\* hwloc-distrib: default filters, flags IMPORT_SUPPORT
DistribCfg(te) == te.ok = 1 /\ te.flags = 8 /\ te.all = -1 /\ te.io = -1 /\ te.tf = ""

EvOK(e) == /\ e.rc \in Int /\ e.sig \in Nat /\ e.san \in {0, 1}
           /\ \A k \in DOMAIN e.lines : Len(e.lines[k]) >= 0
EvRec(e) == [lines |-> e.lines, rc |-> e.rc, sig |-> e.sig, san |-> e.san]

TCalc ==
  /\ IsEvent("calc")
  /\ LET e == T[l]
         fb == e.mode.m \in {"fbL", "fbH"}
         sin == e.mode.m = "stdin"
         \* standard input mode: the options on the command line precede every location; a word with a blank inside
         \* is not one word of the input line (then nothing is determined)
         st0 == Run(cur.topo, St0, IF sin THEN StdinOrder(e.toks) ELSE e.toks)
         st == IF sin THEN [st0 EXCEPT !.det = st0.det /\ StdinPlain(e.toks)] ELSE st0
         lst == IF last.toks = e.toks THEN last ELSE [NoLast EXCEPT !.toks = e.toks]
     IN /\ CalcCfg(cur)
        /\ EvOK(e)
        /\ \A k \in DOMAIN e.toks : TokOK(e.toks[k])
        /\ ModeOK(e.mode)
        /\ e.targs = InputArgv(cur)
        /\ fb => last.toks = e.toks                                   \* a feedback invocation follows its source
        /\ e.argv = CmdArgv(e.toks, e.mode, lst.out)
        /\ e.stdin = (IF sin THEN StdinText(e.toks, e.mode) ELSE "")
        /\ CalcRel(cur.topo, [l |-> cur.lnames, s |-> cur.snames], st, e.mode, EvRec(e), lst)
        /\ last' = [toks |-> e.toks,
                    I |-> IF e.mode.m = "I" /\ e.rc = 0 /\ Len(e.lines) = 1
                          THEN [tn |-> e.mode.tn, po |-> e.mode.po, oo |-> e.mode.oo, single |-> e.mode.single,
                                words |-> WordsOf(e.lines[1], IF e.mode.sep = "" THEN "," ELSE e.mode.sep)]
                          ELSE lst.I,
                    out |-> e.lines, m |-> e.mode.m, rc |-> e.rc,
                    po |-> IF e.mode.m \in {"largest", "H"} THEN e.mode.po ELSE FALSE,
                    tns |-> IF e.mode.m = "H" THEN e.mode.tns ELSE <<>>]
  /\ UNCHANGED <<cur, slots>>

TDistrib ==
  /\ IsEvent("distrib")
  /\ LET e == T[l] IN
        /\ DistribCfg(cur)
        /\ EvOK(e)
        /\ e.dm.n \in Int /\ e.dm.single \in BOOLEAN /\ e.dm.reverse \in BOOLEAN /\ e.dm.f \in BS!Fmts \cup {""}
        /\ e.targs = InputArgv(cur)
        /\ e.argv = DistribArgv(e.dm)
        /\ DistribRel(cur.topo, e.dm, EvRec(e))
  /\ UNCHANGED <<cur, slots, last>>

\* lstopo: KEEP_ALL then KEEP_IMPORTANT for I/O, then the filter of its option; flags IMPORT_SUPPORT (and what
\* the option adds); the helper exported the same topology with the export flags the command line denotes (Calc!LsCfg)
LstopoCfg(te, lm) == LET c == LsCfg(lm) IN
                     /\ te.ok = 1 /\ te.flags = c.fl /\ te.all = 0 /\ te.io = 3 /\ te.tf = c.tf
                     /\ te.xmlf = c.xmlf /\ te.synf = c.synf
TLstopo ==
  /\ IsEvent("lstopo")
  /\ LET e == T[l]
         lib == slots.lib
         lm == e.lm
     IN /\ EvOK(e)
        /\ LmOK(lm)
        /\ LstopoCfg(lib, lm)
        /\ e.targs = InputArgv(lib)
        /\ e.argv = LstopoArgv(lm, e.outfile)
        \* a destination file is named after the format, and did (filef) or did not (file) exist before
        /\ lm.dest \in {"file", "filef"} => EndsWith(e.outfile, "." \o lm.of) /\ e.existed = (IF lm.dest = "filef" THEN 1 ELSE 0)
        /\ Len(e.text) >= 0
        /\ LstopoRel(lib, lm, [lines |-> e.lines, rc |-> e.rc, sig |-> e.sig, san |-> e.san, text |-> e.text])
  /\ UNCHANGED <<cur, slots, last>>

\* hwloc-diff A B > D ; hwloc-patch A D P (and hwloc-patch -R B D Q): P is B again (and Q is A)
DiffCfg(te) == te.ok = 1 /\ te.flags = 9 /\ te.all = 0 /\ te.io = -1 /\ te.tf = "" /\ te.restrict = "" /\ te.kind = "X"
TDiff ==
  /\ IsEvent("diff")
  /\ LET e == T[l] IN
        /\ EvOK(e) /\ DiffCfg(slots.a) /\ DiffCfg(slots.b)
        /\ e.edit \in {"none", "info", "name", "memory", "structure"}
        /\ e.argv = <<slots.a.src, slots.b.src, e.out>>
        /\ NoCrash(EvRec(e))
        \* the differences hwloc/diff.h can express must be exported; a structural difference must be refused
        /\ e.edit \in {"none", "info", "name", "memory"} => e.rc = 0
        /\ e.edit = "structure" => e.rc # 0
  /\ UNCHANGED <<cur, slots, last>>
TPatch ==
  /\ IsEvent("patch")
  /\ LET e == T[l] IN
        /\ EvOK(e) /\ DiffCfg(slots.a) /\ DiffCfg(slots.b)
        /\ e.reverse \in BOOLEAN /\ e.diffrc \in Int /\ e.stdin \in {0, 1} /\ e.dsize \in Int
        \* hwloc-patch(1): the diff is a file, or "-" for the standard input (e.stdin = 1: the recorder fed it the file e.diff)
        /\ e.argv = (IF e.reverse THEN <<"-R", slots.b.src>> ELSE <<slots.a.src>>) \o <<IF e.stdin = 1 THEN "-" ELSE e.diff, e.out>>
        /\ NoCrash(EvRec(e))
        /\ e.diffrc = 0 => e.rc = 0
  /\ UNCHANGED <<cur, slots, last>>
\* after the patches: the helper loaded P (and Q); "hwloc-diff followed by hwloc-patch reproduces the second topology"
TPatched ==
  /\ IsEvent("patched")
  /\ LET e == T[l] IN
        /\ e.diffrc \in Int /\ e.reverse \in BOOLEAN
        /\ e.diffrc = 0 =>
             IF e.reverse THEN DiffCfg(slots.q) /\ TopoView(slots.q.topo) = TopoView(slots.a.topo) /\ slots.q.xml = slots.a.xml
             ELSE DiffCfg(slots.p) /\ TopoView(slots.p.topo) = TopoView(slots.b.topo) /\ slots.p.xml = slots.b.xml
  /\ UNCHANGED <<cur, slots, last>>

Next == TReset \/ TTopo \/ TCalc \/ TDistrib \/ TLstopo \/ TDiff \/ TPatch \/ TPatched
Spec == Init /\ [][Next]_vars
Accepted == TLCGet("stats").diameter - 1 = Len(T)
=============================================================================
