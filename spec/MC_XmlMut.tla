------------------------------ MODULE MC_XmlMut ------------------------------
(***************************************************************************)
(* Structure-aware mutations of XML documents (property C06).  A document  *)
(* is abstracted to its element tree: NElem elements in document order,    *)
(* element e has NAttr[e] attributes.  A recipe is a sequence of at most   *)
(* MaxMut mutations; TLC enumerates every recipe (one state per recipe),   *)
(* tools/props/c06.py applies each to the real bytes and the recorder      *)
(* loads the result.  The lifecycle relation that judges the load is in    *)
(* TraceXmlLoad.tla.                                                        *)
(***************************************************************************)
EXTENDS Integers, Sequences, FiniteSets, Json, TLC

CONSTANTS NElem,      \* number of elements of the document
          NAttr,      \* sequence: attributes per element
          NVals,      \* size of the boundary value pool
          NVers,      \* size of the version pool
          NDoctypes,  \* size of the DOCTYPE line pool
          NTemplates, \* size of the pool of whole attribute lists (one valid list per object type, and each with one attribute damaged)
          ObjElems,   \* the elements that are <object>
          NContents,  \* size of the pool of text contents
          TextElems,  \* the elements that have a text content (<indexes>, <u64values>, <userdata>)
          ElemName,   \* sequence: the name of each element
          AttrName,   \* sequence of sequences: the names of the attributes of each element
          Sibs,       \* the pairs <<e, f>> of elements that are consecutive children of one parent
          MaxMut, SimLen
VARIABLES muts

MaxA == 16      \* attributes addressed per element

Mutations ==
       {<<"dropattr", e, a, 0>> : e \in 1..NElem, a \in 1..MaxA} 
  \cup {<<"setattr", e, a, v>> : e \in 1..NElem, a \in 1..MaxA, v \in 1..NVals}
  \cup {<<"dupelem", e, 0, 0>> : e \in 2..NElem}
  \cup {<<"dropelem", e, 0, 0>> : e \in 2..NElem}
  \cup {<<"swapelems", e, f, 0>> : e \in 2..NElem, f \in 2..NElem}
  \cup {<<"truncate", k, 0, 0>> : k \in 1..15}
  \cup {<<"setversion", v, 0, 0>> : v \in 1..NVers}
  \cup {<<"dupattr", e, a, 0>> : e \in 1..NElem, a \in 1..MaxA}
  \* the document ends inside the start tag of element e: (a = 0) before "<", after the name, before ">", after ">";
  \* (a > 0) after the name of attribute a, at the start, in the middle and at the end of its value
  \cup {<<"cutat", e, a, w>> : e \in 1..NElem, a \in 0..MaxA, w \in 1..4}
  \cup {<<"doctype", v, 0, 0>> : v \in 1..NDoctypes}
  \* object e becomes an object of another type: its whole attribute list is replaced by template k
  \cup {<<"retype", e, k, 0>> : e \in ObjElems, k \in 1..NTemplates}
  \* the text content of element e is replaced from a pool (numbers at the limits, long lists, typed indexes, garbage)
  \cup {<<"setcontent", e, v, 0>> : e \in TextElems, v \in 1..NContents}

\* only mutations that address something that exists
Applicable(m) ==
  /\ m[1] \in {"dropattr", "setattr", "dupattr", "cutat"} => m[3] <= NAttr[m[2]]
  /\ m[1] = "swapelems" => m[2] < m[3]

Init == muts = <<>>
Next == /\ Len(muts) < MaxMut
        /\ \E m \in Mutations : Applicable(m) /\ muts' = Append(muts, m)
Spec == Init /\ [][Next]_muts
\* for simulation: one random applicable mutation per step, drawn component by component (TLC's simulator would otherwise build every
\* successor of every step, and even the set of applicable mutations is large for documents with hundreds of elements)
Kinds == {"dropattr", "setattr", "dupattr", "dupelem", "dropelem", "swapelems", "truncate", "setversion", "cutat", "doctype", "retype", "setcontent"}
RandMut ==
  LET k == RandomElement(Kinds)
      e == RandomElement(1..NElem)   e2 == RandomElement(2..NElem)   f2 == RandomElement(2..NElem)
      a0 == RandomElement(1..MaxA)   v == RandomElement(1..NVals)   w == RandomElement(1..4)
      a == IF NAttr[e] = 0 THEN 0 ELSE ((a0 - 1) % NAttr[e]) + 1
  IN CASE k \in {"dropattr", "dupattr"} /\ a > 0 -> <<k, e, a, 0>>
       [] k = "setattr" /\ a > 0 -> <<k, e, a, v>>
       [] k = "cutat" -> <<k, e, a, w>>
       [] k = "dropelem" -> <<k, e2, 0, 0>>
       [] k = "swapelems" /\ e2 # f2 -> <<k, IF e2 < f2 THEN e2 ELSE f2, IF e2 < f2 THEN f2 ELSE e2, 0>>
       [] k = "truncate" -> <<k, RandomElement(1..15), 0, 0>>
       [] k = "setversion" -> <<k, RandomElement(1..NVers), 0, 0>>
       [] k = "doctype" -> <<k, RandomElement(1..NDoctypes), 0, 0>>
       [] k = "retype" /\ ObjElems # {} -> <<k, RandomElement(ObjElems), RandomElement(1..NTemplates), 0>>
       [] k = "setcontent" /\ TextElems # {} -> <<k, RandomElement(TextElems), RandomElement(1..NContents), 0>>
       [] OTHER -> <<"dupelem", e2, 0, 0>>
NextSim == /\ Len(muts) < MaxMut
           /\ muts' = Append(muts, RandMut)
SpecSim == Init /\ [][NextSim]_muts

\* every recipe addresses existing elements and attributes only
RecipeOK == \A k \in DOMAIN muts : Applicable(muts[k]) /\ (muts[k][1] \in {"dropattr", "setattr", "dupattr", "dupelem", "dropelem", "cutat", "retype"} => muts[k][2] <= NElem)
\* the class of a mutation: what it does to which KIND of place (element name, attribute name, pool value), whatever the position of the
\* place in the document.  Every class is replayed at least once (tools/props/c06.py takes the first recipe of each class over all base
\* documents before it samples), so a value of the pool reaches every attribute of every element kind the exporter can write.
IsRootObj(e) == e \in ObjElems /\ \A f \in ObjElems : f >= e
Class(m) == CASE m[1] \in {"dropattr", "dupattr"} -> <<m[1], ElemName[m[2]], AttrName[m[2]][m[3]]>>
              [] m[1] = "setattr" -> <<m[1], ElemName[m[2]], AttrName[m[2]][m[3]], ToString(m[4])>>
              [] m[1] \in {"dupelem", "dropelem"} -> <<m[1], ElemName[m[2]]>>
              [] m[1] = "swapelems" -> <<m[1], ElemName[m[2]], ElemName[m[3]], IF <<m[2], m[3]>> \in Sibs THEN "siblings" ELSE "apart">>
              [] m[1] = "cutat" -> <<m[1], ElemName[m[2]], IF m[3] = 0 THEN "" ELSE AttrName[m[2]][m[3]], ToString(m[4])>>
              [] m[1] = "retype" -> <<m[1], IF IsRootObj(m[2]) THEN "root" ELSE "inner", ToString(m[3])>>
              [] m[1] = "setcontent" -> <<m[1], ElemName[m[2]], ToString(m[3])>>
              [] OTHER -> <<m[1], ToString(m[2])>>
EmitState == (muts # <<>>) => PrintT(<<"RECIPE", ToJson([r |-> muts, c |-> Class(muts[1])])>>)
EmitSim == (Len(muts) = SimLen) => PrintT(<<"SIM", ToJson(muts)>>)
=============================================================================
