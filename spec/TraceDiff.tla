----------------------------- MODULE TraceDiff -----------------------------
(***************************************************************************)
(* Trace validation for C16: every line recorded from the real library by  *)
(* harness/hwv_diff must be explained by the relations of Diff.tla.        *)
(* State: the projection of every topology slot and the entries of every   *)
(* diff slot, with, for a list that diff_build returned 0 for (and for its *)
(* copies through XML), the pair of topologies it was computed from.       *)
(***************************************************************************)
EXTENDS Diff, Json, IOUtils

T == ndJsonDeserialize(IOEnv.TRACE)

VARIABLES l, topo, dif

NT == 6
ND == 6
NoP == [depth |-> -1, tshape |-> "none", tinfos |-> <<>>, objs |-> <<>>]
NoD == [E |-> <<>>, prov |-> <<>>]

Init == l = 1 /\ topo = [s \in 1..NT |-> NoP] /\ dif = [d \in 1..ND |-> NoD]

IsEvent(e) == l <= Len(T) /\ T[l].e = e /\ l' = l + 1

TReset == /\ IsEvent("Reset")
          /\ topo' = [s \in 1..NT |-> NoP]
          /\ dif' = [d \in 1..ND |-> NoD]

TLoad == /\ IsEvent("Load")
         /\ LET e == T[l] IN
              /\ e.ret = 0 /\ e.s \in 1..NT
              /\ WF(e.P)
              /\ topo' = [topo EXCEPT ![e.s] = e.P]
         /\ UNCHANGED dif

\* end of the set-up of a topology (made of unlogged edits): its projection is adopted
TSnap == /\ IsEvent("Snap")
         /\ LET e == T[l] IN
              /\ e.s \in 1..NT
              /\ WF(e.P) /\ NObj(e.P) > 0
              /\ topo' = [topo EXCEPT ![e.s] = e.P]
         /\ UNCHANGED dif

TDup == /\ IsEvent("Dup")
        /\ LET e == T[l] IN
             /\ e.ret = 0 /\ e.dst \in 1..NT /\ e.src \in 1..NT
             /\ e.PS = topo[e.src]
             /\ WF(e.P) /\ VisEq(e.P, topo[e.src])         \* "a copy of A"
             /\ topo' = [topo EXCEPT ![e.dst] = e.P]
        /\ UNCHANGED dif

\* position addressed by an edit: an object, or 0 for the topology infos
EditTarget(P, d, i) == IF Find(P, d, i) # {} THEN Find(P, d, i) ELSE IF d = P.depth THEN {0} ELSE {}

TEdit == /\ IsEvent("Edit")
         /\ LET e == T[l]  P == topo[e.s] IN
              /\ WF(e.P)
              /\ CASE e.k = "setname" -> \E k \in Find(P, e.d, e.i) : e.P = EditName(P, k, e.v)
                   [] e.k = "setmem"  -> \E k \in Find(P, e.d, e.i) : P.objs[k].numa = 1 /\ e.P = EditMem(P, k, <<e.x, 0>>)
                   [] e.k = "setinfo" -> \E k \in EditTarget(P, e.d, e.i) : e.ret = 0 /\ e.P = EditSetInfo(P, k, e.n[1], e.occ, e.v[1])
                   [] e.k = "addinfo" -> \E k \in EditTarget(P, e.d, e.i) : e.ret = 0 /\ e.P = EditAddInfo(P, k, e.n[1], e.v[1])
                   [] e.k = "rminfo"  -> \E k \in EditTarget(P, e.d, e.i) : e.ret >= 0 /\ e.P = EditRmInfo(P, k, e.n[1])
                   [] e.k \in {"misc", "restrict"} -> e.ret = 0      \* other API calls: the new projection is adopted
                   [] OTHER -> FALSE
              /\ topo' = [topo EXCEPT ![e.s] = e.P]
         /\ UNCHANGED dif

TBuild == /\ IsEvent("Build")
          /\ LET e == T[l]  PA == topo[e.a]  PB == topo[e.b] IN
               /\ e.PA = PA /\ e.PB = PB                                  \* diff_build leaves both topologies alone
               /\ IF e.flags # 0 THEN e.ret = -1 /\ e.errno = "EINVAL" /\ e.E = <<>>
                  ELSE BuildRel(PA, PB, e.ret, e.E) /\ e.errno = "0"
               /\ dif' = [dif EXCEPT ![e.dd] = [E |-> e.E, prov |-> IF e.flags = 0 /\ e.ret = 0 THEN <<PA, PB>> ELSE <<>>]]
          /\ UNCHANGED topo

TMk == /\ IsEvent("Mk")
       /\ dif' = [dif EXCEPT ![T[l].dd] = [E |-> T[l].E, prov |-> <<>>]]
       /\ UNCHANGED topo

\* a list built from (PA, PB) with return value 0 turns anything indistinguishable from PA into something
\* indistinguishable from PB, and back with APPLY_REVERSE
ProvOK(D, P, flags, ret, P2) ==
  D.prov # <<>> =>
    LET PA == D.prov[1]  PB == D.prov[2] IN
    /\ (flags = 0 /\ VisEq(P, PA)) => (ret = 0 /\ VisEq(P2, PB))
    /\ (flags = 1 /\ VisEq(P, PB)) => (ret = 0 /\ VisEq(P2, PA))

TApply == /\ IsEvent("Apply")
          /\ LET e == T[l]  P == topo[e.s]  D == dif[e.dd] IN
               /\ e.E = D.E                                               \* the list is not modified
               /\ WF(e.P)
               /\ ApplyRetOK(P, D.E, e.flags, e.ret)
               /\ ApplyStateOK(P, D.E, e.flags, e.P)
               /\ e.flags \notin KnownApplyFlags => e.errno = "EINVAL"
               /\ e.ret = 0 => e.errno = "0"
               /\ ProvOK(D, P, e.flags, e.ret, e.P)
               /\ topo' = [topo EXCEPT ![e.s] = e.P]
          /\ UNCHANGED dif

TXml == /\ IsEvent("Xml")
        /\ LET e == T[l]  D == dif[e.dd] IN
             /\ e.E = D.E
             /\ e.mode \in {"buf", "file"}
             /\ XmlRel(D.E, e.ref, e.eret, e.lret, e.E2, e.ref2)
             /\ dif' = [dif EXCEPT ![e.d2] = [E |-> e.E2,
                                              prov |-> IF e.eret = 0 /\ e.lret = 0 /\ SameEntries(D.E, e.E2) THEN D.prov ELSE <<>>]]
        /\ UNCHANGED topo

TFree == /\ IsEvent("Free")
         /\ T[l].ret = 0
         /\ dif' = [dif EXCEPT ![T[l].dd] = NoD]
         /\ UNCHANGED topo

Next == TReset \/ TLoad \/ TSnap \/ TDup \/ TEdit \/ TBuild \/ TMk \/ TApply \/ TXml \/ TFree
Spec == Init /\ [][Next]_<<l, topo, dif>>

Accepted == TLCGet("stats").diameter - 1 = Len(T)
=============================================================================
