----------------------------- MODULE MC_Shmem -----------------------------
(***************************************************************************)
(* Bounded model of the sharing protocol of hwloc/shmem.h (C19): a master  *)
(* writes images of its topology into a file, adopter processes map them.  *)
(* One named action per public entry point; the answers come from the      *)
(* expectations of Shmem.tla (the same operators judge the recorded traces *)
(* in TraceShmem.tla).  Lengths are symbolic: the topology needs LP bytes, *)
(* a page has PG bytes; the replay substitutes the real numbers.           *)
(*                                                                         *)
(* The original topology is a configuration (OrigSpace): topology flag     *)
(* word x stores the application added after load x stale caches left by a *)
(* restrict x loaded from a description or through XML.                    *)
(*                                                                         *)
(* Checked here: an adoption only ever exists for an intact image that was *)
(* designated exactly, adopted ranges never overlap each other or free     *)
(* pages, destroy gives the pages back, allow needs INCLUDE_DISALLOWED.    *)
(* Every history (edge of the state graph / simulated walk) is emitted for *)
(* replay on the real library.                                             *)
(***************************************************************************)
EXTENDS Shmem, Json, TLC

CONSTANTS Origs,          \* configurations of the original topology (see OrigSpace)
          Bases,          \* subset of {0, 1, 2, 3}: where an image may start (0: file start, 1: after the last image, 2 / 3: far)
          Offsets,        \* file offsets (pages) from the base
          Slots,          \* address slots
          WriteDevs,      \* subset of {"none","orem","arem","dlen","lrem","busy","flags"}
          AdoptDevs,      \* subset of AllAdoptDevs
          PunchModes,     \* subset of {0, 1, 2}
          PatchFields,    \* subset of HeaderFields
          CallSet,        \* set of <<op, x, y, s1, s2>>
          MaxWrites, MaxMods, MaxPatches, MaxAdopters, MaxFail, MaxOK, MaxCalls, MaxDestroys,
          NStripes, Stripe, SimLen

(* ---- the original topology: how it was loaded and what the application did to it before sharing ----
   <<family, source, topology flag word, distances added, memory attribute values added, CPU kinds registered, staleness>>
   family    which synthetic description and decorations (chosen by the replay; opaque here)
   source    "syn": loaded from the description with the flag word;  "xml": the description with all three stores filled,
             exported to XML and loaded again with the flag word (so NO_DISTANCES / NO_MEMATTRS / NO_CPUKINDS discard what the
             XML carries and IMPORT_SUPPORT imports its support bits)
   flags     sum of a subset of FlagBits
   added     the application adds its own distances / memory attribute values / CPU kinds after load (also under NO_*: those
             flags only ignore what the operating system and XML report)
   stale     "none" | "restrict": a restrict that removes objects named by the stores is the last modification, their caches
             are stale when the topology is measured and written | "refreshed": hwloc_topology_refresh() after that restrict *)
FLAG_DISALLOWED == 1
FLAG_IMPORT_SUPPORT == 8
FLAG_NO_DISTANCES == 128
FLAG_NO_MEMATTRS == 256
FLAG_NO_CPUKINDS == 512
FlagBits == {FLAG_DISALLOWED, FLAG_IMPORT_SUPPORT, FLAG_NO_DISTANCES, FLAG_NO_MEMATTRS, FLAG_NO_CPUKINDS}
RECURSIVE SumOf(_)
SumOf(S) == IF S = {} THEN 0 ELSE LET x == CHOOSE y \in S : TRUE IN x + SumOf(S \ {x})
AllFlagWords == {SumOf(S) : S \in SUBSET FlagBits}
\* every flag alone, the three NO_* together, everything, and nothing
FewFlagWords == {0, 1, 8, 128, 256, 512, 9, 896, 905}
Staleness == {"none", "restrict", "refreshed"}
OrigSpace(fams, srcs, words) ==
  {<<f, s, w, d, m, c, st>> : f \in fams, s \in srcs, w \in words, d \in {0, 1}, m \in {0, 1}, c \in {0, 1}, st \in Staleness}
HasFlag(w, b) == (w \div b) % 2 = 1

PG == 8                   \* bytes per page in the model
FarOff(b) == IF b = 2 THEN 1000 * PG ELSE 2000 * PG     \* stands for 2 GiB / 4 GiB (the replay substitutes the real numbers)
LP == 3 * PG              \* bytes needed by the topology (what get_length returns)
SlotPg(s) == 16 + 64 * s
EOFPAGES == 100           \* "far beyond the end of the file"
AllAdoptDevs == {"none", "doff+", "doff-", "dorem", "eof", "slot", "shift+", "shift-", "arem", "dlen+", "dlen-", "lrem", "flags"}

VARIABLES orig,           \* the configuration of the original topology (never changes; first entry of the history)
          phase,          \* "master" | "adopter"
          iseq,           \* images in write order; [off, pg, rem, len, snap, bad, slot]
          fend, snapno,
          free, live,     \* adopter process: free pages; live[h] = [n |-> 0] | [n |-> 1, pages, img, allowed]
          cnt,            \* counters [w, m, p, a, f, ok, c, d]
          last,           \* name of the last call on an adopted topology (history abstraction, part of the view)
          hist
vars == <<orig, phase, iseq, fend, snapno, free, live, cnt, last, hist>>

NoH == [n |-> 0]
Hs == {1, 2}
Disallowed == HasFlag(orig[3], FLAG_DISALLOWED)     \* the original was loaded with HWLOC_TOPOLOGY_FLAG_INCLUDE_DISALLOWED
\* simulated walks (SimLen > 0) draw few arguments per step, biased to the nominal ones, so that a walk mixes all actions;
\* the exhaustive runs (SimLen = 0) range over everything
Sim == SimLen > 0
Pick(S, nominal) == IF ~Sim \/ S = {} THEN S ELSE (S \cap nominal) \cup {RandomElement(S)}
Pick3(S) == IF ~Sim \/ S = {} THEN S ELSE {RandomElement(S), RandomElement(S), RandomElement(S)}
Rarely(n) == IF Sim THEN RandomElement(1..n) = 1 ELSE TRUE          \* thins an action out of the simulated walks
ImgSet == {[off |-> iseq[k].off, pg |-> iseq[k].pg, rem |-> iseq[k].rem, len |-> iseq[k].len, snap |-> iseq[k].snap, bad |-> iseq[k].bad] : k \in DOMAIN iseq}
LivePages == UNION {live[h].pages : h \in {k \in Hs : live[k].n = 1}}
Running == IF SimLen = 0 THEN TRUE ELSE Len(hist) < SimLen + 1
Step(entry) == hist' = Append(hist, entry)
Bump(f) == cnt' = [cnt EXCEPT ![f] = @ + 1]

Init == /\ orig \in Origs
        /\ phase = "master" /\ iseq = <<>> /\ fend = 0 /\ snapno = 1
        /\ free = {} /\ live = [h \in Hs |-> NoH]
        /\ cnt = [w |-> 0, m |-> 0, p |-> 0, a |-> 0, f |-> 0, ok |-> 0, c |-> 0, d |-> 0]
        /\ last = "" /\ hist = << <<"orig">> \o orig >>

(* ---- master ---- *)
\* hwloc_shmem_topology_write in a forked writer
Write == \E obase \in Pick(Bases, {0, 1}), op \in Pick(Offsets, {}), slot \in Pick(Slots, {}), dev \in Pick(WriteDevs, {"none"}) :
  /\ Running /\ phase = "master" /\ cnt.w < MaxWrites
  \* the first image at an absolute offset, the next ones after it; or at a far absolute offset (2 GiB, 4 GiB) beyond everything written
  /\ CASE obase = 0 -> iseq = <<>>
       [] obase = 1 -> iseq # <<>>
       [] OTHER -> fend <= FarOff(obase)
  /\ LET orem == IF dev = "orem" THEN 1 ELSE 0
         arem == IF dev = "arem" THEN 1 ELSE 0
         lrem == IF dev = "lrem" THEN 1 ELSE 0
         dlen == IF dev = "dlen" THEN 1 ELSE 0
         punch == IF dev = "busy" THEN 0 ELSE 1
         flags == IF dev = "flags" THEN 1 ELSE 0
         tail == IF op = 1 THEN 2 ELSE 0
         off == (CASE obase = 0 -> 0 [] obase = 1 -> fend [] OTHER -> FarOff(obase)) + op * PG + orem
         len == LP + dlen * PG + lrem
         pages == PagesOf(SlotPg(slot), arem, len, PG)
         avail == Avail(Prepared({}, {}, pages, punch), pages)
         x == WriteExpect(off % PG, arem, len % PG, flags, avail)
     IN /\ IF x.succeed
           THEN /\ iseq' = Append(iseq, [off |-> off, pg |-> SlotPg(slot), rem |-> arem, len |-> len, snap |-> snapno, bad |-> {}, slot |-> slot])
                /\ fend' = ((off + len + PG - 1) \div PG) * PG
           ELSE UNCHANGED <<iseq, fend>>
        /\ Step(<<"write", obase, op, orem, slot, 0, arem, dlen, lrem, punch, flags, tail>>)
  /\ Bump("w")
  /\ UNCHANGED <<orig, phase, snapno, free, live, last>>

\* the master modifies its topology between two writes (new snapshot, new length)
Modify == /\ Running /\ phase = "master" /\ cnt.m < MaxMods /\ iseq # <<>> /\ Rarely(4)
          /\ snapno' = snapno + 1
          /\ Step(<<"modify", snapno>>)
          /\ Bump("m")
          /\ UNCHANGED <<orig, phase, iseq, fend, free, live, last>>

\* a header field or the ABI word of an image is damaged (or repaired: the same byte flips back)
Patch == \E k \in Pick(DOMAIN iseq, {}), f \in Pick(PatchFields, {}) :
  /\ Running /\ phase = "master" /\ cnt.p < MaxPatches /\ Rarely(3)
  /\ iseq' = [iseq EXCEPT ![k].bad = Toggle(@, f)]
  /\ Step(<<"patch", k - 1, f>>)
  /\ Bump("p")
  /\ UNCHANGED <<orig, phase, fend, snapno, free, live, last>>

AdopterStart == /\ Running /\ phase = "master" /\ cnt.a < MaxAdopters /\ (IF iseq = <<>> THEN Rarely(4) ELSE TRUE)
                /\ phase' = "adopter" /\ free' = {} /\ live' = [h \in Hs |-> NoH]
                /\ Step(<<"adopter">>)
                /\ Bump("a")
                /\ UNCHANGED <<orig, iseq, fend, snapno, last>>

AdopterEnd == /\ Running /\ phase = "adopter" /\ (IF iseq = <<>> THEN TRUE ELSE Rarely(8))
              /\ phase' = "master" /\ free' = {} /\ live' = [h \in Hs |-> NoH]
              /\ Step(<<"end">>)
              /\ UNCHANGED <<orig, iseq, fend, snapno, cnt, last>>

(* ---- adopter ---- *)
\* hwloc_shmem_topology_adopt with the arguments of image k and one deviation
Adopt == \E h \in Hs, k \in (DOMAIN iseq \cup {0}), dev \in Pick(AdoptDevs, {"none"}), punch \in Pick(PunchModes, {1}) :
  /\ Running /\ phase = "adopter" /\ live[h].n = 0
  /\ IF Sim /\ iseq = <<>> THEN cnt.f < 2 ELSE TRUE
  /\ (k = 0) <=> (iseq = <<>>)                 \* k = 0: nothing was ever written
  /\ LET i == IF k = 0 THEN [off |-> 0, pg |-> SlotPg(0), rem |-> 0, len |-> LP, slot |-> 0] ELSE iseq[k]
         doff == CASE dev = "doff+" -> 1 [] dev = "doff-" -> -1 [] dev = "eof" -> EOFPAGES [] OTHER -> 0
         dorem == IF dev = "dorem" THEN 1 ELSE 0
         slot == IF dev = "slot" THEN (CHOOSE s \in 0..1 : s # i.slot) ELSE i.slot
         shift == CASE dev = "shift+" -> 1 [] dev = "shift-" -> -1 [] OTHER -> 0
         arem == IF dev = "arem" THEN 1 - i.rem ELSE i.rem
         dlen == CASE dev = "dlen+" -> 1 [] dev = "dlen-" -> -1 [] OTHER -> 0
         lrem == IF dev = "lrem" THEN 1 ELSE 0
         flags == IF dev = "flags" THEN 1 ELSE 0
         off == i.off + doff * PG + dorem
         pg == SlotPg(slot) + shift
         len == i.len + dlen * PG + lrem
         pages == PagesOf(pg, arem, len, PG)
         free1 == Prepared(free, LivePages, pages, punch)
         avail == Avail(free1, pages)
         x == AdoptExpect(ImgSet, off, pg, arem, len, flags, avail)
     IN /\ off >= 0
        /\ IF x.succeed
           THEN /\ cnt.ok < MaxOK
                /\ live' = [live EXCEPT ![h] = [n |-> 1, pages |-> pages, img |-> k, allowed |-> FALSE]]
                /\ free' = free1 \ pages
                /\ Bump("ok")
           ELSE /\ cnt.f < MaxFail
                /\ live' = live /\ free' = free1
                /\ Bump("f")
        /\ Step(<<"adopt", h - 1, k - 1, doff, dorem, slot, shift, arem, dlen, lrem, punch, flags>>)
  /\ UNCHANGED <<orig, phase, iseq, fend, snapno, last>>

\* any public call on an adopted topology: only hwloc_topology_allow may change something, and only the allowed sets
Call == \E h \in Hs, c \in Pick3(CallSet) :
  /\ Running /\ phase = "adopter" /\ live[h].n = 1 /\ cnt.c < MaxCalls
  /\ live' = IF c[1] = "allow" /\ AllowAccepted(Disallowed, c[2], c[4] # "-", c[5] # "-")
             THEN [live EXCEPT ![h].allowed = TRUE] ELSE live
  /\ last' = c[1]
  /\ Step(<<"call", h - 1, c[1], c[2], c[3], c[4], c[5]>>)
  /\ Bump("c")
  /\ UNCHANGED <<orig, phase, iseq, fend, snapno, free>>

\* hwloc_topology_destroy unmaps
Destroy == \E h \in Hs :
  /\ Running /\ phase = "adopter" /\ live[h].n = 1 /\ cnt.d < MaxDestroys /\ Rarely(4)
  /\ free' = free \cup live[h].pages
  /\ live' = [live EXCEPT ![h] = NoH]
  /\ Step(<<"destroy", h - 1>>)
  /\ Bump("d")
  /\ UNCHANGED <<orig, phase, iseq, fend, snapno, last>>

\* end of a simulated walk: print it once
SimEnd == /\ SimLen > 0 /\ Len(hist) = SimLen + 1
          /\ PrintT(<<"SIM", ToJson(hist)>>)
          /\ FALSE
          /\ UNCHANGED vars

Next == Write \/ Modify \/ Patch \/ AdopterStart \/ AdopterEnd \/ Adopt \/ Call \/ Destroy \/ SimEnd
Spec == Init /\ [][Next]_vars
StateView == <<orig, phase, iseq, fend, snapno, free, live, cnt, last>>

(* ---- the property on the model ---- *)
\* an adopted topology always stems from an image that was designated exactly: its pages are the image's pages
AdoptedExact == \A h \in Hs : live[h].n = 1 =>
                   /\ live[h].img \in DOMAIN iseq
                   /\ iseq[live[h].img].bad = {}            \* and intact (images only change while no adopter runs)
                   /\ live[h].pages = PagesOf(iseq[live[h].img].pg, iseq[live[h].img].rem, iseq[live[h].img].len, PG)
\* address ranges in use are exclusive
RangesExclusive == /\ \A h \in Hs : live[h].n = 1 => live[h].pages \cap free = {}
                   /\ (live[1].n = 1 /\ live[2].n = 1) => live[1].pages \cap live[2].pages = {}
\* the allowed sets only ever move when the original had INCLUDE_DISALLOWED
AllowNeedsFlag == \A h \in Hs : (live[h].n = 1 /\ live[h].allowed) => Disallowed
\* images never overlap in the file
ImagesDisjoint == \A a, b \in DOMAIN iseq : a < b => iseq[a].off + iseq[a].len <= iseq[b].off
MasterHasNoAdoptions == phase = "master" => (free = {} /\ \A h \in Hs : live[h].n = 0)

RECURSIVE HSum(_)
HSum(h) == IF h = <<>> THEN 0
           ELSE ((Len(Head(h)) * 7 + Len(Head(h)[1]) + (IF Len(Head(h)) > 3 /\ Head(h)[1] \notin {"call", "orig"} THEN Head(h)[3] + 3 * Head(h)[4] + 8 ELSE 1)) + 5 * HSum(Tail(h))) % 1000003
EmitEdge == (HSum(hist') % NStripes = Stripe) => PrintT(<<"EDGE", ToJson(hist')>>)
=============================================================================
