--------------------------- MODULE TraceSnapshot ---------------------------
(***************************************************************************)
(* Trace validation of the behaviours recorded by harness/hwv_snapshot     *)
(* (property C18).  Specification state:                                   *)
(*   snap   the snapshot copied last ([id, kind]), rem the set of paths    *)
(*          removed from the copy, env the environment set so far          *)
(*   slots  per slot: is a topology loaded there, its projection digest    *)
(*          and flags                                                      *)
(*   seen   outcome of the first load for every key                        *)
(*          (snapshot, removed paths, environment, filter preset, type     *)
(*          filter, flags)                                                 *)
(*   known  digest -> projection, for the projections logged in this       *)
(*          behaviour (the recorder logs a projection once per behaviour   *)
(*          in compact mode and names it by its digest afterwards)         *)
(*   wf, eq digests (pairs of digests) whose WellFormed / Equivalent       *)
(*          verdict is already known to be TRUE: both are functions of     *)
(*          the projection alone, so the verdict is reused, never assumed  *)
(*   oos    the behaviour removed an instance directory on its own: it is  *)
(*          outside the property and nothing more is demanded of it; or    *)
(*          one of its events was rejected already                         *)
(*   bad    number of rejected events so far                                *)
(***************************************************************************)
EXTENDS Snapshot, Json, IOUtils, TLC

T == ndJsonDeserialize(IOEnv.TRACE)

VARIABLES l, snap, rem, env, slots, seen, known, wf, eq, oos, bad
vars == <<l, snap, rem, env, slots, seen, known, wf, eq, oos, bad>>

NSlots == 3
NoSnap == [id |-> "", kind |-> ""]
ZeroPd == <<0, 0, 0, 0>>
DeadSlot == [live |-> FALSE, pd |-> ZeroPd, flags |-> 0]

Init == /\ l = 1 /\ snap = NoSnap /\ rem = {} /\ env = {} /\ slots = [k \in 1..NSlots |-> DeadSlot]
        /\ seen = {} /\ known = {} /\ wf = {} /\ eq = {} /\ oos = FALSE /\ bad = 0

IsEvent(e) == l <= Len(T) /\ T[l].e = e /\ l' = l + 1
E == T[l]

\* ---- projections: logged in full, or named by the digest of one logged before in this behaviour ----
IsKnown(pd) == \E x \in known : x.pd = pd
KnownTopo(pd) == (CHOOSE x \in known : x.pd = pd).topo
HasTopo(k) == IF E.full[k] = 1 THEN TRUE ELSE IsKnown(E.pds[k])
TopoAt(k) == IF E.full[k] = 1 THEN E.topos[k] ELSE KnownTopo(E.pds[k])
\* a projection logged in full under a digest already known must be that projection
FullConsistent(k) == (E.full[k] = 1 /\ IsKnown(E.pds[k])) => E.topos[k] = KnownTopo(E.pds[k])
Learn(ks) == known \cup {[pd |-> E.pds[k], topo |-> E.topos[k]] : k \in {j \in ks : E.full[j] = 1 /\ ~IsKnown(E.pds[j])}}
\* slots the event does not talk about are logged as absent
Absent(k) == E.live[k] = 0 /\ E.full[k] = 0 /\ E.pds[k] = ZeroPd /\ E.topos[k].n = 0
ShapeOK == Len(E.topos) = NSlots /\ Len(E.full) = NSlots /\ Len(E.live) = NSlots /\ Len(E.pds) = NSlots

SeenKey(key) == \E x \in seen : x.key = key
SeenOut(key) == (CHOOSE x \in seen : x.key = key).out

TReset == /\ IsEvent("Reset")
          /\ snap' = NoSnap /\ rem' = {} /\ env' = {} /\ slots' = [k \in 1..NSlots |-> DeadSlot]
          /\ seen' = {} /\ known' = {} /\ oos' = FALSE
          /\ UNCHANGED <<wf, eq, bad>>

\* the environment is part of the key of a load
TEnv == /\ IsEvent("env") /\ ~oos
        /\ E.name \notin {"HWLOC_FSROOT", "HWLOC_CPUID_PATH"}          \* those two are set by the recorder from the copy
        /\ env' = {p \in env : p[1] # E.name} \cup (IF E.value = "-" THEN {} ELSE {<<E.name, E.value>>})
        /\ UNCHANGED <<snap, rem, slots, seen, known, wf, eq, oos, bad>>

TCopy == /\ IsEvent("copy") /\ ~oos
         /\ E.kind \in SnKinds
         /\ snap' = [id |-> E.snap, kind |-> E.kind] /\ rem' = {}
         /\ UNCHANGED <<env, slots, seen, known, wf, eq, oos, bad>>

\* a path is removed from the copy: ret 0 = removed now, 1 = it was already gone with a directory above it
TRemove == /\ IsEvent("remove") /\ ~oos
           /\ snap # NoSnap
           /\ E.ret \in {0, 1}
           /\ E.ret = 1 <=> E.kind = "gone"
           /\ E.kind \in {"file", "symlink", "dir", "gone"}
           /\ rem' = rem \cup {E.path}
           /\ oos' = (E.ret = 0 /\ ~SnRemovable(E.kind, E.path))
           /\ UNCHANGED <<snap, env, slots, seen, known, wf, eq, bad>>

TDestroy == /\ IsEvent("destroy") /\ ~oos
            /\ slots[E.slot + 1].live
            /\ slots' = [slots EXCEPT ![E.slot + 1] = DeadSlot]
            /\ UNCHANGED <<snap, rem, env, seen, known, wf, eq, oos, bad>>

\* ---- rejected events ----
\* An event whose relation is false (or a Crash / Hang / Leak event) is REJECTED: it is counted in `bad` (the final TAccept
\* step, which the postcondition demands, needs bad = 0), printed with the name of the part of the relation that is false
\* and, for diagnostics only, the false WellFormed clauses / the differing fields, and the rest of its behaviour is not
\* judged (as when validation used to stop at the event and resume with the next behaviour).  One TLC run thus reports
\* every rejected behaviour of a trace.
Reject(what, why) == /\ PrintT(<<"REJECT", l, what, why>>)
                     /\ bad' = bad + 1 /\ oos' = TRUE

\* diagnostics (never part of a verdict): DiagSnapshot.tla's and DiagXml.tla's questions, asked where the event is rejected
InclusionsButMemCcs(t) ==
  \A i \in Pos(t) : LET o == O(t, i) IN
    HasSets(o) =>
      /\ CS(o) \subseteq CCS(o) /\ NS(o) \subseteq CNS(o)
      /\ (o.parent # 0 /\ HasSets(O(t, o.parent))) =>
           LET p == O(t, o.parent) IN
           /\ CS(o) \subseteq CS(p) /\ (IsMem(o) \/ CCS(o) \subseteq CCS(p))
           /\ NS(o) \subseteq NS(p) /\ CNS(o) \subseteq CNS(p)
MemCcsInclusionOnly(t) == LinksResolved(t) /\ ~SetInclusions(t) /\ InclusionsButMemCcs(t)
MemCcsOnly(a0, b0, flags) ==
  LET a == TopoCoreF(a0, Bit(flags, TOPO_FLAG_IMPORT_SUPPORT), flags)
      b == TopoCoreF(b0, Bit(flags, TOPO_FLAG_IMPORT_SUPPORT), flags) IN
  /\ [a EXCEPT !.objs = <<>>] = [b EXCEPT !.objs = <<>>]
  /\ Len(a.objs) = Len(b.objs)
  /\ \A i \in 1..Len(a.objs) : LET x == a.objs[i]  y == b.objs[i] IN
        x # y => /\ IsMem(x) /\ [x EXCEPT !.ccs = y.ccs] = y
                 /\ x.parent \in 1..Len(a.objs) /\ x.ccs # a.objs[x.parent].ccs /\ y.ccs = b.objs[x.parent].ccs
  /\ \E i \in 1..Len(a.objs) : a.objs[i] # b.objs[i]
WfDiag(t) == LET all == {Clauses[k] : k \in {j \in 2..Len(Clauses) : ~Clause(t, Clauses[j])}} IN
             /\ PrintT(<<"FIRSTBAD", l, FirstBad(t, 1)>>)
             /\ PrintT(<<"ALLBAD", l, all>>)
             /\ ("SetInclusions" \in all) => PrintT(<<"MEMCCSINCLUSIONONLY", l, MemCcsInclusionOnly(t)>>)

\* ---- load: relations (1) (2) (3) ----
LS == E.slot + 1
LLegal == FlagsLegal(E.flags)
LFlags == IF LLegal THEN E.flags ELSE 0
LKey == [snap |-> snap.id, rem |-> rem, env |-> env, filt |-> E.filt, tty |-> E.tty, tf |-> E.tf, flags |-> LFlags]
LOk == E.ret = 0
LOut == [ret |-> E.ret, pd |-> E.pds[LS]]
\* what the recorder did and logged around the load
LoadShape ==
  /\ snap # NoSnap
  /\ ShapeOK
  /\ LS \in 1..NSlots /\ ~slots[LS].live
  /\ \A k \in 1..NSlots : k # LS => Absent(k)
  /\ E.filt \in SnPresetSet /\ E.setfilt = 0
  \* the one type filter set after the preset, if any: accepted iff legal (hwloc.h, hwloc_topology_set_type_filter)
  /\ IF E.tty = -1 THEN E.tf = -1 /\ E.settf = 0
     ELSE E.tty \in 0..(NTYPES - 1) /\ E.tf \in 0..3 /\ E.settf = (IF FilterLegal(E.tty, E.tf) THEN 0 ELSE -1)
  /\ E.setflags = (IF LLegal THEN 0 ELSE -1)
  /\ E.errno \in STRING
\* (1) fails cleanly or yields a topology carrying the configuration ...
LoadOutcome ==
  \/ LoadFails(E.ret, E.live[LS]) /\ Absent(LS)
  \/ /\ HasTopo(LS) /\ FullConsistent(LS)
     /\ LoadYields(E.ret, E.live[LS], TopoAt(LS), E.filt, E.tty, E.tf, LFlags)
     /\ \A p \in env : p[1] = "HWLOC_COMPONENTS" => ConfigRespected(TopoAt(LS), LFlags, snap.kind, p[2])
\* ... that is well-formed (only asked after LoadOutcome: a load that returned 0 then has a projection)
LoadWellFormed == LOk => (IF E.pds[LS] \in wf THEN TRUE ELSE WellFormed(TopoAt(LS)))      \* IF, not \/: TLC would evaluate both disjuncts
\* (2) same key, same outcome
LoadDeterministic == SeenKey(LKey) => Deterministic(SeenOut(LKey), LOut)
\* (3) INCLUDE_DISALLOWED against the load of the same key without the flag, whichever came first
LoadDisallowed ==
  /\ (LOk /\ Bit(LFlags, FLAG_INCLUDE_DISALLOWED)) =>
       LET k0 == [LKey EXCEPT !.flags = LFlags - FLAG_INCLUDE_DISALLOWED] IN
       (SeenKey(k0) /\ SeenOut(k0).ret = 0) => DisallowedRel(KnownTopo(SeenOut(k0).pd), TopoAt(LS))
  /\ (LOk /\ ~Bit(LFlags, FLAG_INCLUDE_DISALLOWED)) =>
       LET k1 == [LKey EXCEPT !.flags = LFlags + FLAG_INCLUDE_DISALLOWED] IN
       (SeenKey(k1) /\ SeenOut(k1).ret = 0) => DisallowedRel(TopoAt(LS), KnownTopo(SeenOut(k1).pd))
LoadOK == LoadShape /\ LoadOutcome /\ LoadWellFormed /\ LoadDeterministic /\ LoadDisallowed
LoadWhy == IF ~LoadShape THEN "Shape" ELSE IF ~LoadOutcome THEN "Outcome" ELSE IF ~LoadWellFormed THEN "WellFormed"
           ELSE IF ~LoadDeterministic THEN "Deterministic" ELSE "DisallowedRel"
TLoad ==
  /\ IsEvent("load") /\ ~oos
  /\ IF LoadOK
     THEN /\ seen' = IF SeenKey(LKey) THEN seen ELSE seen \cup {[key |-> LKey, out |-> LOut]}
          /\ wf' = IF LOk THEN wf \cup {E.pds[LS]} ELSE wf
          /\ known' = IF LOk THEN Learn({LS}) ELSE known
          /\ slots' = [slots EXCEPT ![LS] = IF LOk THEN [live |-> TRUE, pd |-> E.pds[LS], flags |-> LFlags] ELSE DeadSlot]
          /\ UNCHANGED <<oos, bad>>
     ELSE /\ Reject("load", LoadWhy)
          /\ (LoadWhy = "WellFormed") => WfDiag(TopoAt(LS))
          /\ UNCHANGED <<seen, wf, known, slots>>
  /\ UNCHANGED <<snap, rem, env, eq>>

\* ---- XML round trip: relation (4) ----
XS == E.src + 1
XD == E.slot + 1
XmlShape ==
  /\ ShapeOK
  /\ XS \in 1..NSlots /\ XD \in 1..NSlots /\ XS # XD
  /\ slots[XS].live /\ ~slots[XD].live
  /\ \A k \in 1..NSlots : (k # XS /\ k # XD) => Absent(k)
  /\ E.flags = slots[XS].flags /\ E.keepall = 1
  \* exporting is a consulting call: the source projects as before
  /\ E.live[XS] = 1 /\ E.pds[XS] = slots[XS].pd /\ HasTopo(XS) /\ FullConsistent(XS)
  \* what hwloc exported, hwloc loads
  /\ E.exp = 0 /\ E.len > 0 /\ E.set = 0 /\ E.setflags = 0 /\ E.load = 0 /\ E.errno \in STRING
  /\ E.live[XD] = 1 /\ HasTopo(XD) /\ FullConsistent(XD)
XmlRel == IF <<E.pds[XS], E.pds[XD], E.flags>> \in eq THEN TRUE ELSE XmlSelfConsistent(TopoAt(XS), TopoAt(XD), E.flags)
TXmlImport ==
  /\ IsEvent("xml_import") /\ ~oos
  /\ IF XmlShape /\ XmlRel
     THEN /\ eq' = eq \cup {<<E.pds[XS], E.pds[XD], E.flags>>}
          /\ known' = Learn({XS, XD})
          /\ slots' = [slots EXCEPT ![XD] = [live |-> TRUE, pd |-> E.pds[XD], flags |-> E.flags]]
          /\ UNCHANGED <<oos, bad>>
     ELSE /\ Reject("xml_import", IF XmlShape THEN "XmlSelfConsistent" ELSE "Shape")
          /\ XmlShape => /\ PrintT(<<"EQUIVDIFF", l, EquivDiff(TopoAt(XS), TopoAt(XD), E.flags)>>)
                         /\ PrintT(<<"MEMCCSONLY", l, MemCcsOnly(TopoAt(XS), TopoAt(XD), E.flags)>>)
          /\ UNCHANGED <<eq, known, slots>>
  /\ UNCHANGED <<snap, rem, env, seen, wf>>

\* the loader process died, hung, or leaked memory (LeakSanitizer, consulted when the behaviour has released everything)
TDied == /\ l <= Len(T) /\ T[l].e \in {"Crash", "Hang", "Leak"} /\ ~oos /\ l' = l + 1
         /\ Reject(T[l].e, "memory error or hang")
         /\ UNCHANGED <<snap, rem, env, slots, seen, known, wf, eq>>

\* a behaviour that removed an instance directory on its own is not judged; nor is the rest of a rejected behaviour
TOutOfScope == /\ oos /\ l <= Len(T) /\ T[l].e \notin {"Reset", "InfraFail"} /\ l' = l + 1
               /\ UNCHANGED <<snap, rem, env, slots, seen, known, wf, eq, oos, bad>>

\* the whole trace was read and no event was rejected
TAccept == /\ l = Len(T) + 1 /\ bad = 0 /\ l' = l + 1
           /\ UNCHANGED <<snap, rem, env, slots, seen, known, wf, eq, oos, bad>>

\* InfraFail events (and events that break the recorder's own protocol) have no action: validation stops there
Next == TReset \/ TEnv \/ TCopy \/ TRemove \/ TDestroy \/ TLoad \/ TXmlImport \/ TDied \/ TOutOfScope \/ TAccept
Spec == Init /\ [][Next]_vars

Accepted == TLCGet("stats").diameter - 1 = Len(T) + 1
=============================================================================
