--------------------------- MODULE TraceSnapshot ---------------------------
(***************************************************************************)
(* Trace validation of the behaviours recorded by harness/hwv_snapshot     *)
(* (property C18).  Specification state:                                   *)
(*   snap   the snapshot copied last ([id, kind]), rem the set of paths    *)
(*          removed from the copy, env the environment set so far          *)
(*   slots  per slot: is a topology loaded there, its projection digest    *)
(*          and flags                                                      *)
(*   seen   outcome of the first load for every key                        *)
(*          (snapshot, removed paths, environment, filter preset, flags)   *)
(*   known  digest -> projection, for the projections logged in this       *)
(*          behaviour (the recorder logs a projection once per behaviour   *)
(*          in compact mode and names it by its digest afterwards)         *)
(*   wf, eq digests (pairs of digests) whose WellFormed / Equivalent       *)
(*          verdict is already known to be TRUE: both are functions of     *)
(*          the projection alone, so the verdict is reused, never assumed  *)
(*   oos    the behaviour removed an instance directory on its own: it is  *)
(*          outside the property and nothing more is demanded of it        *)
(***************************************************************************)
EXTENDS Snapshot, Json, IOUtils, TLC

T == ndJsonDeserialize(IOEnv.TRACE)

VARIABLES l, snap, rem, env, slots, seen, known, wf, eq, oos
vars == <<l, snap, rem, env, slots, seen, known, wf, eq, oos>>

NSlots == 3
NoSnap == [id |-> "", kind |-> ""]
ZeroPd == <<0, 0, 0, 0>>
DeadSlot == [live |-> FALSE, pd |-> ZeroPd, flags |-> 0]

Init == /\ l = 1 /\ snap = NoSnap /\ rem = {} /\ env = {} /\ slots = [k \in 1..NSlots |-> DeadSlot]
        /\ seen = {} /\ known = {} /\ wf = {} /\ eq = {} /\ oos = FALSE

IsEvent(e) == l <= Len(T) /\ T[l].e = e /\ l' = l + 1
E == T[l]

\* ---- projections: logged in full, or named by the digest of one logged before in this behaviour ----
IsKnown(pd) == \E x \in known : x.pd = pd
KnownTopo(pd) == (CHOOSE x \in known : x.pd = pd).topo
HasTopo(k) == IF E.full[k] = 1 THEN TRUE ELSE IsKnown(E.pds[k])
TopoAt(k) == IF E.full[k] = 1 THEN E.topos[k] ELSE KnownTopo(E.pds[k])
\* a projection logged in full under a digest already known must be that projection
FullConsistent(k) == (E.full[k] = 1 /\ IsKnown(E.pds[k])) => E.topos[k] = KnownTopo(E.pds[k])
Learn(ks) == known \cup {[pd |-> E.pds[k], topo |-> E.topos[k]] : k \in {j \in ks : E.full[j] = 1 /\ ~IsKnown(E.pds[j])}}
\* slots the event does not talk about are logged as absent
Absent(k) == E.live[k] = 0 /\ E.full[k] = 0 /\ E.pds[k] = ZeroPd /\ E.topos[k].n = 0
ShapeOK == Len(E.topos) = NSlots /\ Len(E.full) = NSlots /\ Len(E.live) = NSlots /\ Len(E.pds) = NSlots

SeenKey(key) == \E x \in seen : x.key = key
SeenOut(key) == (CHOOSE x \in seen : x.key = key).out

TReset == /\ IsEvent("Reset")
          /\ snap' = NoSnap /\ rem' = {} /\ env' = {} /\ slots' = [k \in 1..NSlots |-> DeadSlot]
          /\ seen' = {} /\ known' = {} /\ oos' = FALSE
          /\ UNCHANGED <<wf, eq>>

\* the environment is part of the key of a load
TEnv == /\ IsEvent("env") /\ ~oos
        /\ E.name \notin {"HWLOC_FSROOT", "HWLOC_CPUID_PATH"}          \* those two are set by the recorder from the copy
        /\ env' = {p \in env : p[1] # E.name} \cup (IF E.value = "-" THEN {} ELSE {<<E.name, E.value>>})
        /\ UNCHANGED <<snap, rem, slots, seen, known, wf, eq, oos>>

TCopy == /\ IsEvent("copy") /\ ~oos
         /\ E.kind \in SnKinds
         /\ snap' = [id |-> E.snap, kind |-> E.kind] /\ rem' = {}
         /\ UNCHANGED <<env, slots, seen, known, wf, eq, oos>>

\* a path is removed from the copy: ret 0 = removed now, 1 = it was already gone with a directory above it
TRemove == /\ IsEvent("remove") /\ ~oos
           /\ snap # NoSnap
           /\ E.ret \in {0, 1}
           /\ E.ret = 1 <=> E.kind = "gone"
           /\ E.kind \in {"file", "symlink", "dir", "gone"}
           /\ rem' = rem \cup {E.path}
           /\ oos' = (E.ret = 0 /\ ~SnRemovable(E.kind, E.path))
           /\ UNCHANGED <<snap, env, slots, seen, known, wf, eq>>

TDestroy == /\ IsEvent("destroy") /\ ~oos
            /\ slots[E.slot + 1].live
            /\ slots' = [slots EXCEPT ![E.slot + 1] = DeadSlot]
            /\ UNCHANGED <<snap, rem, env, seen, known, wf, eq, oos>>

\* ---- load: relations (1) (2) (3) ----
TLoad ==
  /\ IsEvent("load") /\ ~oos
  /\ snap # NoSnap
  /\ ShapeOK
  /\ LET s == E.slot + 1
         legal == FlagsLegal(E.flags)
         flags == IF legal THEN E.flags ELSE 0
         key == [snap |-> snap.id, rem |-> rem, env |-> env, filt |-> E.filt, flags |-> flags]
         ok == E.ret = 0
         out == [ret |-> E.ret, pd |-> E.pds[s]]
     IN
     /\ s \in 1..NSlots /\ ~slots[s].live
     /\ \A k \in 1..NSlots : k # s => Absent(k)
     /\ E.filt \in SnPresetSet /\ E.setfilt = 0
     /\ E.setflags = (IF legal THEN 0 ELSE -1)
     /\ E.errno \in STRING
     \* (1) fails cleanly or yields a well-formed topology carrying the configuration
     /\ \/ LoadFails(E.ret, E.live[s]) /\ Absent(s)
        \/ /\ HasTopo(s) /\ FullConsistent(s)
           /\ LoadYields(E.ret, E.live[s], TopoAt(s), E.filt, flags)
           /\ \A p \in env : p[1] = "HWLOC_COMPONENTS" => ConfigRespected(TopoAt(s), flags, snap.kind, p[2])
           /\ IF E.pds[s] \in wf THEN TRUE ELSE WellFormed(TopoAt(s))      \* IF, not \/: TLC would evaluate both disjuncts
     \* (2) same key, same outcome
     /\ SeenKey(key) => Deterministic(SeenOut(key), out)
     \* (3) INCLUDE_DISALLOWED against the load of the same key without the flag, whichever came first
     /\ (ok /\ Bit(flags, FLAG_INCLUDE_DISALLOWED)) =>
          LET k0 == [key EXCEPT !.flags = flags - FLAG_INCLUDE_DISALLOWED] IN
          (SeenKey(k0) /\ SeenOut(k0).ret = 0) => DisallowedRel(KnownTopo(SeenOut(k0).pd), TopoAt(s))
     /\ (ok /\ ~Bit(flags, FLAG_INCLUDE_DISALLOWED)) =>
          LET k1 == [key EXCEPT !.flags = flags + FLAG_INCLUDE_DISALLOWED] IN
          (SeenKey(k1) /\ SeenOut(k1).ret = 0) => DisallowedRel(TopoAt(s), KnownTopo(SeenOut(k1).pd))
     /\ seen' = IF SeenKey(key) THEN seen ELSE seen \cup {[key |-> key, out |-> out]}
     /\ wf' = IF ok THEN wf \cup {E.pds[s]} ELSE wf
     /\ known' = IF ok THEN Learn({s}) ELSE known
     /\ slots' = [slots EXCEPT ![s] = IF ok THEN [live |-> TRUE, pd |-> E.pds[s], flags |-> flags] ELSE DeadSlot]
  /\ UNCHANGED <<snap, rem, env, eq, oos>>

\* ---- XML round trip: relation (4) ----
TXmlImport ==
  /\ IsEvent("xml_import") /\ ~oos
  /\ ShapeOK
  /\ LET s == E.src + 1  d == E.slot + 1 IN
     /\ s \in 1..NSlots /\ d \in 1..NSlots /\ s # d
     /\ slots[s].live /\ ~slots[d].live
     /\ \A k \in 1..NSlots : (k # s /\ k # d) => Absent(k)
     /\ E.flags = slots[s].flags /\ E.keepall = 1
     \* exporting is a consulting call: the source projects as before
     /\ E.live[s] = 1 /\ E.pds[s] = slots[s].pd /\ HasTopo(s) /\ FullConsistent(s)
     \* what hwloc exported, hwloc loads
     /\ E.exp = 0 /\ E.len > 0 /\ E.set = 0 /\ E.setflags = 0 /\ E.load = 0 /\ E.errno \in STRING
     /\ E.live[d] = 1 /\ HasTopo(d) /\ FullConsistent(d)
     /\ IF <<E.pds[s], E.pds[d], E.flags>> \in eq THEN TRUE ELSE XmlSelfConsistent(TopoAt(s), TopoAt(d), E.flags)
     /\ eq' = eq \cup {<<E.pds[s], E.pds[d], E.flags>>}
     /\ known' = Learn({s, d})
     /\ slots' = [slots EXCEPT ![d] = [live |-> TRUE, pd |-> E.pds[d], flags |-> E.flags]]
  /\ UNCHANGED <<snap, rem, env, seen, wf, oos>>

\* a behaviour that removed an instance directory on its own is not judged
TOutOfScope == /\ oos /\ l <= Len(T) /\ T[l].e \notin {"Reset", "InfraFail"} /\ l' = l + 1
               /\ UNCHANGED <<snap, rem, env, slots, seen, known, wf, eq, oos>>

\* Crash / Hang / Leak / InfraFail events have no action: the trace is rejected there
Next == TReset \/ TEnv \/ TCopy \/ TRemove \/ TDestroy \/ TLoad \/ TXmlImport \/ TOutOfScope
Spec == Init /\ [][Next]_vars

Accepted == TLCGet("stats").diameter - 1 = Len(T)
=============================================================================
