--------------------------- MODULE TraceConcurrency ---------------------------
(***************************************************************************)
(* Trace validation for C17 against the protocol of Concurrency.tla:       *)
(*  - adopted: the whole consulting battery ran on a shared-memory adopted *)
(*    (read-only mapped) copy and saw what the original reports; a write   *)
(*    to topology memory from a consulting call would have been a Crash    *)
(*    event, for which there is no action here;                            *)
(*  - readers: under the documented discipline (after load, or after       *)
(*    modify + hwloc_topology_refresh) no thread - not even the first,     *)
(*    single-threaded run - takes a RefreshWrite or writes an environment  *)
(*    cache (NoReaderWrite), and every thread in every round sees exactly  *)
(*    the single-threaded results; a reader phase started without refresh  *)
(*    has no action here (it is the negative control of the self-test);    *)
(*  - indep: threads running independent init/load/modify/export/destroy   *)
(*    histories get the single-threaded result of their history, and the   *)
(*    registry events, emitted under the components mutex, follow          *)
(*    RegInit / RegFini of Concurrency.tla.                                *)
(***************************************************************************)
EXTENDS Registry, Sequences, TLC, Json, IOUtils

T == ndJsonDeserialize(IOEnv.TRACE)
VARIABLES l
IsEvent(e) == l <= Len(T) /\ T[l].e = e /\ l' = l + 1
E == T[l]

TInit == l = 1
TReset == IsEvent("Reset")
TSetup == IsEvent("setup") /\ E.set = 0 /\ E.load = 0

TAdopted == /\ IsEvent("adopted")
            /\ E.write = 0 /\ E.adopt = 0
            /\ E.digest = E.main

TReaders == /\ IsEvent("readers")
            /\ E.mode \in {0, 1}                                   \* the documented discipline
            /\ E.mainwrites = <<>> /\ E.writes = <<>>              \* NoReaderWrite
            /\ \A i \in DOMAIN E.digests : \A r \in DOMAIN E.digests[i] : E.digests[i][r] = E.main

\* replay the registry events in the order the mutex gave them
RECURSIVE RegistryOK2(_, _, _)
RegistryOK2(ev, k, u) ==
  IF k > Len(ev) THEN u
  ELSE LET e == ev[k] IN
       IF e[1] = "comp_init" THEN
            IF e[2] = RegInit(u).users /\ (e[3] = 1) = RegInit(u).edge THEN RegistryOK2(ev, k + 1, e[2]) ELSE -1000
       ELSE IF e[1] = "comp_fini" /\ u >= 1 /\ e[2] = RegFini(u).users /\ (e[3] = 1) = RegFini(u).edge
            THEN RegistryOK2(ev, k + 1, e[2]) ELSE -1000

TIndep == /\ IsEvent("indep")
          /\ \A i \in DOMAIN E.got : \A r \in DOMAIN E.got[i] : E.got[i][r][2] = E.expected[E.got[i][r][1] + 1]
          /\ Len(E.registry) = 2 * E.threads * E.rounds                \* one init and one destroy per history
          /\ RegistryOK2(E.registry, 1, E.users0) = E.users0           \* every step legal, and all users gone again

TNext == TReset \/ TSetup \/ TAdopted \/ TReaders \/ TIndep
TSpec == TInit /\ [][TNext]_l
Accepted == TLCGet("stats").diameter - 1 = Len(T)
=============================================================================
