----------------------------- MODULE MC_TopoOps -----------------------------
(***************************************************************************)
(* Histories of public modifying calls on one or two topologies (C02,      *)
(* C12).  The model tracks what decides enabledness and documented         *)
(* failures - surviving PUs / NUMA nodes per slot, whether the second      *)
(* slot exists - and enumerates (BFS) or simulates histories over the      *)
(* whole alphabet with valid and invalid arguments.  Every history is      *)
(* replayed on the real library, where TopoOps!ModifyRel, WellFormed and   *)
(* the frame conditions of TraceTopo judge the full object tree.           *)
(***************************************************************************)
EXTENDS TopoOps, Json, TLC

CONSTANTS PUs, Nodes, NodeCpus,
          SetChoices,      \* sequence of range lists (arguments of restrict / group / allow / cpukind)
          RestrictFlags,   \* flag words tried for restrict
          Objs,            \* number of anchor objects (misc parents, info targets, group_obj sources, distance objects)
          MaxSteps, TwoSlots, NStripes, Stripe, SimLen,
          Tiny,            \* TRUE: the store-filling calls and restrict take two or three argument combinations each (focused configuration that goes five calls deep)
          Lean,            \* TRUE: fewer argument combinations of the argument-heavy calls (allow, dist_add, group) - quick tier with two topologies
          Ops,             \* the calls this configuration uses (focused configurations explore fewer calls deeper)
          ShapePUs,        \* per distances shape (argument of dist_add): the sequence of PU sets of the objects of the matrix
          Tops             \* sequence of PU sets: the PUs below each child of the root (which restricts leave a single subtree, i.e. may merge levels)
VARIABLES pus, nodes, live, steps, hist,
          sig              \* signature of the history: per call <<name, slot, class>>; it is the part of the history the view keeps

Slots == IF TwoSlots THEN {0, 1} ELSE {0}
Init == /\ pus = [s \in {0, 1} |-> PUs] /\ nodes = [s \in {0, 1} |-> Nodes]
        /\ live = [s \in {0, 1} |-> s = 0] /\ steps = 0 /\ hist = <<>> /\ sig = <<>>

Keep(r, x) == InR(r, x)
\* same outcome function as MC_Restrict, per slot
Outcome(s, f, k) ==
  LET r == SetChoices[k]
      bynode == Bit(f, R_BYNODESET)
      p2 == IF bynode THEN (IF Bit(f, R_REMOVE_MEMLESS)
                            THEN {c \in pus[s] : {n \in nodes[s] : Keep(r, n) /\ c \in NodeCpus[n]} # {}} ELSE pus[s])
            ELSE {c \in pus[s] : Keep(r, c)}
      n2 == IF bynode THEN {n \in nodes[s] : Keep(r, n)}
            ELSE (IF Bit(f, R_REMOVE_CPULESS) THEN {n \in nodes[s] : NodeCpus[n] \cap p2 # {}} ELSE nodes[s])
      mustfail == RBadFlags(f) \/ (IF bynode THEN {n \in nodes[s] : Keep(r, n)} = {} ELSE {c \in pus[s] : Keep(r, c)} = {})
  IN IF mustfail \/ p2 = {} \/ n2 = {} THEN <<-1, pus[s], nodes[s]>> ELSE <<0, p2, n2>>

\* class of a call: what of its arguments shapes the tree or the stores (the rest of the arguments is abstracted by the view)
\*   insert_misc: the parent; cpukind: with infos or not; cpukind_info: which kind and which edit;
\*   restrict: -1 when refused, else the number of subtrees below the root that keep a PU (1 = the levels below the root may merge),
\*             + 10 when by nodeset, + 100 * what it does to the distances structure added last (DistCut)
\*             + 1000 when it leaves a NUMA node without any PU or a PU without any local node (what later calls must cope with)
\*   dist_add: 1 when the kind and flag words are legal (a structure is really added)
\*   group_ns: 1 when the nodeset names a NUMA node that has no PU left
\* a class of 100000 or more marks a mirrored call
Starved(PP, NN) == (\E n \in NN : NodeCpus[n] \cap PP = {}) \/ (\E c \in PP : {n \in NN : c \in NodeCpus[n]} = {})
Class(op) == CASE op[1] = "insert_misc" -> op[3]
               [] op[1] = "group_ns" -> IF \E n \in nodes[op[2]] : InR(SetChoices[op[3]], n) /\ NodeCpus[n] \cap pus[op[2]] = {} THEN 1 ELSE 0
               [] op[1] = "dist_add" -> IF op[3] \in {5, 6, 9, 10} /\ op[4] \in {0, 1, 2, 3} THEN 1 ELSE 0
               [] op[1] = "cpukind" -> op[5]
               [] op[1] = "memattr" -> IF op[3] = 5 THEN 1 ELSE 0         \* an attribute with initiators (several per target)
               [] op[1] = "cpukind_info" -> 2 * op[3] + op[4]
               [] OTHER -> 0
StepC(op, c) == /\ steps < MaxSteps /\ steps' = steps + 1 /\ hist' = Append(hist, op) /\ sig' = Append(sig, <<op[1], op[2], c>>)
Step(op) == StepC(op, Class(op))
Survivors(P) == Cardinality({i \in DOMAIN Tops : Tops[i] \cap P # {}})
\* what a restrict that leaves the PUs P does to the distances structure added last on slot s (C13: distances follow the objects):
\* 0 = none or untouched, 1 = some objects go and at least 2 stay (the sub-matrix must be kept), 2 = fewer than 2 stay (dropped)
RECURSIVE LastShape(_, _)
LastShape(s, k) == IF k = 0 THEN 0
                   ELSE IF hist[k][1] = "dist_add" /\ hist[k][2] = s /\ Class(hist[k]) = 1 THEN hist[k][5]
                   ELSE IF hist[k][1] = "dist_remove" /\ hist[k][2] = s THEN 0
                   ELSE LastShape(s, k - 1)
DistCut(s, P) == LET sh == LastShape(s, Len(hist)) IN
             IF sh = 0 THEN 0
             ELSE LET alive == Cardinality({i \in DOMAIN ShapePUs[sh] : ShapePUs[sh][i] \cap P # {}}) IN
                  IF alive = Len(ShapePUs[sh]) THEN 0 ELSE IF alive >= 2 THEN 1 ELSE 2

Restrict == \E s \in Slots, f \in (IF Tiny THEN {0} ELSE RestrictFlags), k \in (IF Tiny THEN {x \in DOMAIN SetChoices : x \in {2, 6, 7}} ELSE DOMAIN SetChoices) :
              /\ "restrict" \in Ops
              /\ live[s]
              /\ LET o == Outcome(s, f, k) IN
                   /\ pus' = [pus EXCEPT ![s] = o[2]] /\ nodes' = [nodes EXCEPT ![s] = o[3]]
                   /\ StepC(<<"restrict", s, f, k, o[1]>>, IF o[1] = -1 THEN -1 ELSE Survivors(o[2]) + (IF Bit(f, R_BYNODESET) THEN 10 ELSE 0) + 100 * DistCut(s, o[2])
                                                                                 + (IF Starved(o[2], o[3]) /\ ~Starved(pus[s], nodes[s]) THEN 1000 ELSE 0))
              /\ UNCHANGED live

\* calls that do not change the resources
On(op) == op \in Ops
Other == \E s \in Slots :
  /\ live[s]
  /\ \/ On("insert_misc") /\ \E a \in 1..Objs : Step(<<"insert_misc", s, a, 0, 0>>)
     \/ On("group") /\ \E k \in (IF Lean THEN {x \in DOMAIN SetChoices : x % 2 = 1} ELSE DOMAIN SetChoices), kind \in (IF Lean THEN {0} ELSE {0, 1, 2}), dm \in {0, 1} :
                        Step(<<"group", s, k, kind, dm>>)
     \/ On("group_ns") /\ \E k \in DOMAIN SetChoices : Step(<<"group_ns", s, k, 0, 0>>)
     \/ On("group_obj") /\ \E a \in 1..Objs, dm \in {0, 1} : Step(<<"group_obj", s, a, dm, 0>>)
     \/ On("group_free") /\ Step(<<"group_free", s, 0, 0, 0>>)
     \/ On("allow") /\ \E fl \in (IF Lean THEN {1, 4} ELSE {1, 2, 4, 3, 8}), k \in (IF Lean THEN {x \in DOMAIN SetChoices : x <= 4} ELSE DOMAIN SetChoices),
                            which \in (IF Lean THEN {0, 1} ELSE {0, 1, 2}) : Step(<<"allow", s, fl, k, which>>)
     \/ On("add_info") /\ \E a \in 1..Objs : Step(<<"add_info", s, a, 0, 0>>)
     \/ On("set_subtype") /\ \E a \in 1..Objs, v \in {0, 1} : Step(<<"set_subtype", s, a, v, 0>>)
     \/ On("refresh") /\ Step(<<"refresh", s, 0, 0, 0>>)
     \/ On("dist_add") /\ \E kind \in (IF Tiny THEN {5} ELSE IF Lean THEN {5, 6} ELSE {5, 6, 9, 10, 0, 3, 64}), afl \in (IF Tiny THEN {0} ELSE IF Lean THEN {0, 3} ELSE {0, 1, 2, 3, 8}),
                              shape \in (IF Tiny THEN {1, 2} ELSE IF Lean THEN {1, 3, 4} ELSE 1..4) :
                           Step(<<"dist_add", s, kind, afl, shape>>)
     \/ On("dist_remove") /\ Step(<<"dist_remove", s, 0, 0, 0>>)
     \* the k-th structure that hwloc_distances_get() returns is removed through its handle (release_remove)
     \/ On("dist_remove_one") /\ \E k \in {0, 1} : Step(<<"dist_remove_one", s, k, 0, 0>>)
     \/ On("memattr") /\ \E fl \in (IF Tiny THEN {5} ELSE {1, 2, 3, 0, 5}), a \in (IF Tiny THEN {5} ELSE 1..Objs) : Step(<<"memattr", s, fl, a, 0>>)
     \/ On("cpukind") /\ \E k \in DOMAIN SetChoices, eff \in {-1, 0, 2}, inf \in {0, 1} : Step(<<"cpukind", s, k, eff, inf>>)
     \* the infos of the k-th CPU kind are edited in place through hwloc_cpukinds_get_info + hwloc_modify_infos: 0 = all removed, 1 = one added
     \/ On("cpukind_info") /\ \E k \in 0..1, mode \in {0, 1} : Step(<<"cpukind_info", s, k, mode, 0>>)
  /\ UNCHANGED <<pus, nodes, live>>

Dup == /\ TwoSlots /\ live[0] /\ ~live[1]
       /\ live' = [live EXCEPT ![1] = TRUE]
       /\ pus' = [pus EXCEPT ![1] = pus[0]] /\ nodes' = [nodes EXCEPT ![1] = nodes[0]]
       /\ Step(<<"dup", 0, 1, 0, 0>>)

Destroy == \E s \in Slots : /\ TwoSlots /\ live[0] /\ live[1]      \* either copy may go first
                            /\ live' = [live EXCEPT ![s] = FALSE]
                            /\ Step(<<"destroy", s, 0, 0, 0>>)
                            /\ UNCHANGED <<pus, nodes>>

\* the call just made on one copy is made on the other copy too, with the same arguments: two copies that were observably equal answer
\* and end up the same (TraceTopo!Twin).  It is not counted as a step and is never mirrored again.
Mirror == /\ TwoSlots /\ live[0] /\ live[1] /\ hist # <<>>
          /\ LET op == hist[Len(hist)]  s2 == 1 - op[2]  c == sig[Len(sig)][3] IN
               /\ op[1] \notin {"dup", "destroy"} /\ c < 100000
               /\ IF op[1] = "restrict"
                  THEN LET o == Outcome(s2, op[3], op[4]) IN
                         /\ pus' = [pus EXCEPT ![s2] = o[2]] /\ nodes' = [nodes EXCEPT ![s2] = o[3]]
                         /\ hist' = Append(hist, <<"restrict", s2, op[3], op[4], o[1]>>)
                  ELSE /\ hist' = Append(hist, [op EXCEPT ![2] = s2]) /\ UNCHANGED <<pus, nodes>>
               /\ sig' = Append(sig, <<op[1], s2, 100000 + (IF c < 0 THEN 99999 ELSE c)>>)
          /\ UNCHANGED <<live, steps>>

Next == Restrict \/ Other \/ Dup \/ Destroy \/ Mirror
Spec == Init /\ [][Next]_<<pus, nodes, live, steps, hist, sig>>
\* the view keeps the signature of the history (which call on which slot, in order, with its class): the stores the calls fill (Misc and
\* Group objects, distances, memory attributes, cpukinds, infos) are not model variables, so two histories that differ in the calls made are
\* different states and every ordered combination of calls up to MaxSteps is an edge of the graph; other arguments of earlier calls are abstracted
StateView == <<pus, nodes, live, steps, sig>>

NeverEmpty == \A s \in Slots : pus[s] # {} /\ nodes[s] # {}
\* a copy starts from what the original had, and the two evolve independently afterwards
CopyWithinOriginal == \A s \in Slots : pus[s] \subseteq PUs /\ nodes[s] \subseteq Nodes

RECURSIVE HSum(_)
HSum(h) == IF h = <<>> THEN 0 ELSE (Len(Head(h)[1]) + Head(h)[2] * 11 + Head(h)[3] * 7 + Head(h)[4] * 3 + Head(h)[5] + 9) + 5 * HSum(Tail(h))
EmitEdge == (HSum(hist') % NStripes = Stripe) => PrintT(<<"EDGE", ToJson([h |-> hist', g |-> sig'])>>)
EmitSim  == (Len(hist) = SimLen) => PrintT(<<"SIM", ToJson(hist)>>)
=============================================================================
