----------------------------- MODULE MC_TopoOps -----------------------------
(***************************************************************************)
(* Histories of public modifying calls on one or two topologies (C02,      *)
(* C12).  The model tracks what decides enabledness and documented         *)
(* failures - surviving PUs / NUMA nodes per slot, whether the second      *)
(* slot exists - and enumerates (BFS) or simulates histories over the      *)
(* whole alphabet with valid and invalid arguments.  Every history is      *)
(* replayed on the real library, where TopoOps!ModifyRel, WellFormed and   *)
(* the frame conditions of TraceTopo judge the full object tree.           *)
(***************************************************************************)
EXTENDS TopoOps, Json, TLC

CONSTANTS PUs, Nodes, NodeCpus,
          SetChoices,      \* sequence of range lists (arguments of restrict / group / allow / cpukind)
          RestrictFlags,   \* flag words tried for restrict
          Objs,            \* number of anchor objects (misc parents, info targets, group_obj sources, distance objects)
          MaxSteps, TwoSlots, NStripes, Stripe, SimLen
VARIABLES pus, nodes, live, steps, hist

Slots == IF TwoSlots THEN {0, 1} ELSE {0}
Init == /\ pus = [s \in {0, 1} |-> PUs] /\ nodes = [s \in {0, 1} |-> Nodes]
        /\ live = [s \in {0, 1} |-> s = 0] /\ steps = 0 /\ hist = <<>>

Keep(r, x) == InR(r, x)
\* same outcome function as MC_Restrict, per slot
Outcome(s, f, k) ==
  LET r == SetChoices[k]
      bynode == Bit(f, R_BYNODESET)
      p2 == IF bynode THEN (IF Bit(f, R_REMOVE_MEMLESS)
                            THEN {c \in pus[s] : {n \in nodes[s] : Keep(r, n) /\ c \in NodeCpus[n]} # {}} ELSE pus[s])
            ELSE {c \in pus[s] : Keep(r, c)}
      n2 == IF bynode THEN {n \in nodes[s] : Keep(r, n)}
            ELSE (IF Bit(f, R_REMOVE_CPULESS) THEN {n \in nodes[s] : NodeCpus[n] \cap p2 # {}} ELSE nodes[s])
      mustfail == RBadFlags(f) \/ (IF bynode THEN {n \in nodes[s] : Keep(r, n)} = {} ELSE {c \in pus[s] : Keep(r, c)} = {})
  IN IF mustfail \/ p2 = {} \/ n2 = {} THEN <<-1, pus[s], nodes[s]>> ELSE <<0, p2, n2>>

Step(op) == /\ steps < MaxSteps /\ steps' = steps + 1 /\ hist' = Append(hist, op)

Restrict == \E s \in Slots, f \in RestrictFlags, k \in DOMAIN SetChoices :
              /\ live[s]
              /\ LET o == Outcome(s, f, k) IN
                   /\ pus' = [pus EXCEPT ![s] = o[2]] /\ nodes' = [nodes EXCEPT ![s] = o[3]]
                   /\ Step(<<"restrict", s, f, k, o[1]>>)
              /\ UNCHANGED live

\* calls that do not change the resources
Other == \E s \in Slots :
  /\ live[s]
  /\ \/ \E a \in 1..Objs : Step(<<"insert_misc", s, a, 0, 0>>)
     \/ \E k \in DOMAIN SetChoices, kind \in {0, 1, 2}, dm \in {0, 1} : Step(<<"group", s, k, kind, dm>>)
     \/ \E k \in DOMAIN SetChoices : Step(<<"group_ns", s, k, 0, 0>>)
     \/ \E a \in 1..Objs, dm \in {0, 1} : Step(<<"group_obj", s, a, dm, 0>>)
     \/ Step(<<"group_free", s, 0, 0, 0>>)
     \/ \E fl \in {1, 2, 4, 3, 8}, k \in DOMAIN SetChoices, which \in {0, 1, 2} : Step(<<"allow", s, fl, k, which>>)
     \/ \E a \in 1..Objs : Step(<<"add_info", s, a, 0, 0>>)
     \/ \E a \in 1..Objs, v \in {0, 1} : Step(<<"set_subtype", s, a, v, 0>>)
     \/ Step(<<"refresh", s, 0, 0, 0>>)
     \/ \E kind \in {5, 6, 9, 10, 0, 3, 64}, afl \in {0, 1, 2, 3, 8}, shape \in 1..4 : Step(<<"dist_add", s, kind, afl, shape>>)
     \/ Step(<<"dist_remove", s, 0, 0, 0>>)
     \/ \E fl \in {1, 2, 3, 0, 5}, a \in 1..Objs : Step(<<"memattr", s, fl, a, 0>>)
     \/ \E k \in DOMAIN SetChoices, eff \in {-1, 0, 2} : Step(<<"cpukind", s, k, eff, 0>>)
  /\ UNCHANGED <<pus, nodes, live>>

Dup == /\ TwoSlots /\ live[0] /\ ~live[1]
       /\ live' = [live EXCEPT ![1] = TRUE]
       /\ pus' = [pus EXCEPT ![1] = pus[0]] /\ nodes' = [nodes EXCEPT ![1] = nodes[0]]
       /\ Step(<<"dup", 0, 1, 0, 0>>)

Destroy == \E s \in Slots : /\ TwoSlots /\ live[0] /\ live[1]      \* either copy may go first
                            /\ live' = [live EXCEPT ![s] = FALSE]
                            /\ Step(<<"destroy", s, 0, 0, 0>>)
                            /\ UNCHANGED <<pus, nodes>>

Next == Restrict \/ Other \/ Dup \/ Destroy
Spec == Init /\ [][Next]_<<pus, nodes, live, steps, hist>>
\* the view keeps the signature of the history (which call on which slot, in order): the stores the calls fill (Misc and Group objects,
\* distances, memory attributes, cpukinds, infos) are not model variables, so two histories that differ in the calls made are different
\* states and every ordered combination of calls up to MaxSteps is an edge of the graph; arguments of earlier calls are abstracted
Sig == [i \in 1..Len(hist) |-> <<hist[i][1], hist[i][2]>>]
StateView == <<pus, nodes, live, steps, Sig>>

NeverEmpty == \A s \in Slots : pus[s] # {} /\ nodes[s] # {}
\* a copy starts from what the original had, and the two evolve independently afterwards
CopyWithinOriginal == \A s \in Slots : pus[s] \subseteq PUs /\ nodes[s] \subseteq Nodes

RECURSIVE HSum(_)
HSum(h) == IF h = <<>> THEN 0 ELSE (Len(Head(h)[1]) + Head(h)[2] * 11 + Head(h)[3] * 7 + Head(h)[4] * 3 + Head(h)[5] + 9) + 5 * HSum(Tail(h))
EmitEdge == (HSum(hist') % NStripes = Stripe) => PrintT(<<"EDGE", ToJson(hist')>>)
EmitSim  == (Len(hist) = SimLen) => PrintT(<<"SIM", ToJson(hist)>>)
=============================================================================
