------------------------------ MODULE DiagTopo ------------------------------
(* Diagnostic aid (not a check): names the first WellFormed clause that is *)
(* false on the topology of one logged event (file named by env EVENT).    *)
EXTENDS Topology, Json, IOUtils, TLC
Ev == ndJsonDeserialize(IOEnv.EVENT)[1]
Tp == Ev.topos[Ev.slot + 1]
ASSUME PrintT(<<"FIRSTBAD", FirstBad(Tp, 1)>>)
ASSUME PrintT(<<"ALLBAD", {Clauses[k] : k \in {j \in 2..Len(Clauses) : ~Clause(Tp, Clauses[j])}}>>)
VARIABLE x
Init == x = 0
Next == x' = x
=============================================================================
