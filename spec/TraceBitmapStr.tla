--------------------------- MODULE TraceBitmapStr ---------------------------
(***************************************************************************)
(* Trace validation for C04: every line recorded from the real library by  *)
(* harness/hwv_bitmapstr must be explained by the relations of BitmapStr.  *)
(* State: the abstract value of the bitmap register, and for each format   *)
(* the untruncated text the library returned for it (asprintf), against    *)
(* which every truncated snprintf is judged.  All fields of every event    *)
(* are bound, so the search is linear in the trace length.                 *)
(*                                                                         *)
(* What may reject a trace (the property):                                 *)
(*   asprintf   ret = length of the text; the text belongs to the          *)
(*              documented output language of the format and denotes the   *)
(*              register's set (OutOK)                                     *)
(*   snprintf   SnprintfRel against that text, for every buffer length,    *)
(*              guards intact; buf = NULL only with buflen = 0             *)
(*   sscanf     SscanfRel: a string of the documented grammar must be      *)
(*              accepted with its denotation, any other string gives 0 or  *)
(*              -1; the library's own text must parse back to the same set *)
(* What only produces a SPEC-DRIFT line unless Strict: the text differs    *)
(* from the canonical text of this specification in an undocumented choice.*)
(***************************************************************************)
EXTENDS BitmapStr, Json, IOUtils, TLC

CONSTANT Strict

T == ndJsonDeserialize(IOEnv.TRACE)

VARIABLES l, reg, known, full

vars == <<l, reg, known, full>>
NoText == [f \in Fmts |-> ""]
RangesOf(js) == [k \in 1..Len(js) |-> <<js[k][1], js[k][2]>>]

Init == l = 1 /\ reg = Empty /\ known = {} /\ full = NoText

IsEvent(e) == l <= Len(T) /\ T[l].e = e /\ l' = l + 1

TReset == /\ IsEvent("Reset")
          /\ T[l].beh \in Int
          /\ reg' = Empty /\ known' = {} /\ full' = NoText

TSet == /\ IsEvent("set")
        /\ LET e == T[l]  req == RangesOf(e.req)  got == RangesOf(e.set) IN
             /\ e.pad \in Nat /\ e.via \in {0, 1}
             /\ RangesOK(req) /\ RangesOK(got)
             /\ SameSet(FromRanges(got), FromRanges(req))
             /\ reg' = FromRanges(got)
        /\ known' = {} /\ full' = NoText

\* canonical-text comparison: decisive only when Strict
TextExact(f, text, v) ==
  LET c == Render(f, v) IN
  IF text = c THEN TRUE
  ELSE ~Strict /\ PrintT("DRIFT " \o f \o " format: library printed " \o text \o " where the specification prints " \o c)

TAsprintf == /\ IsEvent("asprintf")
             /\ LET e == T[l] IN
                  /\ e.fmt \in Fmts
                  /\ e.ret = Len(e.text)
                  /\ OutOK(e.fmt, e.text, reg)
                  /\ TextExact(e.fmt, e.text, reg)
                  /\ known' = known \cup {e.fmt}
                  /\ full' = [full EXCEPT ![e.fmt] = e.text]
             /\ UNCHANGED reg

TSnprintf == /\ IsEvent("snprintf")
             /\ LET e == T[l] IN
                  /\ e.fmt \in known
                  /\ e.null \in {0, 1} /\ e.buflen \in Nat
                  /\ e.null = 1 => e.buflen = 0
                  /\ SnprintfRel(full[e.fmt], e.buflen, e.ret, e.nul, e.buf, e.gl = 1 /\ e.gr = 1)
             /\ UNCHANGED <<reg, known, full>>

TSscanf == /\ IsEvent("sscanf")
           /\ LET e == T[l]  res == RangesOf(e.res)  v == FromRanges(res) IN
                /\ e.fmt \in Fmts
                /\ e.src \in {"lit", "last"}
                /\ RangesOK(res)
                /\ SscanfRel(e.fmt, e.str, e.ret, v)
                /\ e.src = "last" => /\ e.fmt \in known /\ e.str = full[e.fmt]
                                     /\ e.ret = 0 /\ SameSet(v, reg)       \* round trip
                /\ reg' = v
           /\ known' = {} /\ full' = NoText

Next == TReset \/ TSet \/ TAsprintf \/ TSnprintf \/ TSscanf
Spec == Init /\ [][Next]_vars

Accepted == TLCGet("stats").diameter - 1 = Len(T)
=============================================================================
