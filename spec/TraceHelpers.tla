---------------------------- MODULE TraceHelpers ----------------------------
(***************************************************************************)
(* Trace validation for property C09: behaviours recorded by               *)
(* harness/hwv_helpers.  The spec state is the projection of the topology  *)
(* (logged once per behaviour by the "topo" event); every later event is   *)
(* one helper call (or one documented iteration loop) and is accepted only *)
(* when the logged results satisfy the brute-force definition of           *)
(* Helpers.tla evaluated on that projection.  The property is stated for   *)
(* well-formed topologies: WellFormed (Topology.tla, property C01) is      *)
(* evaluated once and is the hypothesis of every relation.                 *)
(***************************************************************************)
EXTENDS Helpers, Json, IOUtils

T == ndJsonDeserialize(IOEnv.TRACE)

VARIABLES l, t, tc, wf

NoTopo == [n |-> 0]
Init == l = 1 /\ t = NoTopo /\ tc = <<>> /\ wf = FALSE

IsEvent(e) == l <= Len(T) /\ T[l].e = e /\ l' = l + 1
E == T[l]
Same == UNCHANGED <<t, tc, wf>>
\* a helper call: there is a projected topology, the call does not change it, and (on a well-formed topology) the relation
\* RelOf (below) holds.  "= TRUE" makes TLC evaluate the relation as a state-level expression (left-to-right, short-circuit)
\* instead of walking its disjunctions as alternative actions, which would evaluate guarded right-hand sides such as
\* O(t, parent) with parent = 0.
IsObj(i) == i \in Pos(t)
IsSetArg(r) == \A k \in DOMAIN r : r[k][1] >= 0 /\ (r[k][2] = -1 \/ r[k][2] >= r[k][1])

TReset == IsEvent("Reset") /\ E.beh \in Int /\ t' = NoTopo /\ tc' = <<>> /\ wf' = FALSE

SetupOps == {"init", "synthetic", "xmlbuf", "flags", "filter", "load", "restrict", "allow", "group", "misc", "subtype", "destroy"}
\* building the topology is C01/C02/C08's business: calls succeed or fail; the recorder freezes the topology once projected
TSetup == /\ IsEvent("setup") /\ E.op \in SetupOps /\ E.ret \in {0, -1} /\ (E.ret = 0 => E.errno = "0")
          /\ E.op # "destroy" => t.n = 0
          /\ t' = NoTopo /\ tc' = <<>> /\ wf' = FALSE
TExport == IsEvent("exportxml") /\ E.ret \in {0, -1} /\ (E.ret = 0 => Len(E.xml) > 0) /\ Same

TTopo == /\ IsEvent("topo") /\ t.n = 0 /\ E.topo.n > 0
         /\ t' = E.topo /\ tc' = E.tcmp
         /\ wf' = (WellFormed(E.topo) /\ TypeOrderSane(E.tcmp))
         /\ (~wf' => PrintT("DRIFT C09: a projected topology is not well formed (" \o FirstBad(E.topo, 1) \o "); its helper results are not judged"))

\* the relation an event of kind e must satisfy (E is the event)
RelOf(e) ==
  CASE e = "covering" -> IsSetArg(E.set) /\ ObjCoveringRel(t, SetR(E.set), E.res)
    [] e = "child_covering" -> IsSetArg(E.set) /\ IsObj(E.parent) /\ ChildCoveringRel(t, SetR(E.set), E.parent, E.res)
    [] e = "cache_covering" -> IsSetArg(E.set) /\ CacheCoveringRel(t, SetR(E.set), E.res)
    [] e = "first_largest" -> IsSetArg(E.set) /\ FirstLargestRel(t, SetR(E.set), E.res)
    [] e = "largest" -> IsSetArg(E.set) /\ LargestRel(t, SetR(E.set), E.max, E.ret, E.objs, E.clean)
    [] e = "inside_depth" -> IsSetArg(E.set) /\ E.trunc = 0 /\ InsideDepthRel(t, SetR(E.set), E.depth, E.iter, E.nb, E.byidx)
    [] e = "inside_type" -> IsSetArg(E.set) /\ E.trunc = 0 /\ InsideTypeRel(t, SetR(E.set), E.type, E.iter, E.nb, E.byidx)
    [] e = "index_inside" -> IsSetArg(E.set) /\ IsObj(E.obj) /\ IndexInsideRel(t, SetR(E.set), E.obj, E.res)
    [] e = "covering_depth" -> IsSetArg(E.set) /\ E.trunc = 0 /\ CoveringDepthRel(t, SetR(E.set), E.depth, E.iter)
    [] e = "covering_type" -> IsSetArg(E.set) /\ E.trunc = 0 /\ CoveringTypeRel(t, SetR(E.set), E.type, E.iter)
    [] e = "anc_depth" -> IsObj(E.obj) /\ AncDepthRel(t, E.obj, E.depth, E.res)
    [] e = "anc_type" -> IsObj(E.obj) /\ AncTypeRel(t, E.obj, E.type, E.res)
    [] e = "common" -> IsObj(E.a) /\ IsObj(E.b) /\ CommonRel(t, E.a, E.b, E.res)
    [] e = "in_subtree" -> IsObj(E.obj) /\ IsObj(E.root) /\ InSubtreeRel(t, E.obj, E.root, E.res)
    [] e = "next_child" -> IsObj(E.parent) /\ E.trunc = 0 /\ NextChildRel(t, E.parent, E.iter)
    [] e = "shared_cache" -> IsObj(E.obj) /\ SharedCacheRel(t, E.obj, E.res)
    [] e = "non_io_anc" -> IsObj(E.obj) /\ NonIOAncRel(t, E.obj, E.res)
    [] e = "closest" -> IsObj(E.src) /\ ClosestRel(t, E.src, E.max, E.ret, E.objs, E.clean)
    [] e = "below" -> BelowRel(t, E.t1, E.i1, E.t2, E.i2, E.res)
    [] e = "below_array" -> BelowArrayRel(t, E.types, E.idxs, E.res)
    [] e = "to_nodeset" -> IsSetArg(E.set) /\ ToNodesetRel(t, SetR(E.set), E.ret, E.res)
    [] e = "from_nodeset" -> IsSetArg(E.set) /\ FromNodesetRel(t, SetR(E.set), E.ret, E.res)
    [] e = "same_locality" -> IsObj(E.src) /\ SameLocalityRel(t, E.src, E.type, E.st, E.np, E.flags, E.res, E.errno)
    [] e = "type_depth" -> TypeDepthRel(t, E.type, E.d)
    [] e = "type_lookup" -> E.trunc = 0 /\ TypeLookupRel(t, tc, E.type, E.d, E.below, E.above, E.nb, E.iter, E.byidx)
    [] e = "depth_lookup" -> E.trunc = 0 /\ DepthLookupRel(t, E.depth, E.type, E.nb, E.iter, E.byidx)
    [] e = "cache_type_depth" -> CacheTypeDepthRel(t, E.level, E.ctype, E.res)
    [] e = "pu_by_os" -> ByOsRel(t, PU, E.os, E.res)
    [] e = "numa_by_os" -> ByOsRel(t, NUMANODE, E.os, E.res)
    [] e = "distrib" -> (\A k \in DOMAIN E.roots : IsObj(E.roots[k]) /\ HasCS(O(t, E.roots[k])))
                        /\ DistribRel(t, E.roots, E.n, E.until, E.flags, E.ret, E.errno, E.sets, E.nulls, E.over)
    [] e = "mem_parents_depth" -> MemParentsDepthRel(t, E.res)
    [] e = "type_depth_attr" -> TypeDepthAttrRel(t, E.type, E.gdepth, E.noattr, E.res)
    [] e = "pcidev_by_busid" -> PciByBusidRel(t, E.dom, E.bus, E.dev, E.func, E.res, E.sres, E.short)
    [] e = "bridge_covers" -> IsObj(E.obj) /\ BridgeCoversRel(t, E.obj, E.dom, E.bus, E.res)
    [] e = "singlify" -> IsSetArg(E.set) /\ SinglifyRel(t, SetR(E.set), E.which, E.ret, E.res)

Query(e) == IsEvent(e) /\ t.n > 0 /\ ((wf => RelOf(e)) = TRUE) /\ Same

TCovering == Query("covering")
TChildCovering == Query("child_covering")
TCacheCovering == Query("cache_covering")
TFirstLargest == Query("first_largest")
TLargest == Query("largest")
TInsideDepth == Query("inside_depth")
TInsideType == Query("inside_type")
TIndexInside == Query("index_inside")
TCoveringDepth == Query("covering_depth")
TCoveringType == Query("covering_type")
TAncDepth == Query("anc_depth")
TAncType == Query("anc_type")
TCommon == Query("common")
TInSubtree == Query("in_subtree")
TNextChild == Query("next_child")
TSharedCache == Query("shared_cache")
TNonIOAnc == Query("non_io_anc")
TClosest == Query("closest")
TBelow == Query("below")
TBelowArray == Query("below_array")
TToNodeset == Query("to_nodeset")
TFromNodeset == Query("from_nodeset")
TSameLocality == Query("same_locality")
TTypeDepth == Query("type_depth")
TTypeLookup == Query("type_lookup")
TDepthLookup == Query("depth_lookup")
TCacheTypeDepth == Query("cache_type_depth")
TPuByOs == Query("pu_by_os")
TNumaByOs == Query("numa_by_os")
TDistrib == Query("distrib")
TSinglify == Query("singlify")
TMemParentsDepth == Query("mem_parents_depth")
TTypeDepthAttr == Query("type_depth_attr")
TPciByBusid == Query("pcidev_by_busid")
TBridgeCovers == Query("bridge_covers")

Next == \/ TReset \/ TSetup \/ TExport \/ TTopo
        \/ TCovering \/ TChildCovering \/ TCacheCovering \/ TFirstLargest \/ TLargest
        \/ TInsideDepth \/ TInsideType \/ TIndexInside \/ TCoveringDepth \/ TCoveringType
        \/ TAncDepth \/ TAncType \/ TCommon \/ TInSubtree \/ TNextChild \/ TSharedCache \/ TNonIOAnc
        \/ TClosest \/ TBelow \/ TBelowArray \/ TToNodeset \/ TFromNodeset \/ TSameLocality
        \/ TTypeDepth \/ TTypeLookup \/ TDepthLookup \/ TCacheTypeDepth \/ TPuByOs \/ TNumaByOs
        \/ TDistrib \/ TSinglify \/ TMemParentsDepth \/ TTypeDepthAttr \/ TPciByBusid \/ TBridgeCovers
Spec == Init /\ [][Next]_<<l, t, tc, wf>>

Accepted == TLCGet("stats").diameter - 1 = Len(T)
=============================================================================
