------------------------------ MODULE Helpers ------------------------------
(***************************************************************************)
(* Property C09: the traversal and locality helpers of hwloc/helper.h,     *)
(* hwloc/inlines.h and hwloc/traversal.c, each defined by BRUTE FORCE over *)
(* the abstract topology t (the projection of harness/project.h, see       *)
(* Topology.tla).  Nothing here follows the pointer-chasing algorithms of  *)
(* the implementation: an operator quantifies over all objects / all       *)
(* ancestors / the whole level and states what the documentation promises. *)
(* Where the documentation determines the answer the relation pins it;     *)
(* where it leaves a choice (which maximal objects when the output array   *)
(* is too small, order of equally close objects, how hwloc_distrib rounds) *)
(* the relation only demands what is documented.                           *)
(*                                                                         *)
(* Objects are positions in t.objs (0 = NULL).  Argument sets are logged   *)
(* as range lists; an infinite tail [lo,-1] is cut at BIG (sound: equal    *)
(* sets stay equal).                                                       *)
(***************************************************************************)
EXTENDS Topology, TLC

BIG == 1023
SetR(r) == UNION {IF r[k][2] = -1 THEN r[k][1]..BIG ELSE r[k][1]..r[k][2] : k \in DOMAIN r}

HasCS(o) == o.hs[1] = 1
OCS(t, i) == CS(O(t, i))
ONS(t, i) == NS(O(t, i))

(* ---- ancestors, levels ---- *)
RECURSIVE AncSeq(_, _)
AncSeq(t, i) == IF O(t, i).parent = 0 THEN <<>> ELSE <<O(t, i).parent>> \o AncSeq(t, O(t, i).parent)   \* parent first, root last
AncSelfSeq(t, i) == <<i>> \o AncSeq(t, i)
Anc(t, i) == SeqSet(AncSeq(t, i))
AncSelf(t, i) == {i} \cup Anc(t, i)
DescSelf(t, r) == {i \in Pos(t) : r \in AncSelf(t, i)}
First(s) == IF s = <<>> THEN 0 ELSE s[1]
\* the member of a chain of objects that is below all the others (0 for the empty set)
Lowest(t, c) == IF c = {} THEN 0 ELSE CHOOSE a \in c : \A b \in c : b \in AncSelf(t, a)

LevelObjs(t, d) == IF ValidDepth(t, d) THEN t.levels[LevelIdx(t, d)].objs ELSE <<>>
\* brute-force hwloc_get_type_depth: where the objects of that type are
TypeDepthBF(t, ty) ==
  IF ty < 0 \/ ty >= NTYPES THEN DEPTH_UNKNOWN
  ELSE IF ty \notin NormalTypes THEN SpecialDepth(ty)
  ELSE LET at == {O(t, i).depth : i \in {j \in Pos(t) : O(t, j).type = ty}} IN
       IF at = {} THEN DEPTH_UNKNOWN ELSE IF Cardinality(at) = 1 THEN CHOOSE d \in at : TRUE ELSE DEPTH_MULTIPLE
NoSingleDepth(d) == d \in {DEPTH_UNKNOWN, DEPTH_MULTIPLE}
TypeLevelObjs(t, ty) == LET d == TypeDepthBF(t, ty) IN IF NoSingleDepth(d) THEN <<>> ELSE LevelObjs(t, d)
IdxTable(s, n) == [k \in 1..n |-> At(s, k)]          \* what get_obj_..(idx) must return for idx = 0..n-1

(* ------------------------------------------------------------------ *)
(* covering a set                                                      *)
(* ------------------------------------------------------------------ *)
CoveringObjs(t, S) == {i \in Pos(t) : IsNormal(O(t, i)) /\ S \subseteq OCS(t, i)}
CoverDefined(t, S) == S # {} /\ S \subseteq OCS(t, 1)
\* hwloc_get_obj_covering_cpuset: the deepest object whose cpuset includes S (every other such object is one of its ancestors)
ObjCoveringRel(t, S, res) ==
  IF ~CoverDefined(t, S) THEN res = 0
  ELSE res \in CoveringObjs(t, S) /\ \A j \in CoveringObjs(t, S) : j \in AncSelf(t, res)

\* hwloc_get_child_covering_cpuset: "the child that covers the set entirely, NULL if no child matches or if set is empty"
ChildCoveringRel(t, S, parent, res) ==
  LET o == O(t, parent)
      nk == {c \in SeqSet(o.kids) : S \subseteq OCS(t, c)}
      mk == {c \in SeqSet(o.mem) : S \subseteq OCS(t, c)}
  IN IF S = {} THEN res = 0
     ELSE IF nk # {} THEN res \in nk
     ELSE res = 0 \/ res \in mk            \* whether a memory child counts as "the child" is not documented

\* hwloc_get_cache_covering_cpuset: the first data/unified cache met from the lowest covering object upwards
CacheCoveringRel(t, S, res) ==
  IF ~CoverDefined(t, S) THEN res = 0
  ELSE res = Lowest(t, {i \in CoveringObjs(t, S) : O(t, i).type \in DCacheTypes})

(* ------------------------------------------------------------------ *)
(* largest objects inside a set                                        *)
(* ------------------------------------------------------------------ *)
InsideObj(t, S, i) == HasCS(O(t, i)) /\ OCS(t, i) \subseteq S
MaximalInside(t, S, i) == InsideObj(t, S, i) /\ (O(t, i).parent = 0 \/ ~InsideObj(t, S, O(t, i).parent))
MaxObjs(t, S) == {i \in Pos(t) : IsNormal(O(t, i)) /\ OCS(t, i) # {} /\ MaximalInside(t, S, i)}
PairwiseDisjoint(t, objs) == \A a, b \in DOMAIN objs : a < b => OCS(t, objs[a]) \cap OCS(t, objs[b]) = {}
UnionCS(t, objs) == UNION {OCS(t, objs[k]) : k \in DOMAIN objs}

\* hwloc_get_largest_objs_inside_cpuset: pairwise-disjoint maximal objects whose cpusets union to exactly S; -1 when S is not in the root
LargestRel(t, S, max, ret, objs, clean) ==
  /\ clean = 1                                                   \* nothing written past the returned count
  /\ IF ~(S \subseteq OCS(t, 1)) THEN ret = -1 /\ objs = <<>>
     ELSE IF max <= 0 THEN ret = 0 /\ objs = <<>>
     ELSE /\ ret = Len(objs) /\ ret <= max
          /\ NoDup(objs)
          /\ \A k \in DOMAIN objs : objs[k] \in Pos(t) /\ MaximalInside(t, S, objs[k])
          /\ PairwiseDisjoint(t, objs)
          /\ ret < max => UnionCS(t, objs) = S                   \* complete unless the array was too small

\* hwloc_get_first_largest_obj_inside_cpuset: "the first object that is included in set and whose parent is not"
FirstLargestRel(t, S, res) ==
  IF S \cap OCS(t, 1) = {} THEN res = 0
  ELSE res \in Pos(t) /\ OCS(t, res) # {} /\ MaximalInside(t, S, res)

(* ------------------------------------------------------------------ *)
(* objects of a level inside / covering a set, in logical order        *)
(* ------------------------------------------------------------------ *)
InsideSeq(t, S, objs) == SelectSeq(objs, LAMBDA i : OCS(t, i) # {} /\ OCS(t, i) \subseteq S)      \* empty cpusets are ignored (documented)
TouchingSeq(t, S, objs) == SelectSeq(objs, LAMBDA i : OCS(t, i) \cap S # {})

\* next_obj_inside_cpuset_by_depth iterated from NULL, nbobjs_inside_cpuset_by_depth, obj_inside_cpuset_by_depth(idx = 0..nb+1)
InsideDepthRel(t, S, d, iter, nb, byidx) ==
  LET s == InsideSeq(t, S, LevelObjs(t, d)) IN iter = s /\ nb = Len(s) /\ byidx = IdxTable(s, Len(s) + 2)
InsideTypeRel(t, S, ty, iter, nb, byidx) ==
  LET d == TypeDepthBF(t, ty)
      s == InsideSeq(t, S, TypeLevelObjs(t, ty))
  IN /\ iter = s /\ byidx = IdxTable(s, Len(s) + 2)
     /\ nb = IF d = DEPTH_MULTIPLE THEN -1 ELSE Len(s)          \* documented: 0 without such objects, -1 for multiple levels
\* hwloc_get_obj_index_inside_cpuset
IndexInsideRel(t, S, obj, res) ==
  LET s == InsideSeq(t, S, LevelObjs(t, O(t, obj).depth)) IN
  IF ~(OCS(t, obj) \subseteq S) THEN res = -1
  ELSE IF OCS(t, obj) = {} THEN res >= -1                        \* an object without CPUs is "ignored": not determined
  ELSE res + 1 \in DOMAIN s /\ s[res + 1] = obj

CoveringDepthRel(t, S, d, iter) == iter = TouchingSeq(t, S, LevelObjs(t, d))
CoveringTypeRel(t, S, ty, iter) == iter = TouchingSeq(t, S, TypeLevelObjs(t, ty))

(* ------------------------------------------------------------------ *)
(* ancestors and children                                              *)
(* ------------------------------------------------------------------ *)
\* hwloc_get_ancestor_obj_by_depth: the ancestor (or obj itself) at exactly that depth, NULL if there is none.
\* For memory, I/O and Misc objects hwloc.h says virtual depths must not be compared with other depths: only "NULL or that ancestor" is demanded.
AncDepthRel(t, obj, d, res) ==
  LET c == {a \in AncSelf(t, obj) : O(t, a).depth = d} IN
  IF IsNormal(O(t, obj)) \/ O(t, obj).depth = d THEN res = Lowest(t, c)
  ELSE res = 0 \/ res \in c

\* hwloc_get_ancestor_obj_by_type: the lowest strict ancestor of that type
AncTypeRel(t, obj, ty, res) == res = First(SelectSeq(AncSeq(t, obj), LAMBDA a : O(t, a).type = ty))

\* hwloc_get_common_ancestor_obj: the deepest common ancestor (an object is an ancestor of itself here: common(a,a) = a)
CommonAncestors(t, a, b) == AncSelf(t, a) \cap AncSelf(t, b)
CommonRel(t, a, b, res) == res \in CommonAncestors(t, a, b) /\ \A j \in CommonAncestors(t, a, b) : j \in AncSelf(t, res)

\* hwloc_obj_is_in_subtree: documented as subtree membership, implemented (and noted) through cpusets: an object of the subtree
\* must be reported inside, an object whose cpuset is not included in the root's must not
InSubtreeRel(t, obj, root, res) ==
  /\ res \in {0, 1}
  /\ (HasCS(O(t, obj)) /\ HasCS(O(t, root)) /\ root \in AncSelf(t, obj)) => res = 1
  /\ res = 1 => HasCS(O(t, obj)) /\ HasCS(O(t, root)) /\ OCS(t, obj) \subseteq OCS(t, root)

\* hwloc_get_next_child iterated from NULL: normal, then memory, then I/O, then Misc children
NextChildRel(t, parent, iter) == LET o == O(t, parent) IN iter = o.kids \o o.mem \o o.io \o o.misc

\* hwloc_get_shared_cache_covering_obj: first data/unified cache above obj that covers more than obj
SharedCacheRel(t, obj, res) ==
  IF ~HasCS(O(t, obj)) THEN res = 0
  ELSE res = First(SelectSeq(AncSeq(t, obj), LAMBDA a : O(t, a).type \in DCacheTypes /\ OCS(t, a) # OCS(t, obj)))

\* hwloc_get_non_io_ancestor_obj
NonIOAncRel(t, obj, res) == res = First(SelectSeq(AncSelfSeq(t, obj), LAMBDA a : HasCS(O(t, a))))

(* ------------------------------------------------------------------ *)
(* hwloc_get_closest_objs: same-depth objects ordered by ancestor      *)
(* distance                                                            *)
(* ------------------------------------------------------------------ *)
\* distance of o from src: how far up src's ancestor chain one must go before o's cpuset is covered (1 = src itself)
Rank(t, src, o) == LET s == AncSelfSeq(t, src) IN
  CHOOSE k \in DOMAIN s : OCS(t, o) \subseteq OCS(t, s[k]) /\ \A j \in 1..(k - 1) : ~(OCS(t, o) \subseteq OCS(t, s[j]))
ClosestRel(t, src, max, ret, objs, clean) ==
  /\ clean = 1
  /\ IF ~HasCS(O(t, src)) THEN ret = 0 /\ objs = <<>>              \* documented: 0 for I/O (and Misc have no cpuset either)
     ELSE LET lv == SeqSet(LevelObjs(t, O(t, src).depth)) \ {src}
              must == {o \in lv : ~(OCS(t, o) \subseteq OCS(t, src))}   \* objects sharing src's CPUs (or none) may be left out
          IN /\ ret = Len(objs) /\ ret <= max /\ NoDup(objs)
             /\ SeqSet(objs) \subseteq lv
             /\ \A a, b \in DOMAIN objs : a < b => Rank(t, src, objs[a]) <= Rank(t, src, objs[b])
             /\ \A o \in must \ SeqSet(objs) : ret = max /\ \A k \in DOMAIN objs : Rank(t, src, objs[k]) <= Rank(t, src, o)

(* ------------------------------------------------------------------ *)
(* hwloc_get_obj_below_by_type / _array_by_type                        *)
(* ------------------------------------------------------------------ *)
ObjByType(t, ty, idx) == At(TypeLevelObjs(t, ty), idx + 1)
BelowStep(t, cur, ty, idx) == IF cur = 0 THEN 0 ELSE At(InsideSeq(t, OCS(t, cur), TypeLevelObjs(t, ty)), idx + 1)
BelowRel(t, t1, i1, t2, i2, res) == res = BelowStep(t, ObjByType(t, t1, i1), t2, i2)
RECURSIVE BelowFold(_, _, _, _, _)
BelowFold(t, cur, types, idxs, k) == IF k > Len(types) THEN cur ELSE BelowFold(t, BelowStep(t, cur, types[k], idxs[k]), types, idxs, k + 1)
BelowArrayRel(t, types, idxs, res) == Len(types) = Len(idxs) /\ res = BelowFold(t, 1, types, idxs, 1)

(* ------------------------------------------------------------------ *)
(* cpuset <-> nodeset by NUMA-node locality                            *)
(* ------------------------------------------------------------------ *)
NumaObjs(t) == {i \in Pos(t) : O(t, i).type = NUMANODE}
ToNodeset(t, S) == {O(t, i).os : i \in {j \in NumaObjs(t) : OCS(t, j) \cap S # {}}}
FromNodeset(t, M) == UNION {OCS(t, i) : i \in {j \in NumaObjs(t) : O(t, j).os \in M}}
ToNodesetRel(t, S, ret, res) == ret = 0 /\ SetR(res) = ToNodeset(t, S)
FromNodesetRel(t, M, ret, res) == ret = 0 /\ SetR(res) = FromNodeset(t, M)

(* ------------------------------------------------------------------ *)
(* hwloc_get_obj_with_same_locality                                    *)
(* ------------------------------------------------------------------ *)
UPPER == "ABCDEFGHIJKLMNOPQRSTUVWXYZ"   LOWER == "abcdefghijklmnopqrstuvwxyz"
LowerCh(c) == IF \E k \in 1..26 : SubSeq(UPPER, k, k) = c THEN LET k == CHOOSE j \in 1..26 : SubSeq(UPPER, j, j) = c IN SubSeq(LOWER, k, k) ELSE c
RECURSIVE LowerStr(_)
LowerStr(s) == IF Len(s) = 0 THEN "" ELSE LowerCh(SubSeq(s, 1, 1)) \o LowerStr(SubSeq(s, 2, Len(s)))
\* optional strings are <<>> or <<text>>
SubtypeMatch(o, st) == st = <<>> \/ (o.st # <<>> /\ LowerStr(o.st[1]) = LowerStr(st[1]))
PrefixMatch(o, np) == np = <<>> \/ (o.name # <<>> /\ Len(o.name[1]) >= Len(np[1]) /\ LowerStr(SubSeq(o.name[1], 1, Len(np[1]))) = LowerStr(np[1]))
LocMatch(o, st, np) == SubtypeMatch(o, st) /\ PrefixMatch(o, np)

SameLocalityRel(t, src, ty, st, np, flags, res, err) ==
  LET s == O(t, src) IN
  /\ res # 0 => err = "0"                                   \* (the recorder logs errno only next to a NULL result; its value is not documented)
  /\ res = 0 => err \in {"0", "EINVAL", "ENOENT", "ENOSYS", "ENOMEM"}
  /\ IF flags # 0 THEN res = 0                                                        \* "flags must be 0 for now"
     ELSE IF IsNormal(s) \/ IsMem(s) THEN
       IF ty \notin (NormalTypes \cup MemTypes) THEN res = 0                          \* cannot convert to I/O or Misc
       ELSE LET c == {i \in Pos(t) : O(t, i).type = ty /\ OCS(t, i) = OCS(t, src) /\ ONS(t, i) = ONS(t, src) /\ LocMatch(O(t, i), st, np)} IN
            /\ res # 0 => res \in c                                                   \* requested type, equal cpuset AND nodeset, filters
            /\ (res # 0 /\ ~NoSingleDepth(TypeDepthBF(t, ty))) => \A j \in c : O(t, res).lidx <= O(t, j).lidx     \* "the first one is returned"
            /\ res = 0 => (c = {} \/ TypeDepthBF(t, ty) = DEPTH_MULTIPLE)
     ELSE IF IsIO(s) THEN
       IF s.type \notin {OSDEV, PCIDEV} \/ ty \notin {OSDEV, PCIDEV} THEN res = 0
       ELSE LET cont == First(SelectSeq(AncSelfSeq(t, src), LAMBDA a : O(t, a).type # OSDEV))     \* what the OS device(s) hang from
                c == {k \in SeqSet(O(t, cont).io) : O(t, k).type = OSDEV /\ LocMatch(O(t, k), st, np)}
            IN IF ty = PCIDEV THEN res = IF O(t, cont).type = PCIDEV /\ LocMatch(O(t, cont), st, np) THEN cont ELSE 0
               ELSE IF O(t, cont).type = PCIDEV
                    THEN (res # 0 => res \in c /\ \A j \in c : O(t, res).srank <= O(t, j).srank) /\ (res = 0 => c = {})
                    ELSE res = 0 \/ res \in c                                         \* OS device outside any PCI device: not documented
     ELSE res = 0                                                                     \* Misc

(* ------------------------------------------------------------------ *)
(* type <-> depth lookups                                              *)
(* ------------------------------------------------------------------ *)
TypeDepthRel(t, ty, d) == d = TypeDepthBF(t, ty)

\* tc = hwloc_compare_types() signs (-1 contains, 1 is contained, 0 same, 2 unordered) for all pairs of types, logged with the topology
TCmp(tc, a, b) == tc[a + 1][b + 1]
TypeOrderSane(tc) ==
  /\ Len(tc) = NTYPES /\ \A a \in 1..NTYPES : Len(tc[a]) = NTYPES
  /\ \A a, b \in 0..(NTYPES - 1) :
       /\ TCmp(tc, a, b) \in {-1, 0, 1, 2}
       /\ (TCmp(tc, a, b) = 0) <=> (a = b)
       /\ TCmp(tc, a, b) = 2 <=> TCmp(tc, b, a) = 2
       /\ TCmp(tc, a, b) = -1 <=> TCmp(tc, b, a) = 1
       /\ (a \in NormalTypes /\ b \in NormalTypes) => TCmp(tc, a, b) # 2           \* "types containing CPUs can always be compared"
  /\ \A a \in NormalTypes \ {MACHINE} : TCmp(tc, MACHINE, a) = -1                  \* Machine is always the highest
  /\ \A a \in NormalTypes \ {PU} : TCmp(tc, PU, a) = 1                             \* PU is always the deepest
\* hwloc_get_type_or_below_depth: for an absent type, a level of a type usually found inside it, just below a level that usually contains it
OrBelowRel(t, tc, ty, res) ==
  LET d == TypeDepthBF(t, ty) IN
  IF d # DEPTH_UNKNOWN THEN res = d
  ELSE /\ res >= 1 /\ res <= t.depth - 1
       /\ TCmp(tc, t.levels[res + 1].type, ty) = 1
       /\ TCmp(tc, t.levels[res].type, ty) = -1
OrAboveRel(t, tc, ty, res) ==
  LET d == TypeDepthBF(t, ty) IN
  IF d # DEPTH_UNKNOWN THEN res = d
  ELSE /\ res >= 0 /\ res <= t.depth - 2
       /\ TCmp(tc, t.levels[res + 1].type, ty) = -1
       /\ TCmp(tc, t.levels[res + 2].type, ty) = 1
\* get_type_depth, or_below, or_above, nbobjs_by_type, next_obj_by_type iterated from NULL, obj_by_type(idx = 0..)
TypeLookupRel(t, tc, ty, d, below, above, nb, iter, byidx) ==
  LET s == TypeLevelObjs(t, ty) IN
  /\ d = TypeDepthBF(t, ty)
  /\ OrBelowRel(t, tc, ty, below) /\ OrAboveRel(t, tc, ty, above)
  /\ nb = IF d = DEPTH_MULTIPLE THEN -1 ELSE Len(s)
  /\ iter = s /\ byidx = IdxTable(s, Len(s) + 2)
  /\ ~NoSingleDepth(d) => SeqSet(s) = {i \in Pos(t) : O(t, i).type = ty}            \* the level holds exactly the objects of the type
\* get_depth_type, nbobjs_by_depth, next_obj_by_depth iterated from NULL, obj_by_depth(idx = 0..)
DepthLookupRel(t, d, ty, nb, iter, byidx) ==
  /\ SeqSet(iter) = {i \in Pos(t) : O(t, i).depth = d}                              \* exactly the objects of that depth ...
  /\ \A k \in DOMAIN iter : O(t, iter[k]).lidx = k - 1                             \* ... in logical order
  /\ nb = Len(iter) /\ byidx = IdxTable(iter, Len(iter) + 2)
  /\ IF ValidDepth(t, d) THEN (\A k \in DOMAIN iter : O(t, iter[k]).type = ty) /\ (d < 0 => d = SpecialDepth(ty)) /\ (d >= 0 => ty \in NormalTypes)
     ELSE ty = -1 /\ nb = 0
\* hwloc_get_cache_type_depth(level, type): type -1 any, 0 unified, 1 data, 2 instruction
CacheLevels(t, lv, ct) ==
  {d \in 0..(t.depth - 1) : \E k \in DOMAIN t.levels[d + 1].objs : LET o == O(t, t.levels[d + 1].objs[k]) IN
      o.type \in CacheTypes /\ o.attr.depth = lv /\ (ct = -1 \/ o.attr.ctype = ct \/ o.attr.ctype = 0)}
CacheTypeDepthRel(t, lv, ct, res) ==
  LET m == CacheLevels(t, lv, ct) IN
  IF m = {} THEN res = DEPTH_UNKNOWN
  ELSE IF ct = -1 /\ Cardinality(m) > 1 THEN res = DEPTH_MULTIPLE
  ELSE res \in m

\* hwloc_get_memory_parents_depth: the depth of the normal parents of all NUMA nodes when they agree, MULTIPLE otherwise
MemParentsDepthRel(t, res) ==
  LET ds == {O(t, First(SelectSeq(AncSelfSeq(t, i), LAMBDA a : IsNormal(O(t, a))))).depth : i \in {j \in Pos(t) : O(t, j).type = NUMANODE}} IN
  res = IF Cardinality(ds) = 1 THEN CHOOSE d \in ds : TRUE ELSE DEPTH_MULTIPLE
\* hwloc_get_type_depth_with_attr: as get_type_depth, except that a Group depth attribute selects among multiple Group levels
TypeDepthAttrRel(t, ty, gdepth, noattr, res) ==
  LET d == TypeDepthBF(t, ty) IN
  IF ty = GROUP /\ d = DEPTH_MULTIPLE /\ noattr = 0
  THEN LET m == {dd \in 0..(t.depth - 1) : t.levels[dd + 1].type = GROUP /\ \A k \in DOMAIN t.levels[dd + 1].objs : O(t, t.levels[dd + 1].objs[k]).attr.depth = gdepth} IN
       IF m = {} THEN res = DEPTH_UNKNOWN ELSE res \in m
  ELSE res = d

ByOsRel(t, ty, os, res) == LET c == {i \in Pos(t) : O(t, i).type = ty /\ O(t, i).os = os} IN IF c = {} THEN res = 0 ELSE res \in c

(* ------------------------------------------------------------------ *)
(* I/O lookups                                                         *)
(* ------------------------------------------------------------------ *)
PciAt(t, dom, bus, dev, func) == {i \in Pos(t) : O(t, i).type = PCIDEV /\ LET a == O(t, i).attr.pci IN a.dom = dom /\ a.bus = bus /\ a.dev = dev /\ a.func = func}
OneOf(c, res) == IF c = {} THEN res = 0 ELSE res \in c
\* hwloc_get_pcidev_by_busid, hwloc_get_pcidev_by_busidstring("dddd:bb:dd.f") and ("bb:dd.f": domain 0)
PciByBusidRel(t, dom, bus, dev, func, res, sres, short) ==
  OneOf(PciAt(t, dom, bus, dev, func), res) /\ OneOf(PciAt(t, dom, bus, dev, func), sres) /\ OneOf(PciAt(t, 0, bus, dev, func), short)
\* hwloc_bridge_covers_pcibus
BridgeCoversRel(t, obj, dom, bus, res) ==
  LET o == O(t, obj) IN
  res = IF o.type = BRIDGE /\ o.attr.down = 1 /\ o.attr.ddom = dom /\ o.attr.sec <= bus /\ bus <= o.attr.sub THEN 1 ELSE 0

(* ------------------------------------------------------------------ *)
(* hwloc_bitmap_singlify_per_core                                      *)
(* ------------------------------------------------------------------ *)
CoreObjs(t) == {i \in Pos(t) : O(t, i).type = CORE}
\* the which-th (by physical index) PU of the core among those in S; nothing if there are not that many
KeptOfCore(t, S, c, which) == LET P == OCS(t, c) \cap S IN {p \in P : Cardinality({q \in P : q < p}) = which}
Singlified(t, S, which) == (S \ UNION {OCS(t, c) : c \in CoreObjs(t)}) \cup UNION {KeptOfCore(t, S, c, which) : c \in CoreObjs(t)}
SinglifyRel(t, S, which, ret, res) == ret = 0 /\ SetR(res) = Singlified(t, S, which)

(* ------------------------------------------------------------------ *)
(* hwloc_distrib                                                       *)
(* ------------------------------------------------------------------ *)
DISTRIB_REVERSE == 1
NormRoot(t, r) == First(SelectSeq(AncSelfSeq(t, r), LAMBDA a : IsNormal(O(t, a))))      \* memory roots stand for their normal parent
PULidx(t, p) == O(t, CHOOSE i \in Pos(t) : O(t, i).type = PU /\ O(t, i).os = p).lidx
LMin(t, X) == CHOOSE m \in {PULidx(t, p) : p \in X} : \A p \in X : m <= PULidx(t, p)
LMax(t, X) == CHOOSE m \in {PULidx(t, p) : p \in X} : \A p \in X : m >= PULidx(t, p)
\* objects whose cpuset may be handed out: the roots, and below them everything whose parent is above depth `until`
DistribAllowed(t, roots, until) ==
  UNION {LET R == NormRoot(t, roots[k]) IN
         {R} \cup {i \in DescSelf(t, R) \ {R} : IsNormal(O(t, i)) /\ O(t, O(t, i).parent).depth < until} : k \in DOMAIN roots}
\* `until` does not stop the recursion anywhere: every object with children below the roots is above it
DistribNoCut(t, roots, until) ==
  \A k \in DOMAIN roots : \A i \in DescSelf(t, NormRoot(t, roots[k])) : (IsNormal(O(t, i)) /\ O(t, i).arity > 0) => O(t, i).depth < until
\* roots with CPUs are pairwise disjoint and given in logical order
RootsInOrder(t, roots) ==
  \A a, b \in DOMAIN roots : (a < b /\ OCS(t, roots[a]) # {} /\ OCS(t, roots[b]) # {}) =>
     OCS(t, roots[a]) \cap OCS(t, roots[b]) = {} /\ LMax(t, OCS(t, roots[a])) < LMin(t, OCS(t, roots[b]))

DistribRel(t, roots, n, until, flags, ret, err, sets, nulls, over) ==
  LET U == UNION {OCS(t, roots[k]) : k \in DOMAIN roots}
      out == [k \in DOMAIN sets |-> SetR(sets[k])]
      allowed == DistribAllowed(t, roots, until)
      Before(a, b) == IF flags = DISTRIB_REVERSE THEN b <= a ELSE a <= b
  IN /\ over = 0 /\ Len(sets) = n /\ Len(nulls) = n /\ (\A k \in DOMAIN nulls : nulls[k] \in {0, 1})   \* never more than n entries written
     /\ IF flags \notin {0, DISTRIB_REVERSE} THEN ret = -1 /\ err \in {"0", "EINVAL"} /\ \A k \in DOMAIN nulls : nulls[k] = 1     \* "-1 on error", nothing produced
        ELSE IF n = 0 THEN ret \in {0, -1}
        ELSE /\ ret = 0 /\ err = "0"
             /\ U # {} =>
                /\ \A k \in DOMAIN out : nulls[k] = 0 /\ out[k] # {} /\ out[k] \subseteq U       \* exactly n non-empty cpusets inside the roots
                /\ UNION {out[k] : k \in DOMAIN out} = U                                       \* together they cover all roots
                \* "down to depth until": every set is made of whole objects that the recursion may reach
                /\ \A k \in DOMAIN out : out[k] = UNION {OCS(t, i) : i \in {j \in allowed : OCS(t, j) \subseteq out[k]}}
                \* "distributed linearly" (REVERSE: "starting from the last objects")
                /\ RootsInOrder(t, roots) => \A a, b \in DOMAIN out : a < b =>
                      Before(LMin(t, out[a]), LMin(t, out[b])) /\ Before(LMax(t, out[a]), LMax(t, out[b]))
                \* pairwise disjoint when there are enough PUs and the recursion may go down to them
                /\ (n <= Cardinality(U) /\ DistribNoCut(t, roots, until) /\ RootsInOrder(t, roots)) =>
                      \A a, b \in DOMAIN out : a < b => out[a] \cap out[b] = {}

(* Reference construction of hwloc_distrib as documented in helper.h (recursive proportional chunks, a root that gets *)
(* no chunk is merged into the previous set).  Used on the model only: MC_Helpers checks that it satisfies DistribRel. *)
CeilDiv(a, b) == (a + b - 1) \div b
RevSeq(s) == [k \in 1..Len(s) |-> s[Len(s) + 1 - k]]
RECURSIVE DistribDo(_, _, _, _, _), DistribLoop(_, _, _, _, _, _, _, _, _)
DistribDo(t, roots, n, until, rev) ==
  LET W(k) == Cardinality(OCS(t, roots[k]))
      tot == LET RECURSIVE sum(_) sum(k) == IF k = 0 THEN 0 ELSE W(k) + sum(k - 1) IN sum(Len(roots))
  IN DistribLoop(t, IF rev THEN RevSeq(roots) ELSE roots, 1, 0, <<>>, n, tot, until, rev)
DistribLoop(t, order, i, gw, acc, n, tot, until, rev) ==
  IF i > Len(order) THEN acc
  ELSE LET cs == OCS(t, order[i])  w == Cardinality(cs)  R == NormRoot(t, order[i])
           chunk == CeilDiv((gw + w) * n, tot) - CeilDiv(gw * n, tot)
       IN IF w = 0 THEN DistribLoop(t, order, i + 1, gw, acc, n, tot, until, rev)
          ELSE IF O(t, R).arity = 0 \/ chunk <= 1 \/ O(t, R).depth >= until
               THEN IF chunk > 0 THEN DistribLoop(t, order, i + 1, gw + w, acc \o [k \in 1..chunk |-> cs], n, tot, until, rev)
                    ELSE DistribLoop(t, order, i + 1, gw + w, [acc EXCEPT ![Len(acc)] = @ \cup cs], n, tot, until, rev)
               ELSE DistribLoop(t, order, i + 1, gw + w, acc \o DistribDo(t, O(t, R).kids, chunk, until, rev), n, tot, until, rev)
=============================================================================
