------------------------------- MODULE XmlDoc -------------------------------
(***************************************************************************)
(* XML export / import (property C05): documents are identified by the     *)
(* path they were written to; the specification records, per document,     *)
(* which topology was exported, with which flags, its byte digest and the  *)
(* userdata handed to hwloc by the export callback.                        *)
(*                                                                         *)
(* Equivalent(a, b, flags): the full public projection is the same - tree  *)
(* and child order, types, subtypes, names, os_index, gp_index, the four   *)
(* sets of every object, allowed sets, attributes, infos in order, page    *)
(* types, distances, memory attributes, CPU kinds, topology infos, and     *)
(* support bits when IMPORT_SUPPORT was requested.  Strings are compared   *)
(* after dropping the characters hwloc documents as not exportable.        *)
(***************************************************************************)
EXTENDS TopoOps

XML_FLAG_V2 == 2
TOPO_FLAG_IMPORT_SUPPORT == 8

\* characters that can be exported: 32..126, tab, newline, carriage return
VC == " !\"#$%&'()*+,-./0123456789:;<=>?@ABCDEFGHIJKLMNOPQRSTUVWXYZ[\\]^_`abcdefghijklmnopqrstuvwxyz{|}~\t\n\r"
ValidChars == {SubSeq(VC, i, i) : i \in 1..Len(VC)}
RECURSIVE CleanFrom(_, _)
CleanFrom(s, i) == IF i > Len(s) THEN ""
                   ELSE (IF SubSeq(s, i, i) \in ValidChars THEN SubSeq(s, i, i) ELSE "") \o CleanFrom(s, i + 1)
Clean(s) == CleanFrom(s, 1)
CleanOpt(os) == [k \in DOMAIN os |-> Clean(os[k])]
CleanInfos(infos) == [k \in DOMAIN infos |-> <<Clean(infos[k][1]), Clean(infos[k][2])>>]

\* what of an object must survive a round trip (userdata goes through the callbacks instead)
ObjCore(o) == [o EXCEPT !.ud = 0, !.st = CleanOpt(o.st), !.name = CleanOpt(o.name), !.infos = CleanInfos(o.infos)]
StoresCore0(s, withSupport) ==
  IF withSupport THEN [s EXCEPT !.support.misc = <<>>] ELSE [s EXCEPT !.support = <<>>]
\* an importer that was told to ignore distances / memory attributes / CPU kinds does not have them
StoresCore(s, withSupport, flags) ==
  LET s1 == StoresCore0(s, withSupport)
      s2 == IF Bit(flags, 128) THEN [s1 EXCEPT !.dist = <<>>] ELSE s1
      s3 == IF Bit(flags, 256) THEN [s2 EXCEPT !.ma = <<>>] ELSE s2
  IN IF Bit(flags, 512) THEN [s3 EXCEPT !.ck = <<>>] ELSE s3
TopoCoreF(t, withSupport, flags) ==
  [objs |-> [i \in DOMAIN t.objs |-> ObjCore(t.objs[i])],
   depth |-> t.depth, levels |-> t.levels, tdepth |-> t.tdepth, mpdepth |-> t.mpdepth,
   tcs |-> t.tcs, tccs |-> t.tccs, tacs |-> t.tacs, tns |-> t.tns, tcns |-> t.tcns, tans |-> t.tans,
   tinfos |-> CleanInfos(t.tinfos), stores |-> StoresCore(t.stores, withSupport, flags)]

Equivalent(a, b, flags) == TopoCoreF(a, Bit(flags, TOPO_FLAG_IMPORT_SUPPORT), flags) = TopoCoreF(b, Bit(flags, TOPO_FLAG_IMPORT_SUPPORT), flags)

\* a v2-format export promises the same tree and sets only
TreeAndSets(t) == [objs |-> [i \in DOMAIN t.objs |->
                      [type |-> t.objs[i].type, os |-> t.objs[i].os, depth |-> t.objs[i].depth, lidx |-> t.objs[i].lidx,
                       parent |-> t.objs[i].parent, kids |-> t.objs[i].kids, mem |-> t.objs[i].mem, io |-> t.objs[i].io, misc |-> t.objs[i].misc,
                       hs |-> t.objs[i].hs, cs |-> t.objs[i].cs, ccs |-> t.objs[i].ccs, ns |-> t.objs[i].ns, cns |-> t.objs[i].cns]],
                   tacs |-> t.tacs, tans |-> t.tans]
SameTreeAndSets(a, b) == TreeAndSets(a) = TreeAndSets(b)

\* diagnostics: where two projections differ, as <<object fields, object types, top-level fields>>
EquivDiff(a, b, flags) ==
  LET A == TopoCoreF(a, Bit(flags, TOPO_FLAG_IMPORT_SUPPORT), flags)  B == TopoCoreF(b, Bit(flags, TOPO_FLAG_IMPORT_SUPPORT), flags)
      n == IF Len(A.objs) < Len(B.objs) THEN Len(A.objs) ELSE Len(B.objs)
      bad == {i \in 1..n : A.objs[i] # B.objs[i]}
  IN <<UNION {{f \in DOMAIN A.objs[i] : A.objs[i][f] # B.objs[i][f]} : i \in bad},
       {A.objs[i].type : i \in bad},
       {f \in DOMAIN A : f # "objs" /\ A[f] # B[f]} \cup (IF Len(A.objs) # Len(B.objs) THEN {"nobjs"} ELSE {})>>

\* a document record
Doc(src, flags, digest, deliv, ud) == [src |-> src, flags |-> flags, digest |-> digest, deliv |-> deliv, ud |-> ud]
=============================================================================
