------------------------------ MODULE Registry ------------------------------
(* The reference-counted components registry step, taken under the        *)
(* components mutex: the new user count and whether this call is the one   *)
(* that registers (first user) or unregisters (last user) the components.  *)
(* Shared by the protocol model (Concurrency.tla) and the trace            *)
(* specification (TraceConcurrency.tla).                                   *)
EXTENDS Integers
RegInit(u) == [users |-> u + 1, edge |-> u = 0]
RegFini(u) == [users |-> u - 1, edge |-> u = 1]
=============================================================================
