------------------------------ MODULE Registry ------------------------------
(* The reference-counted components registry.                              *)
(*                                                                         *)
(* RegInit / RegFini: the step taken under the components mutex: the new   *)
(* user count and whether this call is the one that registers (first user) *)
(* or unregisters (last user) the components.                              *)
(*                                                                         *)
(* The alphabet of public entry points that take the registry, and the     *)
(* BALANCE LAW that makes independent topologies independent: every call   *)
(* leaves the user count where it found it, except that a call that hands  *)
(* a new topology to its caller keeps one reference (+1) and               *)
(* hwloc_topology_destroy gives one back (-1).  Hence, between calls,      *)
(*        users = number of live topologies in the process,                *)
(* and the components stay registered exactly as long as some thread owns  *)
(* a topology, whatever the other threads do with theirs - on EVERY return *)
(* path, failing ones included.                                            *)
(*                                                                         *)
(* Shared by the protocol model (Concurrency.tla), the generator of        *)
(* independent histories (IndepCalls.tla / MC_IndepCalls.tla) and the      *)
(* trace specification (TraceConcurrency.tla).                             *)
EXTENDS Integers, Sequences
RegInit(u) == [users |-> u + 1, edge |-> u = 0]
RegFini(u) == [users |-> u - 1, edge |-> u = 1]

(* every caller of hwloc_components_init() / hwloc_components_fini() reachable from the public API *)
TakeOps    == {"init",            \* hwloc_topology_init
               "dup",             \* hwloc_topology_dup           (-> hwloc__topology_init)
               "adopt"}           \* hwloc_shmem_topology_adopt
DropOps    == {"destroy"}         \* hwloc_topology_destroy, also of a duplicated or adopted topology (hwloc__topology_disadopt)
NeutralOps == {"shmlen",          \* hwloc_shmem_topology_get_length  (dup into a counting allocator, destroy)
               "shmwrite",        \* hwloc_shmem_topology_write       (dup into the mapping, fini)
               "diffload_buf",    \* hwloc_topology_diff_load_xmlbuffer
               "diffload_file",   \* hwloc_topology_diff_load_xml
               "diffexp_buf",     \* hwloc_topology_diff_export_xmlbuffer
               "diffexp_file"}    \* hwloc_topology_diff_export_xml
(* calls of the independent histories that never take the registry (they need it REGISTERED: set_synthetic, load, XML export) *)
LocalOps   == {"load", "modify", "digest", "diffbuild", "diffdestroy"}
RegOps == TakeOps \cup DropOps \cup NeutralOps
AllOps == RegOps \cup LocalOps

(* net effect of one call on the user count; ok = the call returned success *)
Net(op, ok) == IF op \in TakeOps /\ ok THEN 1 ELSE IF op \in DropOps THEN -1 ELSE 0

(* the registry steps a call may take, as deltas in the order the mutex gave them: whatever it does inside (nothing, or  *)
(* init ... fini around its body, or several such pairs), it never releases a reference it does not hold and it ends at *)
(* its net effect.  A fini without a matching init on some return path, or an init that is never given back, is out.    *)
RECURSIVE BalancedFrom(_, _, _, _, _)
BalancedFrom(d, k, acc, floor, net) ==
  IF k > Len(d) THEN acc = net
  ELSE acc + d[k] >= floor /\ BalancedFrom(d, k + 1, acc + d[k], floor, net)
Balanced(d, net) == BalancedFrom(d, 1, 0, IF net < 0 THEN net ELSE 0, net)

(* the footprints the protocol model explores for a call of net effect n: the shortest ones that the code really has *)
Footprints(n) == CASE n = 1  -> {<<1>>}
                   [] n = -1 -> {<<-1>>}
                   [] n = 0  -> {<<>>, <<1, -1>>}
(* ... and what a broken return path looks like (negative control of the model: TLC must find the interference) *)
BrokenFootprints == {<<-1>>, <<1>>}

RECURSIVE SumSeq(_)
SumSeq(s) == IF s = <<>> THEN 0 ELSE Head(s) + SumSeq(Tail(s))
=============================================================================
