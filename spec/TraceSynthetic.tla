--------------------------- MODULE TraceSynthetic ---------------------------
(***************************************************************************)
(* Trace validation of the behaviours recorded by harness/hwv_synthetic    *)
(* (C07).  One behaviour = one description:                                *)
(*   Reset, [filter..], set, [filter..], [load, [perturb], export x flag   *)
(*   words, reload x distinct                                              *)
(*   exported texts], end                                                  *)
(* Spec state: the abstract description (model behaviours), the summary of *)
(* the current topology, the exported text per flag word, the texts that   *)
(* were reloaded.  Every logged field is bound; crashes and hangs have no  *)
(* action.  The relations are written `R = TRUE' so that TLC evaluates     *)
(* them as plain formulas (an existential inside an action would otherwise *)
(* be enumerated as a choice of successor states).                         *)
(***************************************************************************)
EXTENDS Synthetic, Json, IOUtils

T == ndJsonDeserialize(IOEnv.TRACE)

VARIABLES l, st, desc, cur, exp, rel, flt

vars == <<l, st, desc, cur, exp, rel, flt>>
NoSum == [depth |-> 0]
NoDesc == [ok |-> FALSE]

Init == l = 1 /\ st = "none" /\ desc = NoDesc /\ cur = NoSum /\ exp = <<>> /\ rel = {} /\ flt = DefaultFlt

IsEvent(e) == l <= Len(T) /\ T[l].e = e /\ l' = l + 1
E == T[l]

TReset == /\ IsEvent("Reset")
          /\ E.beh >= 0
          /\ st' = "init" /\ desc' = NoDesc /\ cur' = NoSum /\ exp' = <<>> /\ rel' = {} /\ flt' = DefaultFlt

\* hwloc_topology_set_type_filter before the load (before or after set_synthetic): the documented impossible
\* combinations are refused and change nothing, the others are accepted
TFilter == /\ IsEvent("filter")
           /\ st \in {"init", "set"}
           /\ FilterCallRel(E.type, E.kind, E.ret) = TRUE
           /\ flt' = IF E.ret = 0 THEN ApplyFlt(flt, E.type, E.kind) ELSE flt
           /\ UNCHANGED <<st, desc, cur, exp, rel>>

\* hwloc_topology_set_synthetic on a description emitted by the model: the logged text is the rendering of the
\* logged abstract description, which is well formed; valid descriptions of moderate depth must be accepted
TSetModel == /\ IsEvent("set") /\ E.model = 1
             /\ st = "init"
             /\ DescOK(E.d) = TRUE
             /\ E.text = Render(E.d) /\ E.len = Len(E.text)
             /\ SetRel(E.d, E.ret, E.errno) = TRUE
             /\ st' = IF E.ret = 0 THEN "set" ELSE "refused"
             /\ desc' = [ok |-> TRUE, d |-> E.d]
             /\ UNCHANGED <<cur, exp, rel, flt>>

\* ... on an arbitrary string: accepted, or refused with EINVAL
TSetHostile == /\ IsEvent("set") /\ E.model = 0
               /\ st = "init"
               /\ E.len >= Len(E.text)
               /\ WeakSetRel(E.ret, E.errno)
               /\ st' = IF E.ret = 0 THEN "set" ELSE "refused"
               /\ UNCHANGED <<desc, cur, exp, rel, flt>>

\* hwloc_topology_load: an accepted model description loads, and into what it says; whatever loads is well formed
TLoad == /\ IsEvent("load")
         /\ st = "set"
         /\ E.ret \in {0, -1}
         /\ desc.ok => E.ret = 0
         /\ IF E.ret = 0
            THEN /\ E.sum.depth >= 2
                 /\ E.full \in {0, 1}
                 /\ E.slot = 0 /\ Len(E.topos) = 1
                 /\ E.full = 1 => (E.topos[1].n > 0 /\ WellFormed(E.topos[1]) = TRUE /\ SumOf(E.topos[1]) = E.sum)
                 /\ E.full = 0 => E.topos[1].n = 0
                 /\ (desc.ok => BuildRel(desc.d, flt, E.sum)) = TRUE
                 /\ st' = "loaded" /\ cur' = E.sum
            ELSE /\ E.sum.depth = 0 /\ E.topos[1].n = 0
                 /\ st' = "refused" /\ cur' = NoSum
         /\ UNCHANGED <<desc, exp, rel, flt>>

\* hwloc_topology_restrict (judged by C08): the summary it leaves is adopted; a refusal changes nothing
TPerturb == /\ IsEvent("perturb")
            /\ st = "loaded" /\ exp = <<>>
            /\ E.kind \in {"cpu", "node"} /\ E.os >= 0
            /\ E.ret \in {0, -1}
            /\ E.ret = -1 => E.sum = cur
            /\ cur' = E.sum
            /\ UNCHANGED <<st, desc, exp, rel, flt>>

\* hwloc_topology_export_synthetic with one flag word, at every buffer length
TExport == /\ IsEvent("export")
           /\ st = "loaded"
           /\ E.flags >= 0 /\ E.flags \notin {exp[k].flags : k \in DOMAIN exp}
           /\ E.all \in {0, 1} /\ E.reload \in {0, 1}
           /\ E.cap > E.rbig /\ E.glo = 0 /\ E.ghi = 0
           /\ ExportRetRel(cur, E.flags, E.rbig) = TRUE
           /\ (E.rbig >= 0 => (E.rbig = Len(E.full) /\ (KnownFlags(E.flags) => FlagTextRel(E.flags, E.full)))) = TRUE
           /\ E.rbig < 0 => E.full = ""
           /\ Len(E.calls) >= 2 /\ E.calls[1][1] = 0 /\ E.calls[Len(E.calls)][1] = (IF E.rbig > 0 THEN E.rbig ELSE 0) + 1
           /\ (\A k \in DOMAIN E.calls : SnprintfRel(E.full, E.rbig, E.calls[k])) = TRUE
           /\ exp' = Append(exp, [flags |-> E.flags, ok |-> E.rbig >= 0, text |-> E.full, reload |-> E.reload])
           /\ UNCHANGED <<st, desc, cur, rel, flt>>

\* the exported text is loaded into a second topology and exported again
TReload == /\ IsEvent("reload")
           /\ st = "loaded"
           /\ E.text \notin rel
           \* the event stands for exactly the flag words that produced this text
           /\ {E.flags[k] : k \in DOMAIN E.flags} = {exp[k].flags : k \in {x \in DOMAIN exp : exp[x].ok /\ exp[x].reload = 1 /\ exp[x].text = E.text}}
           /\ E.flags # <<>>
           /\ {E.re[k][1] : k \in DOMAIN E.re} = {E.flags[k] : k \in DOMAIN E.flags} \/ (E.re = <<>> /\ (E.set # 0 \/ E.load # 0))
           \* the second topology was given the type filters of the first one
           /\ FltOf(E.flt) = flt /\ \A k \in DOMAIN E.flt : E.flt[k][3] = 0
           /\ (\A k \in DOMAIN E.flags : KnownFlags(E.flags[k]) => RoundTripRel(cur, flt, E.flags[k], E)) = TRUE
           /\ rel' = rel \cup {E.text}
           /\ UNCHANGED <<st, desc, cur, exp, flt>>

\* end of the behaviour: every exported text was reloaded (unless the behaviour asked for exports only)
TEnd == /\ IsEvent("end")
        /\ st \in {"refused", "set", "loaded"}
        /\ \A k \in DOMAIN exp : (exp[k].ok /\ exp[k].reload = 1) => exp[k].text \in rel
        /\ st' = "none" /\ desc' = NoDesc /\ cur' = NoSum /\ exp' = <<>> /\ rel' = {} /\ flt' = DefaultFlt

Next == TReset \/ TFilter \/ TSetModel \/ TSetHostile \/ TLoad \/ TPerturb \/ TExport \/ TReload \/ TEnd
Spec == Init /\ [][Next]_vars

Accepted == TLCGet("stats").diameter - 1 = Len(T)
=============================================================================
