---------------------------- MODULE MC_Synthetic ----------------------------
(***************************************************************************)
(* Bounded model of a client of the synthetic-description API (C07).       *)
(* The description is built item by item, the way the parser consumes it:  *)
(*   AddAtt        "[numa]" attached to the last item (or the root)        *)
(*   AddLevel(T,a) "type:a" (or "a" in the untyped family)                 *)
(*   Finish(a,v)   the PU level with one of the index specifications,      *)
(*                 variant v (explicit sizes, NUMA indexes)                *)
(*   SetSynthetic  hwloc_topology_set_synthetic(Render(d))                 *)
(*   SetFilters    hwloc_topology_set_type_filter calls (before or after   *)
(*                 set_synthetic): one class per level type of the         *)
(*                 description and filter kind that differs from the       *)
(*                 default, pairs of them, refused calls                   *)
(*   Load          hwloc_topology_load: abs = BuildDo(d, filters)          *)
(*   Perturb       hwloc_topology_restrict dropping one PU / NUMA node     *)
(*   Export        hwloc_topology_export_synthetic with every flag word,   *)
(*                 reload, re-export (performed by the recorder)           *)
(* Invariants: the emitted descriptions are well formed, their indexes are *)
(* permutations, and the constructive build satisfies BuildRel (so the     *)
(* relation is satisfiable on every description that is replayed).         *)
(* Every finished behaviour is printed ("BEH") for replay; Stripe/NStripes *)
(* select a deterministic share of them.                                   *)
(***************************************************************************)
EXTENDS Synthetic, Json

CONSTANTS Family,        \* "typed" or "untyped"
          Alphabet,      \* level types that may be used (typed family)
          MaxLv,         \* non-PU levels added by AddLevel
          MinLv,         \* Finish needs at least MinLv of them (balances the random walks of the simulation mode)
          Arities, MaxPU,
          MaxGroups, MaxAtt,
          Style,         \* spelling style 1..3
          Deep,          \* number of leading "Group:1" padding levels (0: none)
          Variants,      \* subset of 0..3: bit 0 explicit sizes, bit 1 NUMA indexes
          IdxKinds,      \* subset of {"none", "list", "types", "loops"}
          Perturbs,      \* subset of {"none", "cpu", "node"}
          PermLv,        \* every permutation of 4 PUs is tried when at most PermLv levels were added
          MaxFlt,        \* 0: default type filters; 1: one set_type_filter call; 2: also two calls and the refused calls
          Lates,         \* subset of BOOLEAN: the filter calls come after (TRUE) / before (FALSE) set_synthetic
          NStripes, Stripe
VARIABLES st, d, abs, pert, flt, late

vars == <<st, d, abs, pert, flt, late>>

SpellSeq(T) == CASE T = PACKAGE -> <<"pack", "Package", "pa">> [] T = DIE -> <<"die", "Die", "di">>
                 [] T = CORE -> <<"core", "Core", "co">> [] T = PU -> <<"pu", "PU", "Pu">>
                 [] T = GROUP -> <<"group", "Group", "gr">> [] T = NUMANODE -> <<"node", "NUMANode", "nu">>
                 [] T = L1 -> <<"l1", "L1Cache", "l1d">> [] T = L2 -> <<"l2", "L2Cache", "l2u">>
                 [] T = L3 -> <<"l3", "L3Cache", "l3u">>
                 [] T = L1I -> <<"l1i", "L1iCache", "l1icache">> [] T = L2I -> <<"l2i", "L2iCache", "l2icache">>
                 [] T = L3I -> <<"l3i", "L3iCache", "l3icache">>
Spell(T) == IF T = UNTYPED THEN "" ELSE SpellSeq(T)[Style]
ASSUME \A T \in LevelTypes \cup {PU} : \A k \in 1..3 : SpellSeq(T)[k] \in Spellings(T)

Lvl(T, a) == [T |-> T, name |-> Spell(T), ar |-> a, size |-> <<>>, idx |-> NoIdx, att |-> <<>>]
Att0 == [name |-> IF Style = 2 THEN "NUMANode" ELSE IF Style = 3 THEN "nu" ELSE "numa", size |-> <<>>, idx |-> NoIdx]
PadT == IF Family = "untyped" THEN UNTYPED ELSE GROUP

Init == /\ st = "build"
        /\ d = [rattr |-> <<>>, ratt |-> <<>>, lv |-> [i \in 1..Deep |-> Lvl(PadT, 1)]]
        /\ abs = [depth |-> 0] /\ pert = <<>> /\ flt = <<>> /\ late = FALSE

Built == Len(d.lv) - Deep          \* levels added by AddLevel
CurWidth == WidthAt(d, Len(d.lv))
MaxRank == LET S == {TypeRank(d.lv[i].T) : i \in 1..Len(d.lv)} IN IF S = {} THEN 0 ELSE Max(S)
NGroups == Cardinality({i \in (Deep + 1)..Len(d.lv) : d.lv[i].T = GROUP})

AddAtt == /\ st = "build" /\ ~HasNumaLevel(d) /\ Len(AllAtt(d)) < MaxAtt
          /\ IF Built = 0 THEN Len(d.ratt) < 2 /\ d' = [d EXCEPT !.ratt = Append(@, Att0)]
             ELSE Len(d.lv[Len(d.lv)].att) < 2 /\ d' = [d EXCEPT !.lv[Len(d.lv)].att = Append(@, Att0)]
          /\ UNCHANGED <<st, abs, pert, flt, late>>

AddLevel(T, a) ==
  /\ st = "build" /\ Built < MaxLv /\ CurWidth * a <= MaxPU
  /\ IF Family = "untyped" THEN T = UNTYPED
     ELSE /\ T \in Alphabet
          /\ T = GROUP => NGroups < MaxGroups
          /\ T = NUMANODE => ~HasNumaLevel(d) /\ AllAtt(d) = <<>>
          /\ TypeRank(T) > 0 => TypeRank(T) > MaxRank
  /\ d' = [d EXCEPT !.lv = Append(@, Lvl(T, a))]
  /\ UNCHANGED <<st, abs, pert, flt, late>>

\* ---- index specifications offered for a level of width n ----
Perms(n) == {f \in [1..n -> 0..(n - 1)] : \A a, b \in 1..n : a # b => f[a] # f[b]}
ListChoices(n) ==
  IF n <= 3 \/ (n = 4 /\ Built <= PermLv) THEN (Perms(n) \ {Ident(n)}) \cup {[p \in 1..n |-> 2 * (p - 1) + 1]}
  ELSE {[p \in 1..n |-> n - p], [p \in 1..n |-> p % n], [p \in 1..n |-> (p - 1 + n \div 2) % n], [p \in 1..n |-> 3 * (p - 1) + 2]}
NamedLevels(dd, lvl) == {i \in (Deep + 1)..(lvl - 1) : dd.lv[i].T \in LevelTypes /\ i = FirstLevelOf(dd, dd.lv[i].T)}
NameOf(dd, i) == <<dd.lv[i].name, dd.lv[i].T>>
TypeChoices(dd, lvl) ==
  LET NN == NamedLevels(dd, lvl) IN
  {<<NameOf(dd, i)>> : i \in NN} \cup {q \in {<<NameOf(dd, i), NameOf(dd, j)>> : i \in NN, j \in NN} : q[1] # q[2]}
\* digit loops of the levels with several children, in every order; the last loop may be left implicit when its step is 1
DigitLoops(dd, lvl) == {<<WidthAt(dd, lvl) \div WidthAt(dd, i), dd.lv[i].ar>> : i \in {x \in 1..lvl : dd.lv[x].ar > 1}}
SeqsOf(S) == IF S = {} THEN {<<>>} ELSE {f \in [1..Cardinality(S) -> S] : \A a, b \in 1..Cardinality(S) : a # b => f[a] # f[b]}
LoopChoices(dd, lvl) ==
  LET full == SeqsOf(DigitLoops(dd, lvl)) \ {<<>>} IN
  full \cup {SubSeq(f, 1, Len(f) - 1) : f \in {g \in full : Len(g) >= 2 /\ g[Len(g)][1] = 1}}
IdxChoices(dd, lvl) ==
  LET n == WidthAt(dd, lvl) IN
  (IF "none" \in IdxKinds THEN {NoIdx} ELSE {})
  \cup (IF "list" \in IdxKinds /\ n >= 2 THEN {[k |-> "list", v |-> x] : x \in ListChoices(n)} ELSE {})
  \cup (IF "types" \in IdxKinds /\ Family = "typed" /\ n >= 2 THEN {[k |-> "types", v |-> x] : x \in TypeChoices(dd, lvl)} ELSE {})
  \cup (IF "loops" \in IdxKinds /\ n >= 2 THEN {[k |-> "loops", v |-> x] : x \in LoopChoices(dd, lvl)} ELSE {})

\* ---- variants: explicit sizes (bit 0) and NUMA indexes (bit 1) ----
UnitSeq == <<"", "kB", "KiB", "MB", "MiB", "GB", "GiB", "TB", "TiB">>
SizeNo(n) == <<((n % 100) + 1) * 512, UnitSeq[(n % 9) + 1]>>
WithSizes(dd) ==
  [dd EXCEPT !.rattr = <<3, "GB">>,
             !.ratt = [k \in DOMAIN dd.ratt |-> [dd.ratt[k] EXCEPT !.size = SizeNo(k + 4)]],
             !.lv = [i \in DOMAIN dd.lv |->
                [dd.lv[i] EXCEPT !.size = IF dd.lv[i].T \in CacheTypes \cup {NUMANODE} THEN SizeNo(i) ELSE <<>>,
                                 !.att = [k \in DOMAIN dd.lv[i].att |-> [dd.lv[i].att[k] EXCEPT !.size = SizeNo(i + k + 1)]]]]]
\* reversed list on the first attached item / reversed list or a named level on the NUMA level
WithNumaIdx(dd) ==
  IF HasNumaLevel(dd) THEN
    LET i == FirstLevelOf(dd, NUMANODE)  w == WidthAt(dd, i)
        NN == NamedLevels(dd, i)
        x == IF NN # {} /\ w > 2 THEN [k |-> "types", v |-> <<NameOf(dd, Min(NN))>>] ELSE [k |-> "list", v |-> [p \in 1..w |-> w - p]]
    IN IF w >= 2 THEN [dd EXCEPT !.lv[i].idx = x] ELSE dd
  ELSE LET n == Cardinality(AttInst(dd))
           x == [k |-> "list", v |-> [p \in 1..n |-> n - p + (IF n % 2 = 0 THEN 3 ELSE 0)]]
       IN IF n < 2 THEN dd
          ELSE IF dd.ratt # <<>> THEN [dd EXCEPT !.ratt[1].idx = x]
          ELSE LET i == Min({y \in 1..NL(dd) : dd.lv[y].att # <<>>}) IN [dd EXCEPT !.lv[i].att[1].idx = x]
Variant(dd, v) == LET d1 == IF v % 2 = 1 THEN WithSizes(dd) ELSE dd IN IF v \div 2 = 1 THEN WithNumaIdx(d1) ELSE d1
Applicable(dd, v) == /\ v \in Variants
                     /\ (v \div 2 = 1 => WithNumaIdx(dd) # dd)
                     /\ (v # 0 => Family = "typed")

LastT == IF Family = "untyped" THEN UNTYPED ELSE PU
Finish(a, v) ==
  /\ st = "build" /\ CurWidth * a <= MaxPU /\ Built >= MinLv
  /\ LET d1 == [d EXCEPT !.lv = Append(@, Lvl(LastT, a))] IN
     /\ Applicable(d1, v)
     /\ \E x \in IdxChoices(Variant(d1, v), NL(d1)) : d' = [Variant(d1, v) EXCEPT !.lv[NL(d1)].idx = x]
  /\ st' = "text"
  /\ UNCHANGED <<abs, pert, flt, late>>

\* ---- type filters of the topology the description is loaded into ----
\* the classes are computed from the description: every type that one of its levels has (a filter on another type
\* changes nothing), with every kind that differs from the default of that type; then pairs of those on different
\* types, and the calls that the documentation says are refused
FltTypes == {d.lv[i].T : i \in (Deep + 1)..(NL(d) - 1)} \ {NUMANODE, UNTYPED, PU, GROUP}
KindsFor(T) == IF T = GROUP THEN {KEEP_NONE}
               ELSE IF T \in ICacheTypes THEN {KEEP_ALL, KEEP_STRUCTURE, KEEP_IMPORTANT} ELSE {KEEP_NONE, KEEP_STRUCTURE}
\* (MaxFlt = 3 adds "Groups ignored": hwloc then hangs the memory of a NUMA level or of an ignored level on whatever
\* object existed when the node was inserted, which no documentation describes - not used by the check)
Singles == UNION {{<<T, k>> : k \in KindsFor(T)} : T \in FltTypes \cup (IF MaxFlt >= 3 THEN {GROUP} ELSE {})}
Refused == {<<PU, KEEP_NONE>>, <<GROUP, KEEP_ALL>>, <<NUMANODE, KEEP_STRUCTURE>>}
FltChoices ==
  IF Family = "untyped" \/ MaxFlt = 0 THEN {<<>>}
  ELSE {<<>>} \cup {<<c>> : c \in Singles}
       \cup (IF MaxFlt >= 2 THEN {<<a, b>> : a \in Singles \cup Refused, b \in Singles} \ {<<a, a>> : a \in Singles} ELSE {})
SetFilters == /\ st = "text" /\ st' = "flt"
              /\ \E c \in FltChoices, lt \in Lates : flt' = c /\ late' = (lt /\ c # <<>>)
              /\ UNCHANGED <<d, abs, pert>>

SetSynthetic == /\ st = "flt" /\ st' = "set" /\ UNCHANGED <<d, abs, pert, flt, late>>

Load == /\ st = "set" /\ st' = "loaded"
        /\ abs' = BuildDo(d, FltOf(flt))
        /\ UNCHANGED <<d, pert, flt, late>>

\* perturbations that certainly leave an asymmetric tree / asymmetric memory
LastPU == PUos(abs)[Len(PUos(abs))]
CanDropPU == NL(d) >= 2 /\ d.lv[NL(d)].ar >= 2 /\ WidthAt(d, NL(d) - 1) >= 2
CanDropNode == Len(abs.numa) >= 2 /\ \E k \in DOMAIN abs.lv : abs.lv[k].nb >= 2 /\ abs.lv[k].mar[1] >= 1
Perturb(kind) ==
  /\ st = "loaded" /\ kind \in Perturbs
  /\ CASE kind = "cpu"  -> CanDropPU /\ pert' = <<"cpu", LastPU>>
       [] kind = "node" -> CanDropNode /\ pert' = <<"node", abs.numa[1].os>>
       [] OTHER -> pert' = <<>>
  /\ st' = "pert"
  /\ UNCHANGED <<d, abs, flt, late>>

Export == /\ st = "pert" /\ st' = "done" /\ UNCHANGED <<d, abs, pert, flt, late>>

Next == \/ AddAtt
        \/ \E T \in LevelTypes \cup {UNTYPED}, a \in Arities : AddLevel(T, a)
        \/ \E a \in Arities, v \in Variants : Finish(a, v)
        \/ SetFilters \/ SetSynthetic \/ Load
        \/ \E k \in {"none", "cpu", "node"} : Perturb(k)
        \/ Export
Spec == Init /\ [][Next]_vars

\* ---- invariants ----
DescInv == st # "build" =>
  /\ DescOK(d)
  /\ IdxOK(d, NL(d), d.lv[NL(d)].idx, NPU(d))
  /\ HasNumaLevel(d) => LET i == FirstLevelOf(d, NUMANODE) IN IdxOK(d, i, d.lv[i].idx, WidthAt(d, i))
  /\ Len(AttIdxList(d)) = Cardinality(AttInst(d)) /\ NoDup(AttIdxList(d))
BuildInv == st = "loaded" => BuildRel(d, FltOf(flt), abs)
\* a synthetic build is symmetric, so is its memory; the two export obligations never conflict
ExportInv == st = "loaded" =>
  /\ abs.rsym = 1 /\ MemSym(abs)
  /\ \A f \in 0..15 : ~(MustSucceed(abs, f) /\ MustFail(abs, f))
  /\ \A f \in 0..15 : ~Has(f, F_V1) => MustSucceed(abs, f)

\* ---- emission ----
RECURSIVE WSum(_, _)
WSum(v, k) == IF k > Len(v) THEN 0 ELSE k * v[k] + WSum(v, k + 1)
IdxFinger(idx) == IF idx.k = "list" THEN WSum(idx.v, 1) ELSE IF idx.k = "loops" THEN WSum([k \in DOMAIN idx.v |-> idx.v[k][1]], 1) + 1 ELSE Len(idx.v)
RECURSIVE Finger(_, _)
Finger(lv, i) == IF i > Len(lv) THEN 0
                 ELSE (lv[i].T + 2) * 7 + lv[i].ar * 3 + Len(lv[i].att) * 5 + IdxFinger(lv[i].idx) + Len(lv[i].size) + 3 * Finger(lv, i + 1)
FltFinger == WSum([k \in DOMAIN flt |-> flt[k][1] * 4 + flt[k][2]], 1) + (IF late THEN 1 ELSE 0)
Emit == (st = "done" /\ (Finger(d.lv, Deep + 1) + Len(d.ratt) + Len(pert) + FltFinger) % NStripes = Stripe)
           => PrintT(<<"BEH", ToJson([d |-> d, text |-> Render(d), pert |-> pert, flt |-> flt, late |-> late])>>)
=============================================================================
