------------------------------- MODULE MC_Calc -------------------------------
(***************************************************************************)
(* Bounded model of the C20 command lines over ONE topology: the record    *)
(* logged by harness/hwv_calc for the input the tools will be given (read  *)
(* from TopoFile, so the model and the trace specification evaluate the    *)
(* same Calc operators on the same projection).                            *)
(*                                                                         *)
(* hwloc-calc: the accumulator machine of Calc.tla, one named action per   *)
(* kind of token (Add / Clr / And / Xor of a location, input option,       *)
(* token that is not a location, duplicated token), followed by one        *)
(* Finish(group) that selects a group of invocations run on the same       *)
(* location sequence (e.g. -I t then -N t; --largest then its output fed   *)
(* back).  Shapes bounds which alphabet class may stand at which position. *)
(* hwloc-distrib: one action from the initial state (lstopo has a model of *)
(* its own, MC_Lstopo.tla).  Every Finish / Distrib edge in the stripe is  *)
(* printed for the recorder.                                               *)
(***************************************************************************)
EXTENDS Calc, Json, SequencesExt

CONSTANTS TopoFile,      \* ndjson file with one Topo event
          Shapes,        \* set of sequences of class names: which tokens may stand at position k
          NStripes, Stripe,
          WithOther,     \* also enumerate hwloc-distrib command lines
          WithStdin      \* also enumerate the groups that give the locations on the standard input
VARIABLES toks, ids, st, phase, grp

TE == ndJsonDeserialize(TopoFile)[1]
T == TE.topo
Names == [l |-> TE.lnames, s |-> TE.snames]

(* ------------------------------ alphabets ------------------------------ *)
TypeName(ty) ==
  CASE ty = MACHINE -> "machine" [] ty = PACKAGE -> "pack" [] ty = DIE -> "die" [] ty = CORE -> "core" [] ty = PU -> "pu"
    [] ty = L1 -> "l1" [] ty = L2 -> "l2cache" [] ty = L3 -> "l3" [] ty = L4 -> "l4cache" [] ty = L5 -> "l5cache"
    [] ty = L1I -> "l1i" [] ty = L2I -> "l2icache" [] ty = L3I -> "l3icache" [] ty = GROUP -> "group"
    [] ty = NUMANODE -> "numa" [] ty = MEMCACHE -> "memcache" [] ty = BRIDGE -> "bridge" [] ty = PCIDEV -> "pci" [] ty = OSDEV -> "os" [] ty = MISC -> "misc"
NGroupLevels == Cardinality({d \in 0..(T.depth - 1) : T.levels[d + 1].type = GROUP})
LvName(d) == LET L == T.levels[LevelIdx(T, d)] IN
  IF L.type = GROUP /\ NGroupLevels > 1 THEN "group" \o BS!Dec(O(T, L.objs[1]).attr.depth) ELSE TypeName(L.type)
UsedDepths == {d \in (0..(T.depth - 1)) \cup {-3, -5, -6, -7} : T.levels[LevelIdx(T, d)].nb > 0}
Width(d) == T.levels[LevelIdx(T, d)].nb
Alias(d) == LET ty == T.levels[LevelIdx(T, d)].type IN
  CASE ty = PACKAGE -> {"package"} [] ty = NUMANODE -> {"node", "numanode"} [] ty = CORE -> {BS!Dec(d)} [] ty = PCIDEV -> {"pcidev"} [] OTHER -> {}

R1(k, a) == [rk |-> k, a |-> a, b |-> 0]
R2(k, a, b) == [rk |-> k, a |-> a, b |-> b]
\* boundary-biased ranges for a level of width w
RangesFor(w) == {r \in {R1("one", 0), R1("one", 1), R1("one", w - 1), R1("one", w),
                        R2("span", 0, 1), R2("span", 1, w - 1), R2("span", w - 1, w + 1),
                        R1("from", 1), R1("from", w), R1("from", w + 1),
                        R2("cnt", w - 1, 2), R2("cnt", 0, w + 1), R2("cnt", 1, 1), R2("cnt", w, 1),
                        R1("all", 0), R1("odd", 0), R1("even", 0)} : r.a >= 0 /\ RangeOK(r)}
FewRanges == {R1("one", 0), R1("one", 1), R2("span", 0, 1), R2("cnt", 1, 2), R1("all", 0), R1("from", 1), R1("one", 2)}
HeadRanges(w) == {R1("one", 0), R1("one", w - 1), R1("all", 0), R1("odd", 0)}
Obj(chain) == [k |-> "obj", chain |-> chain, op |-> ""]
Lk(tn, r) == [tn |-> tn, r |-> r]

SingleLocs == UNION {{Obj(<<Lk(tn, r)>>) : tn \in {LvName(d)} \cup Alias(d), r \in RangesFor(Width(d))} : d \in UsedDepths}
\* chains: a deeper normal level, or a memory level on either side
ChainPairs == {<<a, b>> \in UsedDepths \X UsedDepths :
                 \/ a >= 0 /\ b >= 0 /\ a < b
                 \/ a = -3 /\ b > 0
                 \/ a > 0 /\ a < T.depth - 1 /\ b = -3}
PairLocs == UNION {{Obj(<<Lk(LvName(p[1]), r1), Lk(LvName(p[2]), r2)>>) : r1 \in HeadRanges(Width(p[1])), r2 \in FewRanges} : p \in ChainPairs}
Triples == {<<a, b, c>> \in UsedDepths \X UsedDepths \X UsedDepths : a > 0 /\ a < b /\ b < c}
TripleLocs == UNION {{Obj(<<Lk(LvName(p[1]), r1), Lk(LvName(p[2]), r2), Lk(LvName(p[3]), r3)>>) :
                        r1 \in {R1("one", Width(p[1]) - 1), R1("all", 0)}, r2 \in {R1("one", 0), R1("all", 0)}, r3 \in {R1("one", 1), R2("cnt", 1, 2)}} : p \in Triples}
\* unavailable levels, wrong chains
OddLocs == {Obj(<<Lk("l5cache", R1("one", 0))>>), Obj(<<Lk(BS!Dec(T.depth), R1("one", 0))>>),
            Obj(<<Lk("pu", R1("one", 0)), Lk("l5cache", R1("one", 0))>>), Obj(<<Lk("pu", R1("one", 0)), Lk("machine", R1("one", 0))>>),
            Obj(<<Lk("machine", R1("all", 0)), Lk("pu", R1("all", 0)), Lk("pu", R1("one", 0))>>)}
           \cup (IF NGroupLevels > 1 THEN {Obj(<<Lk("group", R1("one", 0))>>)} ELSE {})

PUos == {O(T, LObjs(T, T.depth - 1)[k]).os : k \in 1..Width(T.depth - 1)}
NodeOs == {O(T, LObjs(T, -3)[k]).os : k \in 1..Width(-3)}
Lowest(S, k) == {x \in S : Cardinality({y \in S : y < x}) < k}
RawVals == {VFin(Lowest(PUos, 2)), VFin(PUos \ Lowest(PUos, Cardinality(PUos) \div 2)), VFin({BS!SetMin(PUos), 40}),
            VFin({1}), [fin |-> {}, inf |-> TRUE, n |-> 32], [fin |-> {0}, inf |-> TRUE, n |-> 32], V0}
Raw(f, s) == [k |-> "raw", f |-> f, s |-> s, op |-> ""]
RawLocs == UNION {{Raw(f, BS!Render(f, v)) : v \in {v \in RawVals : f = "list" => ~VEmpty(v)}} : f \in BS!Fmts}      \* no empty word
           \cup {Raw("hwloc", BS!Variant("hwloc", v, sty)) : v \in {VFin(Lowest(PUos, 2)), VFin({BS!SetMin(PUos), 40})}, sty \in {"short", "upper", "lead1"}}
           \cup {Raw("taskset", BS!Variant("taskset", VFin(PUos), "upper")), Raw("list", BS!Variant("list", VFin(Lowest(PUos, 3)), "single")),
                 Raw("list", "1,3"), Raw("list", "2")}
NamedLocs == {[k |-> "pci=", s |-> BusId(O(T, LObjs(T, -5)[j])), op |-> ""] : j \in 1..Width(-5)}
             \cup {[k |-> "os=", s |-> O(T, LObjs(T, -6)[j]).name[1], op |-> ""] : j \in {j \in 1..Width(-6) : O(T, LObjs(T, -6)[j]).name # <<>>}}
             \cup {[k |-> "pci=", s |-> "0000:ff:00.0", op |-> ""], [k |-> "os=", s |-> "nonexistent0", op |-> ""]}
BadStrings == {"foo:1", "core", "core:", "core:x", "core:1.", "core:1.pu", ":1", "pack:0..pu:1", "core:1-2-3", "core[:1", "numa[hbm:0",
               "0xzz", "core:0:", "core:1:2:3", "core:3-1", "core:0:-1", "core:1--3", "pu:2-0", "all:0", "root:1", "pu:all:1", "core:1,2",
               "0xf...g", "pci=zz", "os=", "core:+1", "core: 1", "1,2,,x", "pu:0:-2"}
\* index words longer than any index (and than the 64 characters a cautious parser may allow): they add nothing, whether the
\* tool refuses them or reads them as indexes that do not exist - not with "x", where nothing and no location differ
LongLocs == {[k |-> "bad", s |-> s, op |-> ""] : s \in {"core:" \o BS!Rep("9", 65), "pu:" \o BS!Rep("9", 64), "pu:" \o BS!Rep("9", 80) \o "-"}}
BadLocs == {[k |-> "bad", s |-> s, op |-> ""] : s \in BadStrings}
AllRoot == {[k |-> "all", op |-> ""], [k |-> "root", op |-> ""]}

WithOp(L, ops) == {[l EXCEPT !.op = o] : l \in L, o \in ops}
OptToks == {[k |-> "opt", o |-> o] : o \in {"-p", "--pi", "--li", "-n", "--ni", "-l", "--physical-input", "--nodeset"}}
           \cup {[k |-> "cif", f |-> f] : f \in BS!Fmts}
AllLocs == SingleLocs \cup PairLocs \cup TripleLocs \cup OddLocs \cup RawLocs \cup NamedLocs \cup AllRoot
\* a medium alphabet: a few of each kind, all operators
Mid == LET pu == LvName(T.depth - 1)  d1 == IF T.depth > 2 THEN 1 ELSE 0  top == LvName(d1) IN
  WithOp({Obj(<<Lk(pu, R2("span", 1, 2))>>), Obj(<<Lk(top, R1("one", Width(d1) - 1))>>), Obj(<<Lk(top, R1("one", 0)), Lk(pu, R1("odd", 0))>>),
          Obj(<<Lk("numa", R1("one", 0))>>), Obj(<<Lk("numa", R1("one", Width(-3) - 1))>>), Obj(<<Lk(pu, R2("cnt", Width(T.depth - 1) - 1, 2))>>),
          Obj(<<Lk("core", R1("one", 1))>>),
          Raw("hwloc", BS!Render("hwloc", VFin(Lowest(PUos, 3)))), Raw("list", BS!Render("list", VFin(PUos \ Lowest(PUos, 1)))),
          [k |-> "all", op |-> ""]}, {"", "~", "x", "^"})
  \cup {[k |-> "bad", s |-> "foo:1", op |-> ""], [k |-> "bad", s |-> "core:1-2-3", op |-> "~"]}
\* a small alphabet for the longest sequences
Small == LET pu == LvName(T.depth - 1)  d1 == IF T.depth > 2 THEN 1 ELSE 0  top == LvName(d1) IN
  WithOp({Obj(<<Lk(pu, R2("span", 1, 2))>>), Obj(<<Lk(top, R1("one", Width(d1) - 1))>>), Obj(<<Lk("numa", R1("one", 0))>>),
          Raw("list", BS!Render("list", VFin(PUos \ Lowest(PUos, 1)))), [k |-> "all", op |-> ""]}, {"", "~", "x", "^"})
  \cup {[k |-> "bad", s |-> "foo:1", op |-> ""]}
\* locations with long outputs on a wide topology: every other PU (as many ranges as objects), nearly all PUs, and the same
\* sets given as long set strings in every format
AltPUs == {O(T, LObjs(T, T.depth - 1)[k]).os : k \in {k \in 1..Width(T.depth - 1) : k % 2 = 1}}
WideLocs == LET pu == LvName(T.depth - 1)  w == Width(T.depth - 1) IN
  {Obj(<<Lk(pu, R1("odd", 0))>>), Obj(<<Lk(pu, R1("even", 0))>>), Obj(<<Lk(pu, R1("all", 0))>>), Obj(<<Lk(pu, R2("span", 1, w - 2))>>),
   Obj(<<Lk(pu, R2("cnt", w - 1, w - 1))>>), Obj(<<Lk("numa", R1("all", 0)), Lk(pu, R1("odd", 0))>>),
   Obj(<<Lk("numa", R1("one", Width(-3) - 1)), Lk(pu, R1("from", 1))>>), [k |-> "all", op |-> ""]}
  \cup {Raw(f, BS!Render(f, VFin(AltPUs))) : f \in BS!Fmts}
  \cup {Raw("list", BS!Variant("list", VFin(PUos), "single")), Raw("hwloc", BS!Variant("hwloc", VFin(AltPUs), "upper"))}
Class(c) == CASE c = "A" -> WithOp(AllLocs, {""})
              [] c = "W" -> WithOp(WideLocs, {""}) \cup WithOp({Obj(<<Lk(LvName(T.depth - 1), R1("even", 0))>>), Raw("list", BS!Render("list", VFin(AltPUs)))}, {"~", "^"})
              [] c = "m" -> Small
              [] c = "B" -> WithOp(AllLocs \ AllRoot, {"~", "x", "^"})
              [] c = "all" -> {[k |-> "all", op |-> ""]}
              [] c = "M" -> Mid
              [] c = "O" -> OptToks
              [] c = "X" -> WithOp(BadLocs, {"", "~", "x", "^"})
              [] c = "L" -> WithOp(LongLocs, {"", "~", "^"})
              [] c = "P" -> WithOp({l \in SingleLocs \cup PairLocs : l.chain[Len(l.chain)].r.rk \in {"all", "odd", "even", "from", "span", "one", "cnt"}}, {""})
              [] c = "R" -> WithOp(RawLocs, {"", "^"})
              \* a slice of P for the quick tier: canonical names, five ranges per level, two chains per pair
              [] c = "p" -> WithOp({l \in SingleLocs : /\ \E d \in UsedDepths : l.chain[1].tn = LvName(d)
                                                       /\ l.chain[1].r \in {R1("one", 1), R2("span", 0, 1), R1("all", 0), R1("from", 1), R1("odd", 0)}}
                                   \cup {l \in PairLocs : <<l.chain[1].r, l.chain[2].r>> \in {<<R1("all", 0), R1("all", 0)>>, <<R1("one", 0), R1("from", 1)>>}}, {""})
Classes == {"A", "B", "all", "M", "m", "O", "X", "P", "p", "R", "W", "L"}
Alpha == [c \in Classes |-> SetToSeq(Class(c))]

(* ------------------------------ mode groups ---------------------------- *)
MSet(f, no, single, legacy, pre) == [m |-> "set", f |-> f, no |-> no, single |-> single, legacy |-> legacy, pre |-> pre]
MI(tn, po, oo, sep, single) == [m |-> "I", tn |-> tn, po |-> po, oo |-> oo, sep |-> sep, single |-> single, pre |-> FALSE]
MN(tn, single) == [m |-> "N", tn |-> tn, single |-> single, pre |-> FALSE]
ML(po, sep) == [m |-> "largest", po |-> po, sep |-> sep, pre |-> FALSE]
MH(tns, po, sep) == [m |-> "H", tns |-> tns, po |-> po, sep |-> sep, pre |-> FALSE]
MBad(av) == [m |-> "badopt", av |-> av, pre |-> FALSE]
ITypes == {LvName(d) : d \in UsedDepths} \cup {"node"}
HChains == {<<LvName(p[1]), LvName(p[2])>> : p \in {p \in ChainPairs : p[1] >= 0 /\ p[2] >= 0}}
           \cup {<<LvName(p[1]), LvName(p[2]), LvName(p[3])>> : p \in Triples}
Groups ==
     {<<MSet(f, no, FALSE, FALSE, FALSE)>> : f \in BS!Fmts \cup {""}, no \in BOOLEAN}
\cup {<<MSet("", FALSE, TRUE, FALSE, FALSE)>>, <<MSet("list", FALSE, TRUE, FALSE, FALSE)>>, <<MSet("", FALSE, FALSE, TRUE, FALSE)>>,
      <<MSet("list", TRUE, FALSE, FALSE, TRUE)>>, <<MSet("taskset", FALSE, FALSE, FALSE, TRUE)>>}
\cup {<<MI(tn, po, FALSE, "", FALSE), MN(tn, FALSE)>> : tn \in ITypes, po \in BOOLEAN}
\cup {<<MI(tn, FALSE, TRUE, "+", FALSE), MN(tn, FALSE)>> : tn \in {LvName(T.depth - 1), "numa", LvName(IF T.depth > 2 THEN 1 ELSE 0)}}
\cup {<<MI(LvName(T.depth - 1), po, FALSE, "", TRUE), MN(LvName(T.depth - 1), TRUE)>> : po \in BOOLEAN}
\cup {<<MI("bogus", FALSE, FALSE, "", FALSE)>>, <<MN("l5cache", FALSE)>>, <<MH(<<"bogus", "pu">>, FALSE, "")>>, <<MH(<<"pci">>, FALSE, "")>>}
\cup {<<ML(po, ""), [m |-> "fbL", po |-> po, pre |-> FALSE]>> : po \in BOOLEAN}
\cup {<<ML(FALSE, "_")>>}
\cup {<<MI(c[Len(c)], FALSE, FALSE, "", FALSE), MH(c, FALSE, ""), [m |-> "fbH", tn |-> c[Len(c)], pre |-> FALSE]>> : c \in HChains}
\cup {<<MH(c, TRUE, ";")>> : c \in HChains}
\cup {<<MBad(av)>> : av \in {<<"--bogus">>, <<"-Z">>, <<"--cof", "bogus">>, <<"--cof">>, <<"--cif", "foo">>, <<"--cif">>, <<"-I">>, <<"-N">>, <<"-H">>,
                             <<"--sep">>, <<"--restrict", "0x1">>, <<"--disallowed">>, <<"--cif", "systemd-dbus-api">>, <<"--largest", "--intersect">>,
                             <<"--number-of">>, <<"--hierarchical">>, <<"--cpuset-output-format">>, <<"--nodeset-output-format", "x">>}}
\* standard input: line lengths around the powers of two a line buffer is likely to have, natural length (0) and far beyond
MStdin(f, q, pad) == [m |-> "stdin", f |-> f, q |-> q, pad |-> pad, pre |-> FALSE]
StdinPads == {0, 1000} \cup UNION {{p - 2, p - 1, p, p + 1} : p \in {64, 128, 256}}
StdinGroups == {<<MStdin("", q, pad)>> : q \in BOOLEAN, pad \in StdinPads}
               \cup {<<MStdin("list", TRUE, 0)>>, <<MStdin("taskset", FALSE, 127)>>, <<MStdin("list", FALSE, 63)>>}
GroupSeq == SetToSeq(Groups)
StdinSeq == IF WithStdin THEN SetToSeq(StdinGroups) ELSE <<>>
\* group numbers: 1..Len(GroupSeq) the command-line groups, then the standard-input groups (numbered apart, so that the
\* stripes of the former do not depend on the latter)
NGroups == Len(GroupSeq) + Len(StdinSeq)
GroupAt(g) == IF g <= Len(GroupSeq) THEN GroupSeq[g] ELSE StdinSeq[g - Len(GroupSeq)]

(* --------------------------- other tools ------------------------------- *)
DM(n, single, f, from, to, rev, extra) == [n |-> n, single |-> single, f |-> f, from |-> from, to |-> to, reverse |-> rev, extra |-> extra]
NPU == Width(T.depth - 1)
DTypes == {""} \cup {LvName(d) : d \in {d \in UsedDepths : d >= 0}}
DistribCmds ==
     {DM(n, single, "", "", "", rev, <<>>) : n \in {0, 1, 2, 3, NPU - 1, NPU, NPU + 1, 2 * NPU + 1}, single \in BOOLEAN, rev \in BOOLEAN}
\cup {DM(n, FALSE, f, from, to, FALSE, <<>>) : n \in {1, 3, NPU}, f \in {"list", "taskset"}, from \in DTypes, to \in DTypes}
\cup {DM(2, FALSE, "", "numa", "", FALSE, <<>>), DM(2, FALSE, "", "", "bogus", FALSE, <<>>), DM(2, FALSE, "", "l5cache", "", FALSE, <<>>),
      DM(-1, FALSE, "", "", "", FALSE, <<>>), DM(2, FALSE, "", "", "", FALSE, <<"--bogus">>), DM(2, FALSE, "", "", "", FALSE, <<"3">>),
      DM(2, FALSE, "", "", "", FALSE, <<"--cof", "bogus">>), DM(-1, FALSE, "", "", "", FALSE, <<"--from">>), DM(-1, FALSE, "", "", "", FALSE, <<"--cof">>)}
DistribSeq == SetToSeq({d \in DistribCmds : d.n >= -1})

(* ------------------------------- the machine --------------------------- *)
vars == <<toks, ids, st, phase, grp>>
Init == toks = <<>> /\ ids = <<>> /\ st = St0 /\ phase = "loc" /\ grp = 0

\* class allowed at the next position by some shape extending the classes used so far
Cls == [k \in DOMAIN ids |-> ids[k][1]]
NextClasses == {s[Len(ids) + 1] : s \in {s \in Shapes : Len(s) > Len(ids) /\ SubSeq(s, 1, Len(ids)) = Cls}}
Complete == Cls \in Shapes

Take(c, i, pred(_)) ==
  /\ LET tok == Alpha[c][i] IN
       /\ pred(tok)
       /\ toks' = Append(toks, tok) /\ ids' = Append(ids, <<c, i>>)
       /\ st' = Step(T, st, tok)
  /\ UNCHANGED <<phase, grp>>
IsLoc(tok) == tok.k \notin {"opt", "cif", "bad"}
AddA == phase = "loc" /\ \E c \in NextClasses : \E i \in DOMAIN Alpha[c] : Take(c, i, LAMBDA tok : IsLoc(tok) /\ tok.op = "")
ClrA == phase = "loc" /\ \E c \in NextClasses : \E i \in DOMAIN Alpha[c] : Take(c, i, LAMBDA tok : IsLoc(tok) /\ tok.op = "~")
AndA == phase = "loc" /\ \E c \in NextClasses : \E i \in DOMAIN Alpha[c] : Take(c, i, LAMBDA tok : IsLoc(tok) /\ tok.op = "x")
XorA == phase = "loc" /\ \E c \in NextClasses : \E i \in DOMAIN Alpha[c] : Take(c, i, LAMBDA tok : IsLoc(tok) /\ tok.op = "^")
OptA == phase = "loc" /\ \E c \in NextClasses : \E i \in DOMAIN Alpha[c] : Take(c, i, LAMBDA tok : tok.k \in {"opt", "cif"})
BadA == phase = "loc" /\ \E c \in NextClasses : \E i \in DOMAIN Alpha[c] : Take(c, i, LAMBDA tok : tok.k = "bad")
\* a cheap deterministic stripe number of (token sequence, group): only the striped groups are enumerated
RECURSIVE IdSum(_)
IdSum(s) == IF s = <<>> THEN 7 ELSE (Head(s)[2] * 31 + Len(Head(s)[1]) * 7 + 13 * IdSum(Tail(s))) % 1000003
InStripe(g) == (IdSum(ids) * 17 + g * 101) % NStripes = Stripe
\* Not generated: a long hexadecimal set string read as a list because --cif list is in force.  hwloc-calc(1) makes that a
\* list of numbers, "0x55555555" is index 1431655765, and the correct output is a set string of hundreds of megabytes
\* (minutes of printing): nothing the tool does wrong, and nothing the recorder can hold (its output cap and its watchdog
\* would be taken for a crash).  Short strings (indexes up to a few thousand) are generated.
RECURSIVE GiantScan(_, _)
GiantScan(cif, ts) ==
  IF ts = <<>> THEN FALSE
  ELSE LET tk == Head(ts) IN
       IF tk.k = "cif" THEN GiantScan(tk.f, Tail(ts))
       ELSE (cif = "list" /\ tk.k = "raw" /\ tk.f # "list" /\ Len(tk.s) > 64) \/ GiantScan(cif, Tail(ts))
FinishA == /\ phase = "loc" /\ Complete
           /\ \E g \in 1..NGroups : /\ InStripe(g)
                                    /\ ~GiantScan("", IF g > Len(GroupSeq) THEN StdinOrder(toks) ELSE toks)
                                    /\ grp' = g
           /\ phase' = "done" /\ UNCHANGED <<toks, ids, st>>
DistribA == /\ WithOther /\ phase = "loc" /\ toks = <<>>
            /\ \E g \in DOMAIN DistribSeq : (g * 101) % NStripes = Stripe /\ grp' = g
            /\ phase' = "distrib" /\ UNCHANGED <<toks, ids, st>>
Next == AddA \/ ClrA \/ AndA \/ XorA \/ OptA \/ BadA \/ FinishA \/ DistribA
Spec == Init /\ [][Next]_vars

(* ------------------------------ invariants ----------------------------- *)
ASSUME \A g \in 1..NGroups : \A k \in DOMAIN GroupAt(g) : ModeOK(GroupAt(g)[k])
Live == phase = "loc"          \* the laws are evaluated once per token sequence
TypeOK == Live => /\ \A k \in DOMAIN toks : TokOK(toks[k])
                  /\ st.li \in BOOLEAN /\ st.ni \in BOOLEAN /\ st.n \in 0..Len(toks) /\ st.cif \in BS!Fmts \cup {""}
                  /\ BS!ValOK(st.cs) /\ BS!ValOK(st.ns)
\* the step machine agrees with the fold used by the trace specification
FoldOK == Live => st = Run(T, St0, toks)
\* the node set follows the objects: as long as only whole objects were added, it is the union of their node sets,
\* and the CPU set of a location made of objects is inside the topology
Inside == (Live /\ st.det /\ \A k \in DOMAIN toks : toks[k].k \in {"obj", "all", "root", "opt", "pci=", "os="}) => VSub(st.cs, VR(T.tcs)) /\ VSub(st.ns, VR(T.tns))
\* LargestRel is satisfiable: the greedy cover from the root is accepted
LargestLaw == (Live /\ st.det /\ VSub(st.cs, VR(T.tcs))) => LargestRel(T, st.cs, LargestDo(T, 1, st.cs))
\* the two formulations of LargestRel agree: on the witness, and on answers that break one clause each (an object missing,
\* the root added, an object replaced by its children, the PUs instead of the objects)
LargestProbes == LET w == LargestDo(T, 1, st.cs)
                     x == IF w = {} THEN 1 ELSE CHOOSE p \in w : TRUE
                 IN {w, w \ {x}, w \cup {1}, (w \ {x}) \cup SeqSet(O(T, x).kids),
                     {p \in SeqSet(LObjs(T, T.depth - 1)) : VMeets(OCS(T, p), st.cs)}}
LargestEq == (Live /\ st.det /\ VSub(st.cs, VR(T.tcs))) => \A objs \in LargestProbes : LargestRel(T, st.cs, objs) = LargestRelRef(T, st.cs, objs)
\* every object of a -H chain is one that -I lists
HLaw == Live => \A c \in HChains : HDet(T, c) =>
          LET ds == [k \in DOMAIN c |-> LevelOfName(T, c[k]).d]
              exp == HToks(T, TE.lnames, ds, 1, OCS(T, 1), st.cs, "", TRUE)
          IN {exp[k].p : k \in DOMAIN exp} \subseteq SeqSet(IObjs(T, ds[Len(ds)], st.cs, st.ns, FALSE))
\* inputs of the recorded finding "open-ended physical ranges walk index values": physical input, an open-ended
\* range, on a level whose OS indexes are not 0..w-1
RECURSIVE F3Scan(_, _)
F3Scan(li, ts) ==
  IF ts = <<>> THEN FALSE
  ELSE LET tk == Head(ts) IN
       IF tk.k = "opt" THEN F3Scan(StepOpt([li |-> li, lo |-> TRUE, ni |-> FALSE, no |-> FALSE], tk.o).li, Tail(ts))
       ELSE \/ /\ ~li /\ tk.k = "obj"
               /\ \E k \in DOMAIN tk.chain : /\ tk.chain[k].r.rk \in {"all", "odd", "even", "from"}
                                             /\ LevelOfName(T, tk.chain[k].tn).ok
                                             /\ LET d == LevelOfName(T, tk.chain[k].tn).d
                                                    os == {O(T, LObjs(T, d)[j]).os : j \in 1..Width(d)}
                                                IN d \notin IODepths /\ (k >= 2 \/ os # 0..(Width(d) - 1))   \* inside a parent the indexes rarely start at 0
            \/ F3Scan(li, Tail(ts))
F3Prone == F3Scan(TRUE, toks)

(* ------------------------------- emission ------------------------------ *)
Invs(g) == [k \in DOMAIN GroupAt(g) |->
              [mode |-> GroupAt(g)[k],
               argv |-> IF GroupAt(g)[k].m \in {"fbL", "fbH"} THEN <<>> ELSE CmdArgv(toks, GroupAt(g)[k], <<>>),
               stdin |-> IF GroupAt(g)[k].m = "stdin" THEN StdinText(toks, GroupAt(g)[k]) ELSE ""]]
EmitEdge ==
  /\ (phase' = "done") =>
        PrintT(<<"CALC", ToJson([toks |-> toks, cls |-> IF F3Prone THEN "f3" ELSE "", invs |-> Invs(grp')])>>)
  /\ (phase' = "distrib") =>
        PrintT(<<"DISTRIB", ToJson([dm |-> DistribSeq[grp'], argv |-> DistribArgv(DistribSeq[grp'])])>>)
=============================================================================
