------------------------------- MODULE Diff -------------------------------
(***************************************************************************)
(* C16 - topology diffs.  Abstract semantics of hwloc/diff.c on what a     *)
(* diff can see of a topology.                                             *)
(*                                                                         *)
(* A projection P of a topology is a record                                *)
(*   [depth, tshape, tinfos, objs]                                         *)
(* objs: the objects in the order of the simultaneous depth-first walk of  *)
(* diff_build (object, normal, memory, I/O, Misc children), each           *)
(*   [d, i, gp, par, numa, name, infos, mem, tot, shape]                   *)
(*   d,i   depth / logical index: the address used by diff entries         *)
(*   par   position of the parent in objs (0 for the root)                 *)
(*   name  <<>> (unset) or <<string>>                                      *)
(*   infos sequence of <<name, value>>                                     *)
(*   mem, tot  local / total memory as <<q, r>>: value = q * unit + r      *)
(*   shape opaque token: everything a diff cannot express (type, subtype,  *)
(*         os_index, the four sets, arities, cache/group attributes)       *)
(* tshape: opaque token for topology-wide state (allowed sets, ...);       *)
(* tinfos: topology info pairs; depth: the topology depth, which is the    *)
(* obj_depth diff entries use to address the topology infos.               *)
(*                                                                         *)
(* A diff entry is [t, d, i, n, so, sn, uo, un], t in name / info / size / *)
(* complex / badtype / badattr; n, so, sn optional strings (<<>> = NULL),  *)
(* uo, un sizes.  The same operators are used by the bounded model         *)
(* (MC_Diff) and by the validation of traces of the real library           *)
(* (TraceDiff).                                                            *)
(***************************************************************************)
EXTENDS Integers, Sequences, FiniteSets, TLC

NObj(P) == Len(P.objs)
Find(P, d, i) == {k \in 1..NObj(P) : P.objs[k].d = d /\ P.objs[k].i = i}

\* well-formed projection: parents come first (so Anc terminates), addresses are unique
WF(P) == /\ \A k \in 1..NObj(P) : P.objs[k].par < k /\ P.objs[k].par >= 0 /\ (P.objs[k].par = 0) = (k = 1)
         /\ \A k, j \in 1..NObj(P) : (P.objs[k].d = P.objs[j].d /\ P.objs[k].i = P.objs[j].i) => k = j
         /\ \A k \in 1..NObj(P) : P.objs[k].d # P.depth

RECURSIVE Anc(_, _)
Anc(P, k) == IF k = 0 THEN {} ELSE {k} \cup Anc(P, P.objs[k].par)

AddDelta(x, old, new) == <<x[1] + new[1] - old[1], x[2] + new[2] - old[2]>>

---------------------------------------------------------------------------
(* Applying one entry: the set of possible results (empty = the entry     *)
(* cannot be applied).  An info entry changes one pair <<name, old>>;     *)
(* which one, when several identical pairs exist, is not documented, so   *)
(* every choice is a possible result (first = TRUE: only the first, the   *)
(* choice made by the constructive model).                                 *)
(***************************************************************************)
EOld(e, rev)  == IF rev THEN e.sn ELSE e.so
ENew(e, rev)  == IF rev THEN e.so ELSE e.sn
EUOld(e, rev) == IF rev THEN e.un ELSE e.uo
EUNew(e, rev) == IF rev THEN e.uo ELSE e.un

SetMem(P, k, old, new) ==
  [P EXCEPT !.objs = [j \in 1..NObj(P) |->
      IF j = k THEN [P.objs[j] EXCEPT !.mem = new, !.tot = AddDelta(@, old, new)]
      ELSE IF j \in Anc(P, k) THEN [P.objs[j] EXCEPT !.tot = AddDelta(@, old, new)]
      ELSE P.objs[j]]]

ApplySize(P, e, rev) ==
  LET old == EUOld(e, rev)  new == EUNew(e, rev) IN
  {SetMem(P, k, old, new) : k \in {k \in Find(P, e.d, e.i) : P.objs[k].numa = 1 /\ P.objs[k].mem = old}}

ApplyName(P, e, rev) ==
  LET old == EOld(e, rev)  new == ENew(e, rev) IN
  IF old = <<>> \/ new = <<>> THEN {}
  ELSE {[P EXCEPT !.objs[k].name = new] : k \in {k \in Find(P, e.d, e.i) : P.objs[k].name = old}}

MatchPos(infos, n, old, first) ==
  LET all == {j \in 1..Len(infos) : infos[j] = <<n, old>>} IN
  IF first THEN {j \in all : \A j2 \in all : j <= j2} ELSE all
ChangeInfo(infos, n, old, new, first) == {[infos EXCEPT ![j] = <<n, new>>] : j \in MatchPos(infos, n, old, first)}

ApplyInfo(P, e, rev, first) ==
  LET old == EOld(e, rev)  new == ENew(e, rev)  ks == Find(P, e.d, e.i) IN
  IF e.n = <<>> \/ old = <<>> \/ new = <<>> THEN {}
  ELSE IF ks # {} THEN UNION {{[P EXCEPT !.objs[k].infos = x] : x \in ChangeInfo(P.objs[k].infos, e.n[1], old[1], new[1], first)} : k \in ks}
  ELSE IF e.d = P.depth THEN {[P EXCEPT !.tinfos = x] : x \in ChangeInfo(P.tinfos, e.n[1], old[1], new[1], first)}
  ELSE {}

ApplyOneG(P, e, rev, first) ==
  CASE e.t = "size" -> ApplySize(P, e, rev)
    [] e.t = "name" -> ApplyName(P, e, rev)
    [] e.t = "info" -> ApplyInfo(P, e, rev, first)
    [] OTHER -> {}              \* TOO_COMPLEX and unknown entry types can never be applied

RECURSIVE ApplyFrom(_, _, _, _, _)
ApplyFrom(S, E, k, rev, first) ==
  IF k > Len(E) THEN [fail |-> 0, S |-> S]
  ELSE LET S2 == UNION {ApplyOneG(p, E[k], rev, first) : p \in S} IN
       IF S2 = {} THEN [fail |-> k, S |-> {}] ELSE ApplyFrom(S2, E, k + 1, rev, first)

\* all entries in list order; APPLY_REVERSE swaps old and new
Outcome(P, E, rev) == ApplyFrom({P}, E, 1, rev, FALSE)

KnownApplyFlags == {0, 1}
\* the relation of hwloc_topology_diff_apply: ret and the projection P2 after the call
ApplyRetOK(P, E, flags, ret) ==
  IF flags \notin KnownApplyFlags THEN ret = -1
  ELSE LET o == Outcome(P, E, flags = 1) IN IF o.fail = 0 THEN ret = 0 ELSE ret = -o.fail
ApplyStateOK(P, E, flags, P2) ==
  IF flags \notin KnownApplyFlags THEN P2 = P
  ELSE LET o == Outcome(P, E, flags = 1) IN
       IF o.fail = 0 THEN P2 \in o.S
       ELSE P2 = P                   \* failure of the N-th entry: exactly as before the call
ApplyRel(P, E, flags, ret, P2) == ApplyRetOK(P, E, flags, ret) /\ ApplyStateOK(P, E, flags, P2)

---------------------------------------------------------------------------
(* What diff_build may answer for a pair of topologies.                    *)
(***************************************************************************)
InfoNames(infos) == [j \in 1..Len(infos) |-> infos[j][1]]

ObjNonRepr(a, b) == \/ a.shape # b.shape \/ a.d # b.d \/ a.i # b.i \/ a.par # b.par \/ a.numa # b.numa
                    \/ (a.name = <<>>) # (b.name = <<>>)                 \* name set on one side only
                    \/ InfoNames(a.infos) # InfoNames(b.infos)           \* info added / removed / renamed
NonRepr(PA, PB) == \/ PA.tshape # PB.tshape \/ PA.depth # PB.depth \/ NObj(PA) # NObj(PB)
                   \/ InfoNames(PA.tinfos) # InfoNames(PB.tinfos)
                   \/ \E k \in 1..NObj(PA) : ObjNonRepr(PA.objs[k], PB.objs[k])

ObjSame(a, b) == a.name = b.name /\ a.infos = b.infos /\ a.mem = b.mem
Same(PA, PB) == ~NonRepr(PA, PB) /\ PA.tinfos = PB.tinfos /\ \A k \in 1..NObj(PA) : ObjSame(PA.objs[k], PB.objs[k])

\* a changed info value whose name occurs more than once among the infos of its object: an entry
\* (name, old, new) does not say which pair is meant, so TOO_COMPLEX is an acceptable answer too
AmbigInfos(ia, ib) == \E j, j2 \in 1..Len(ia) : j # j2 /\ ia[j] # ib[j] /\ ia[j][1] = ia[j2][1]
Ambig(PA, PB) == ~NonRepr(PA, PB) /\ (AmbigInfos(PA.tinfos, PB.tinfos) \/ \E k \in 1..NObj(PA) : AmbigInfos(PA.objs[k].infos, PB.objs[k].infos))

HasComplex(E) == \E k \in 1..Len(E) : E[k].t = "complex"

BuildRel(PA, PB, ret, E) ==
  IF NonRepr(PA, PB) THEN ret = 1 /\ HasComplex(E)
  ELSE IF Same(PA, PB) THEN ret = 0 /\ E = <<>>
  ELSE \/ ret = 0 /\ E # <<>> /\ \A k \in 1..Len(E) : E[k].t \in {"name", "info", "size"}
       \/ Ambig(PA, PB) /\ ret = 1 /\ HasComplex(E)

\* indistinguishable for diff_build and for every attribute a diff may carry (incl. the derived total memory)
VisEq(P, Q) == Same(P, Q) /\ \A k \in 1..NObj(P) : P.objs[k].tot = Q.objs[k].tot

---------------------------------------------------------------------------
(* XML export + load of a list.                                            *)
(***************************************************************************)
\* what an entry means, without the fields documented as ignored
Norm(e) == CASE e.t = "size" -> [t |-> e.t, d |-> e.d, i |-> e.i, n |-> <<>>, so |-> <<>>, sn |-> <<>>, uo |-> e.uo, un |-> e.un]
             [] e.t = "name" -> [t |-> e.t, d |-> e.d, i |-> e.i, n |-> <<>>, so |-> e.so, sn |-> e.sn, uo |-> <<0, 0>>, un |-> <<0, 0>>]
             [] e.t = "info" -> [t |-> e.t, d |-> e.d, i |-> e.i, n |-> e.n, so |-> e.so, sn |-> e.sn, uo |-> <<0, 0>>, un |-> <<0, 0>>]
             [] OTHER -> [t |-> e.t, d |-> e.d, i |-> e.i, n |-> <<>>, so |-> <<>>, sn |-> <<>>, uo |-> <<0, 0>>, un |-> <<0, 0>>]
SameEntries(E1, E2) == Len(E1) = Len(E2) /\ \A k \in 1..Len(E1) : Norm(E1[k]) = Norm(E2[k])
Exportable(E) == \A k \in 1..Len(E) : E[k].t \in {"name", "info", "size"}
XmlRel(E, ref, eret, lret, E2, ref2) ==
  IF HasComplex(E) THEN eret = -1
  ELSE Exportable(E) => (eret = 0 /\ lret = 0 /\ SameEntries(E, E2) /\ ref2 = ref)

---------------------------------------------------------------------------
(* Edits made by the test driver (fields written directly, as the hwloc    *)
(* test-suite does, or through hwloc_obj_add_info).                        *)
(***************************************************************************)
EditName(P, k, nm) == [P EXCEPT !.objs[k].name = nm]
EditMem(P, k, m) == SetMem(P, k, P.objs[k].mem, m)
NthNamed(infos, n, occ) == {j \in 1..Len(infos) : infos[j][1] = n /\ Cardinality({j2 \in 1..j : infos[j2][1] = n}) = occ}
EditInfosSet(infos, n, occ, v) == [j \in 1..Len(infos) |-> IF j \in NthNamed(infos, n, occ) THEN <<n, v>> ELSE infos[j]]
\* k = 0: the topology infos
InfosAt(P, k) == IF k = 0 THEN P.tinfos ELSE P.objs[k].infos
WithInfos(P, k, x) == IF k = 0 THEN [P EXCEPT !.tinfos = x] ELSE [P EXCEPT !.objs[k].infos = x]
EditSetInfo(P, k, n, occ, v) == WithInfos(P, k, EditInfosSet(InfosAt(P, k), n, occ, v))
EditAddInfo(P, k, n, v) == WithInfos(P, k, Append(InfosAt(P, k), <<n, v>>))
EditRmInfo(P, k, n) == WithInfos(P, k, SelectSeq(InfosAt(P, k), LAMBDA x : x[1] # n))

---------------------------------------------------------------------------
(* Constructive reference used by the bounded model (MC_Diff) to steer     *)
(* generation; it follows the structure of hwloc/diff.c: one pass over the *)
(* object pairs in traversal order (name, memory size, infos), then the    *)
(* topology infos; entries are applied one by one and the first matching   *)
(* info pair is the one modified.  It is never compared with the real      *)
(* library: only the relations above judge recorded traces.                *)
(***************************************************************************)
Z2 == <<0, 0>>
NameE(d, i, old, new)    == [t |-> "name", d |-> d, i |-> i, n |-> <<>>, so |-> old, sn |-> new, uo |-> Z2, un |-> Z2]
SizeE(d, i, old, new)    == [t |-> "size", d |-> d, i |-> i, n |-> <<>>, so |-> <<>>, sn |-> <<>>, uo |-> old, un |-> new]
InfoE(d, i, n, old, new) == [t |-> "info", d |-> d, i |-> i, n |-> <<n>>, so |-> <<old>>, sn |-> <<new>>, uo |-> Z2, un |-> Z2]
OtherE(t, d, i)          == [t |-> t, d |-> d, i |-> i, n |-> <<>>, so |-> <<>>, sn |-> <<>>, uo |-> Z2, un |-> Z2]

RECURSIVE InfoEntries(_, _, _, _, _)
InfoEntries(d, i, ia, ib, j) ==
  IF j > Len(ia) THEN <<>>
  ELSE (IF ia[j] # ib[j] THEN <<InfoE(d, i, ia[j][1], ia[j][2], ib[j][2])>> ELSE <<>>) \o InfoEntries(d, i, ia, ib, j + 1)
ObjEntries(a, b) ==
  (IF a.name # b.name THEN <<NameE(a.d, a.i, a.name, b.name)>> ELSE <<>>)
  \o (IF a.numa = 1 /\ a.mem # b.mem THEN <<SizeE(a.d, a.i, a.mem, b.mem)>> ELSE <<>>)
  \o InfoEntries(a.d, a.i, a.infos, b.infos, 1)
RECURSIVE AllEntries(_, _, _)
AllEntries(PA, PB, k) ==
  IF k > NObj(PA) THEN InfoEntries(PA.depth, 0, PA.tinfos, PB.tinfos, 1)
  ELSE ObjEntries(PA.objs[k], PB.objs[k]) \o AllEntries(PA, PB, k + 1)
ModelBuild(PA, PB) ==
  IF NonRepr(PA, PB) \/ Ambig(PA, PB) THEN [ret |-> 1, E |-> <<OtherE("complex", 0, 0)>>]
  ELSE [ret |-> 0, E |-> AllEntries(PA, PB, 1)]

ModelApply(P, E, flags) ==
  IF flags \notin KnownApplyFlags THEN [ret |-> -1, P |-> P]
  ELSE LET o == ApplyFrom({P}, E, 1, flags = 1, TRUE) IN
       IF o.fail = 0 THEN [ret |-> 0, P |-> CHOOSE p \in o.S : TRUE]
       ELSE [ret |-> -o.fail, P |-> P]         \* all-or-nothing
=============================================================================
