---------------------------- MODULE MC_BitmapStr ----------------------------
(***************************************************************************)
(* Model of the string conversion API over a structured family of bitmap   *)
(* values: every union of the blocks of a block map (Lo, Hi), with or      *)
(* without the infinite tail - or, in Mode "ladder", the ladders of the    *)
(* three formats: one value per (text length 0..TextMax, shape), printed   *)
(* in the format whose ladder it belongs to, with the buffer lengths       *)
(* around the text length.  One action per public entry point.  The        *)
(* property is checked on the model (invariants) and every distinct state  *)
(* is emitted as a history for replay on the real library.                 *)
(***************************************************************************)
EXTENDS BitmapStr, Json, TLC, Randomization

CONSTANTS Lo, Hi,      \* block map (sequences): block p = Lo[p]..Hi[p]; the tail starts at Hi[NB]+1
          Steer,       \* set of <<pad, via>>: how the recorder builds the bitmap (representation steering, never judged)
          MaxLen,      \* bound on the history length
          Chain,       \* FALSE: set -> asprintf/sscanf -> one call (exhaustive);  TRUE: free interleaving (simulation)
          Mode,        \* "full": every call; "light": set -> asprintf -> reparse only (large families);
                       \* "ladder": the family is the text-length ladder of each format (block map unused)
          TextMax,     \* ladder only: every text length 0..TextMax the format can produce is covered
          SimPick      \* simulation only: how many values of the family are offered to Set at each step
VARIABLES reg, txt, lad, steer, known, out, hist    \* txt: the canonical texts of reg (derived, memoised) in the formats lad

NB == Len(Lo)
Blocks == 1..NB
TailLo == Hi[NB] + 1
Width == Max2(32, RoundUp32(TailLo))
ASSUME /\ Len(Hi) = NB /\ NB >= 1 /\ Lo[1] = 0
       /\ \A p \in Blocks : Lo[p] <= Hi[p]
       /\ \A p \in 1..(NB - 1) : Lo[p + 1] = Hi[p] + 1

ValOf(S, inf) == [fin |-> UNION {Lo[p]..Hi[p] : p \in S} \cup (IF inf THEN TailLo..(Width - 1) ELSE {}),
                  inf |-> inf, n |-> Width]
\* <<format, text length, value>>, in ladder mode only.  TLC evaluates a constant definition once, but once more for
\* every other constant definition that mentions it: LadderSet is the only constant, the rest is evaluated in the states.
LadderSet == IF Mode = "ladder" THEN UNION {{<<f, p[1], p[3]>> : p \in Ladder(f, TextMax)} : f \in Fmts} ELSE {}
LadderFmts(v) == {q[1] : q \in {q \in LadderSet : q[3] = v}}
Family == {ValOf(S, inf) : S \in SUBSET Blocks, inf \in BOOLEAN}

\* (ladder: a value is printed in the formats whose ladder it belongs to only, the other texts are not needed)
Texts(v, F) == [f \in Fmts |-> IF f \in F THEN Render(f, v) ELSE ""]

Init == /\ reg = Empty /\ txt = Texts(Empty, Fmts) /\ lad = Fmts /\ steer = <<0, 0>> /\ known = {} /\ out = [op |-> "init"] /\ hist = <<>>

More == Len(hist) < MaxLen

\* build a bitmap holding v (hwloc_bitmap_set_range and friends)
Set(v, st) ==
  /\ More /\ (Chain \/ hist = <<>>)
  /\ reg' = v /\ steer' = st /\ known' = {}
  /\ LET F == IF Mode = "ladder" THEN LadderFmts(v) ELSE Fmts IN lad' = F /\ txt' = Texts(v, F)
  /\ out' = [op |-> "set"]
  /\ hist' = Append(hist, [op |-> "set", pad |-> st[1], via |-> st[2], r |-> Ranges(v)])

\* hwloc_bitmap_[list_|taskset_]asprintf
Asprintf(f) ==
  /\ More /\ hist # <<>> /\ (Chain \/ Len(hist) = 1)
  /\ f \in lad
  /\ LET full == txt[f] IN out' = [op |-> "asprintf", fmt |-> f, ret |-> Len(full), text |-> full]
  /\ known' = known \cup {f}
  /\ hist' = Append(hist, [op |-> "asprintf", fmt |-> f])
  /\ UNCHANGED <<reg, txt, lad, steer>>

\* hwloc_bitmap_[list_|taskset_]snprintf(buf, buflen) for every length up to one more than needed, and a generous one
Snprintf(f, buflen) ==
  /\ More /\ f \in known /\ Mode \in {"full", "ladder"}
  /\ LET r == SnprintfDo(txt[f], buflen) IN
       out' = [op |-> "snprintf", fmt |-> f, buflen |-> buflen, ret |-> r.ret, nul |-> r.nul, buf |-> r.buf]
  /\ hist' = Append(hist, [op |-> "snprintf", fmt |-> f, len |-> buflen])
  /\ UNCHANGED <<reg, txt, lad, steer, known>>

\* ...snprintf(NULL, 0)
SnprintfNull(f) ==
  /\ More /\ f \in known /\ Mode \in {"full", "ladder"}
  /\ LET r == SnprintfDo(txt[f], 0) IN
       out' = [op |-> "snprintf0", fmt |-> f, buflen |-> 0, ret |-> r.ret, nul |-> r.nul, buf |-> r.buf]
  /\ hist' = Append(hist, [op |-> "snprintf0", fmt |-> f])
  /\ UNCHANGED <<reg, txt, lad, steer, known>>

SscanfDo(f, str) == LET p == Parse(f, str, FALSE) IN IF p.ok THEN [ret |-> 0, v |-> p.v] ELSE [ret |-> -1, v |-> Empty]
\* the register keeps its width when the parsed set is the same set (state identity only)
Keep(v) == IF SameSet(v, reg) THEN reg ELSE v

\* hwloc_bitmap_[list_|taskset_]sscanf of the text the library printed last
Reparse(f) ==
  /\ More /\ f \in known
  /\ LET str == txt[f]  r == SscanfDo(f, str) IN
       /\ out' = [op |-> "sscanf", fmt |-> f, str |-> str, ret |-> r.ret, v |-> r.v, was |-> reg]
       /\ reg' = Keep(r.v)
       /\ txt' = IF Keep(r.v) = reg THEN txt ELSE Texts(r.v, lad)
  /\ known' = {}
  /\ hist' = Append(hist, [op |-> "reparse", fmt |-> f])
  /\ UNCHANGED <<lad, steer>>

\* ...sscanf of another string of the documented grammar that denotes the same set
\* ("canon" is the canonical text, printed by this specification rather than by the library)
SscanfVariant(f, style) ==
  /\ More /\ hist # <<>> /\ (Chain \/ Len(hist) = 1) /\ Mode = "full"
  /\ LET str == IF style = "canon" THEN txt[f] ELSE Variant(f, reg, style)
         r == SscanfDo(f, str) IN
       /\ out' = [op |-> "sscanf", fmt |-> f, str |-> str, ret |-> r.ret, v |-> r.v, was |-> reg]
       /\ reg' = Keep(r.v)
       /\ txt' = IF Keep(r.v) = reg THEN txt ELSE Texts(r.v, lad)
       /\ hist' = Append(hist, [op |-> "sscanf", fmt |-> f, style |-> style, str |-> str])
  /\ known' = {}
  /\ UNCHANGED <<lad, steer>>

AllStyles(f) == Styles(f) \cup {"canon"}
\* ladder: the buffer lengths around the text length (one short, exact, one spare) and the smallest ones
Lens(f) == IF Mode = "ladder" THEN {k \in {0, 1, 2, Len(txt[f]) - 1, Len(txt[f]), Len(txt[f]) + 1, Len(txt[f]) + 2} : k >= 0}
           ELSE (0..(Len(txt[f]) + 1)) \cup {Len(txt[f]) + 33}

\* Guards are repeated outside the quantifiers so that TLC does not enumerate the family in states where nothing
\* is enabled.  In simulation TLC generates every successor and evaluates the invariants on all of them before it
\* picks one, so (a) each step offers a random sample only (one value and one steering for Set, two lengths for
\* Snprintf, one style for SscanfVariant), which also balances the kinds of calls in a history, and (b) a finished
\* history is printed when TLC expands the state it actually reached (last disjunct), not from an invariant.
Pick(k, S) == IF Chain THEN RandomSubset(k, S) ELSE S
Next == \/ /\ More
           /\ \/ (Chain \/ hist = <<>>) /\ \E v \in Pick(SimPick, IF Mode = "ladder" THEN {q[3] : q \in LadderSet} ELSE Family), st \in Pick(1, Steer) : Set(v, st)
              \/ hist # <<>> /\ \E f \in Fmts :
                    \/ Asprintf(f)
                    \/ f \in known /\ Mode \in {"full", "ladder"} /\ \E k \in Pick(2, Lens(f)) : Snprintf(f, k)
                    \/ SnprintfNull(f)
                    \/ Reparse(f)
                    \/ (Chain \/ Len(hist) = 1) /\ Mode = "full" /\ \E style \in Pick(1, AllStyles(f)) : SscanfVariant(f, style)
        \/ Chain /\ ~More /\ PrintT(<<"SIM", ToJson(hist)>>) /\ FALSE /\ UNCHANGED <<reg, txt, lad, steer, known, out, hist>>

Spec == Init /\ [][Next]_<<reg, txt, lad, steer, known, out, hist>>

View == <<reg, steer, known, out>>

(* ---- the property on the model ---- *)
\* the ladder is complete (every length the format allows, up to TextMax), and the text of each of its values has the
\* length it was selected for, is in the output language and parses back
LadderCovers == hist = <<>> /\ Mode = "ladder" =>
  \A f \in Fmts : \A L \in LadderNeeds(f, TextMax) : \E q \in LadderSet : q[1] = f /\ q[2] = L
LadderLaw == \A q \in {q \in LadderSet : q[3] = reg} :
  LET f == q[1]  p == Parse(f, txt[f], FALSE) IN
  /\ Len(txt[f]) = q[2]
  /\ OutOK(f, txt[f], reg)
  /\ p.ok /\ SameSet(p.v, reg)
TypeOK == ValOK(reg) /\ LadderCovers /\ (out.op = "set" => txt = Texts(reg, lad)) /\ lad \subseteq Fmts /\ known \subseteq Fmts /\ steer \in Steer \cup {<<0, 0>>}
Laws == out.op = "set" => IF Mode = "ladder" THEN LadderLaw ELSE RoundTripLaw(reg) /\ (Mode = "full" => VariantLaw(reg))
CallOK ==
  /\ out.op = "asprintf" => out.ret = Len(out.text) /\ OutOK(out.fmt, out.text, reg)
  /\ out.op \in {"snprintf", "snprintf0"} =>
        SnprintfRel(txt[out.fmt], out.buflen, out.ret, out.nul, out.buf, TRUE)
  /\ out.op = "sscanf" => /\ SscanfRel(out.fmt, out.str, out.ret, out.v)
                          /\ out.ret = 0 /\ SameSet(out.v, out.was) /\ SameSet(reg, out.was)

EmitState == PrintT(<<"STATE", ToJson(hist)>>)
=============================================================================
