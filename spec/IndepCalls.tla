----------------------------- MODULE IndepCalls -----------------------------
(***************************************************************************)
(* The alphabet of calls of one independent thread of property C17 and its *)
(* thread-local abstract state.  A thread owns up to |Slots| topologies,   *)
(* one diff list, one exported diff buffer, one exported diff file and one *)
(* shared-memory image (file + address range); it never touches anything   *)
(* of another thread.  The only state the threads share is inside the      *)
(* library: the components registry (Registry.tla).                        *)
(*                                                                         *)
(* An operation is <<name, a, b>>; name is in AllOps of Registry.tla:      *)
(*  init s 0        hwloc_topology_init                                    *)
(*  destroy s 0     hwloc_topology_destroy (plain, duplicated or adopted)  *)
(*  load s v        set_synthetic(variant v) + load                        *)
(*  modify s k      k=1 replace an info value, 2 restrict + refresh,       *)
(*                  3 add distances / memattr values / a cpukind + refresh *)
(*  digest s 0      the whole consulting battery (incl. XML export)        *)
(*  dup s d         hwloc_topology_dup; of a topology that is not loaded   *)
(*                  it fails with EINVAL                                   *)
(*  shmlen s 0      hwloc_shmem_topology_get_length (fails when not loaded)*)
(*  shmwrite s b    hwloc_shmem_topology_write; b=0: refused flags         *)
(*  adopt d b       hwloc_shmem_topology_adopt; fails when nothing was     *)
(*                  written, when the range is in use, b=0: wrong address  *)
(*  diffbuild a b   hwloc_topology_diff_build(slot a, slot b)              *)
(*  diffdestroy 0 0                                                        *)
(*  diffexp_buf s 0   hwloc_topology_diff_export_xmlbuffer (slot s is the  *)
(*                  topology given to hwloc_free_xmlbuffer); fails with    *)
(*                  EINVAL on a too-complex diff                           *)
(*  diffexp_file a 0  hwloc_topology_diff_export_xml; a=0: refused path    *)
(*  diffload_buf a 0  hwloc_topology_diff_load_xmlbuffer; a=1 the exported *)
(*                  buffer, 2 its first half, 0 unparsable text            *)
(*  diffload_file a 0 hwloc_topology_diff_load_xml; a=1 the exported file, *)
(*                  0 an unparsable file, 2 a missing file                 *)
(* The model of what each call does to the thread's state only steers the  *)
(* generation (which calls make sense next, which outcome class they       *)
(* exercise); the results are never judged against it: the relations are   *)
(* in TraceConcurrency.tla (results equal to the single-threaded run of    *)
(* the same history, balance law of the registry).                         *)
(***************************************************************************)
EXTENDS Registry, FiniteSets, TLC

CONSTANTS Slots, Variants

FreeS == [k |-> "free", v |-> 0, m |-> 0]
InitS == [k |-> "init", v |-> 0, m |-> 0]
Val(k, v, m) == [k |-> k, v |-> v, m |-> m]

TState0 == [slot |-> [s \in Slots |-> FreeS],
            diff |-> "null",            \* "null" | "simple" | "complex"
            xbuf |-> "none",            \* "none" | kind of the diff last exported to the buffer
            xfile |-> "none",           \* idem, file
            shm |-> "none",             \* "none" | "written" (image in the file, range free) | "mapped" (an adopted topology lives there)
            img |-> FreeS]              \* what the image holds

Usable(x) == x.k \in {"loaded", "adopted"}
DiffKind(x, y) == IF x.v # y.v THEN "complex"
                  ELSE IF x.m = y.m THEN "null"
                  ELSE IF {x.m, y.m} = {0, 1} THEN "simple" ELSE "complex"

Enabled(st) ==
  LET sl == st.slot IN
     {<<"init", s, 0>> : s \in {s \in Slots : sl[s].k = "free"}}
  \cup {<<"destroy", s, 0>> : s \in {s \in Slots : sl[s].k # "free"}}
  \cup {<<"load", s, v>> : s \in {s \in Slots : sl[s].k = "init"}, v \in Variants}
  \cup {<<"modify", s, k>> : s \in {s \in Slots : sl[s].k = "loaded"}, k \in 1..3}
  \cup {<<"digest", s, 0>> : s \in {s \in Slots : Usable(sl[s])}}
  \cup {<<"dup", s, d>> : s \in {s \in Slots : sl[s].k # "free"}, d \in {d \in Slots : sl[d].k = "free"}}
  \cup {<<"shmlen", s, 0>> : s \in {s \in Slots : sl[s].k # "free"}}
  \cup {<<"shmwrite", s, 1>> : s \in {s \in Slots : sl[s].k = "loaded" /\ st.shm # "mapped"}}
  \cup {<<"shmwrite", s, 0>> : s \in {s \in Slots : sl[s].k = "loaded"}}
  \cup {<<"adopt", d, b>> : d \in {d \in Slots : sl[d].k = "free"}, b \in {0, 1}}
  \cup {<<"diffbuild", a, b>> : a \in {a \in Slots : Usable(sl[a])}, b \in {b \in Slots : Usable(sl[b])}}
  \cup (IF st.diff # "null" THEN {<<"diffdestroy", 0, 0>>} ELSE {})
  \cup {<<"diffexp_buf", s, 0>> : s \in {s \in Slots : sl[s].k # "free"}}
  \cup {<<"diffexp_file", a, 0>> : a \in {0, 1}}
  \cup {<<"diffload_buf", a, 0>> : a \in (IF st.xbuf # "none" THEN {0, 1, 2} ELSE {0})}
  \cup {<<"diffload_file", a, 0>> : a \in (IF st.xfile # "none" THEN {0, 1, 2} ELSE {0, 2})}

Effect(st, op) ==
  LET n == op[1]  a == op[2]  b == op[3]  sl == st.slot IN
  CASE n = "init"     -> [st EXCEPT !.slot[a] = InitS]
    [] n = "destroy"  -> [st EXCEPT !.slot[a] = FreeS, !.shm = IF sl[a].k = "adopted" THEN "written" ELSE @]
    [] n = "load"     -> [st EXCEPT !.slot[a] = Val("loaded", b, 0)]
    [] n = "modify"   -> [st EXCEPT !.slot[a].m = b]
    [] n = "dup"      -> IF Usable(sl[a]) THEN [st EXCEPT !.slot[b] = Val("loaded", sl[a].v, sl[a].m)] ELSE st
    [] n = "shmwrite" -> IF b = 1 THEN [st EXCEPT !.shm = "written", !.img = sl[a]] ELSE st
    [] n = "adopt"    -> IF b = 1 /\ st.shm = "written" THEN [st EXCEPT !.slot[a] = Val("adopted", st.img.v, st.img.m), !.shm = "mapped"] ELSE st
    [] n = "diffbuild"   -> [st EXCEPT !.diff = DiffKind(sl[a], sl[b])]
    [] n = "diffdestroy" -> [st EXCEPT !.diff = "null"]
    [] n = "diffexp_buf"  -> IF st.diff # "complex" THEN [st EXCEPT !.xbuf = st.diff] ELSE st
    [] n = "diffexp_file" -> IF st.diff # "complex" /\ a = 1 THEN [st EXCEPT !.xfile = st.diff] ELSE st
    [] n = "diffload_buf"  -> [st EXCEPT !.diff = IF a = 1 THEN st.xbuf ELSE "null"]
    [] n = "diffload_file" -> [st EXCEPT !.diff = IF a = 1 THEN st.xfile ELSE "null"]
    [] OTHER -> st      \* digest, shmlen

(* the outcome class an operation exercises in a state: <<name, argument class, state class>>.  The generator covers every *)
(* class (breadth-first search under the view "set of enabled classes"), whatever the slot and variant numbers            *)
Class(st, op) ==
  LET n == op[1]  a == op[2]  b == op[3]  sl == st.slot IN
  CASE n \in {"destroy", "digest", "shmlen"} -> <<n, 0, sl[a].k>>
    [] n = "modify"   -> <<n, b, "">>
    [] n = "dup"      -> <<n, 0, sl[a].k>>
    [] n = "shmwrite" -> <<n, b, st.shm>>
    [] n = "adopt"    -> <<n, b, st.shm>>
    [] n = "diffbuild"   -> <<n, 0, DiffKind(sl[a], sl[b])>>
    [] n = "diffdestroy" -> <<n, 0, st.diff>>
    [] n = "diffexp_buf"  -> <<n, 0, st.diff>>
    [] n = "diffexp_file" -> <<n, a, st.diff>>
    [] n \in {"diffload_buf", "diffload_file"} -> <<n, a, "">>
    [] n = "init" -> <<n, Cardinality({s \in Slots : sl[s].k # "free"}), "">>       \* the first topology of the thread, the second, ...
    [] n = "load" -> <<n, Cardinality({s \in Slots : Usable(sl[s])}), "">>
    [] OTHER -> <<n, 0, "">>
Classes(st) == {Class(st, op) : op \in Enabled(st)}
=============================================================================
