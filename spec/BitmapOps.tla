----------------------------- MODULE BitmapOps -----------------------------
(***************************************************************************)
(* The bitmap API as a register machine (property C03).                    *)
(*                                                                         *)
(* reg[r] = [v |-> abstract value (Bitmap.tla), cnt |-> model of the       *)
(* number of valid words the implementation keeps for that bitmap].        *)
(* v is pure set semantics and is the only thing ever compared with the    *)
(* implementation.  cnt transcribes the realloc/reset rules of bitmap.c;   *)
(* it exists so that the model distinguishes the same set reached with     *)
(* different word counts ("results do not depend on the history"), which   *)
(* drives the real library through the same representations when the       *)
(* behaviours are replayed.  cnt is never asserted against the code.       *)
(*                                                                         *)
(* An operation is a record [op, d, a, b, x, y, bl]:                       *)
(*   d destination register, a/b operand registers (0 = unused),           *)
(*   x,y integer arguments (indexes, range ends, word index / count),      *)
(*   bl the set of blocks of a word mask argument.                         *)
(* Destination and operand indexes are arguments, so every aliasing        *)
(* pattern (res=set1, res=set2, res=set1=set2) is a distinct transition.   *)
(***************************************************************************)
EXTENDS Bitmap, TLC

Need(i) == (i \div 64) + 1           \* words needed to hold index i

Op(op, d, a, b, x, y, bl) == [op |-> op, d |-> d, a |-> a, b |-> b, x |-> x, y |-> y, bl |-> bl]

\* blocks lying inside word i, and whether they cover it exactly
WordBlocks(m, i)  == {p \in Blocks(m) : 64 * i <= m.lo[p] /\ m.hi[p] <= 64 * i + 63}
WordCovered(m, i) == /\ \E p \in Blocks(m) : m.lo[p] = 64 * i
                     /\ \E p \in Blocks(m) : m.hi[p] = 64 * i + 63
WordsBlocks(m, n) == UNION {WordBlocks(m, i) : i \in 0..(n-1)}
MaxCnt(m) == TailLo(m) \div 64

(* ------------------------------------------------------------------ *)
(* abstract result of an operation on the destination (set semantics)  *)
(* ------------------------------------------------------------------ *)
ResultVal(m, reg, o) ==
  LET dv == reg[o.d].v
      av == IF o.a = 0 THEN Empty ELSE reg[o.a].v
      bv == IF o.b = 0 THEN Empty ELSE reg[o.b].v
  IN CASE o.op = "zero"     -> Empty
       [] o.op = "fill"     -> Full(m)
       [] o.op = "only"     -> Single(m, o.x)
       [] o.op = "allbut"   -> Not(m, Single(m, o.x))
       [] o.op = "set"      -> Or(dv, Single(m, o.x))
       [] o.op = "clr"      -> AndNot(dv, Single(m, o.x))
       [] o.op = "set_range" -> IF o.y = -1 THEN Or(dv, FromVal(m, o.x))
                                ELSE IF o.y < o.x THEN dv
                                ELSE Or(dv, RangeVal(m, o.x, o.y))
       [] o.op = "clr_range" -> IF o.y = -1 THEN AndNot(dv, FromVal(m, o.x))
                                ELSE IF o.y < o.x THEN dv
                                ELSE AndNot(dv, RangeVal(m, o.x, o.y))
       [] o.op = "from_ulong"     -> [s |-> o.bl, inf |-> FALSE]
       [] o.op = "from_ith_ulong" -> [s |-> o.bl, inf |-> FALSE]
       [] o.op = "from_ulongs"    -> [s |-> o.bl, inf |-> FALSE]
       [] o.op = "set_ith_ulong"  -> [s |-> (dv.s \ WordBlocks(m, o.x)) \cup o.bl, inf |-> dv.inf]
       [] o.op = "copy"     -> av
       [] o.op = "dup"      -> av
       [] o.op = "not"      -> Not(m, av)
       [] o.op = "or"       -> Or(av, bv)
       [] o.op = "and"      -> And(av, bv)
       [] o.op = "andnot"   -> AndNot(av, bv)
       [] o.op = "xor"      -> Xor(av, bv)
       [] o.op = "singlify" -> Singlify(m, dv)

(* ------------------------------------------------------------------ *)
(* model of the word count after the operation (steering only)         *)
(* ------------------------------------------------------------------ *)
ResultCnt(m, reg, o) ==
  LET dc == reg[o.d].cnt    dinf == reg[o.d].v.inf
      ac == IF o.a = 0 THEN 1 ELSE reg[o.a].cnt
      bc == IF o.b = 0 THEN 1 ELSE reg[o.b].cnt
      ainf == IF o.a = 0 THEN FALSE ELSE reg[o.a].v.inf
      binf == IF o.b = 0 THEN FALSE ELSE reg[o.b].v.inf
      mx == Max2(ac, bc)   mn == Min2(ac, bc)
  IN CASE o.op \in {"zero", "fill", "from_ulong"} -> 1
       [] o.op = "from_ith_ulong" -> o.x + 1
       [] o.op = "from_ulongs"    -> o.x
       [] o.op = "set_ith_ulong"  -> Max2(dc, o.x + 1)
       [] o.op \in {"only", "allbut"} -> Need(o.x)
       [] o.op = "set" -> IF dinf /\ o.x >= dc * 64 THEN dc ELSE Max2(dc, Need(o.x))
       [] o.op = "clr" -> IF ~dinf /\ o.x >= dc * 64 THEN dc ELSE Max2(dc, Need(o.x))
       [] o.op = "set_range" ->
            IF o.y # -1 /\ o.y < o.x THEN dc
            ELSE IF dinf /\ o.x >= dc * 64 THEN dc
            ELSE IF o.y = -1 THEN Max2(dc, Need(o.x))
            ELSE IF dinf /\ o.y >= dc * 64 THEN dc
            ELSE Max2(dc, Need(o.y))
       [] o.op = "clr_range" ->
            IF o.y # -1 /\ o.y < o.x THEN dc
            ELSE IF ~dinf /\ o.x >= dc * 64 THEN dc
            ELSE IF o.y = -1 THEN Max2(dc, Need(o.x))
            ELSE IF ~dinf /\ o.y >= dc * 64 THEN dc
            ELSE Max2(dc, Need(o.y))
       [] o.op \in {"copy", "dup", "not"} -> ac
       [] o.op = "or"  -> IF ac > bc THEN (IF binf THEN mn ELSE mx)
                          ELSE IF bc > ac THEN (IF ainf THEN mn ELSE mx) ELSE mx
       [] o.op = "and" -> IF ac > bc THEN (IF binf THEN mx ELSE mn)
                          ELSE IF bc > ac THEN (IF ainf THEN mx ELSE mn) ELSE mx
       [] o.op = "andnot" -> IF ac > bc THEN (IF binf THEN mn ELSE mx)
                             ELSE IF bc > ac THEN (IF ainf THEN mx ELSE mn) ELSE mx
       [] o.op = "xor" -> mx
       [] o.op = "singlify" -> IF dinf /\ ~\E p \in reg[o.d].v.s : m.lo[p] < 64 * dc THEN dc + 1 ELSE dc

ApplyOp(m, reg, o) ==
  [reg EXCEPT ![o.d] = [v |-> ResultVal(m, reg, o), cnt |-> ResultCnt(m, reg, o)]]

(* ------------------------------------------------------------------ *)
(* the operation alphabet for a block map and R registers              *)
(* ------------------------------------------------------------------ *)
Singles(m)  == {m.lo[p] : p \in {q \in Blocks(m) : m.lo[q] = m.hi[q]}}
Starts(m)   == {m.lo[p] : p \in Blocks(m)}
Ends(m)     == {m.hi[p] : p \in Blocks(m)}
Words(m)    == {i \in 0..(MaxCnt(m) - 1) : WordCovered(m, i)}

Ops(m, R) ==
  LET Regs == 1..R IN
       {Op(n, d, 0, 0, 0, 0, {}) : n \in {"zero", "fill", "singlify"}, d \in Regs}
  \cup {Op(n, d, 0, 0, x, 0, {}) : n \in {"only", "allbut", "set", "clr"}, d \in Regs, x \in Singles(m)}
  \cup UNION {{Op(n, d, 0, 0, x, y, {}) : n \in {"set_range", "clr_range"}, d \in Regs,
                                          y \in {e \in Ends(m) : e >= x} \cup {-1}} : x \in Starts(m)}
  \* end < begin (and not -1): documented no-op
  \cup {Op(n, d, 0, 0, x, x - 1, {}) : n \in {"set_range", "clr_range"}, d \in Regs,
                                       x \in {s \in Starts(m) : s >= 2}}
  \cup {Op("from_ulong", d, 0, 0, 0, 0, bl) : d \in Regs, bl \in SUBSET WordBlocks(m, 0)}
  \cup UNION {{Op(n, d, 0, 0, i, 0, bl) : n \in {"from_ith_ulong", "set_ith_ulong"}, d \in Regs,
                                          bl \in SUBSET WordBlocks(m, i)} : i \in Words(m)}
  \cup UNION {{Op("from_ulongs", d, 0, 0, n, 0, bl) : d \in Regs, bl \in SUBSET WordsBlocks(m, n)} :
                 n \in {k \in 1..MaxCnt(m) : \A i \in 0..(k-1) : WordCovered(m, i)}}
  \cup {Op(n, d, a, 0, 0, 0, {}) : n \in {"copy", "dup", "not"}, d \in Regs, a \in Regs}
  \cup {Op(n, d, a, b, 0, 0, {}) : n \in {"or", "and", "andnot", "xor"}, d \in Regs, a \in Regs, b \in Regs}

Enabled(m, reg, o) ==
  /\ o.op = "singlify" => SinglifyOK(m, reg[o.d].v)
  /\ o.op = "from_ulongs" => o.bl \subseteq WordsBlocks(m, o.x)
  /\ o.op = "copy" => o.d # o.a          \* memcpy on itself is undefined; not a documented use
  /\ ResultCnt(m, reg, o) <= MaxCnt(m)

\* model-level sanity of the steering: beyond cnt words the value is uniform
RepConsistent(m, r) ==
  \A p \in Blocks(m) : m.lo[p] >= 64 * r.cnt => ((p \in r.v.s) <=> r.v.inf)
=============================================================================
