---------------------------- MODULE TraceShmem ----------------------------
(***************************************************************************)
(* Trace validation for C19: every line recorded by harness/hwv_shmem from *)
(* the real library (master, writer and adopter processes, in program      *)
(* order) must be explained by the Shmem.tla expectations.                 *)
(*                                                                         *)
(* Observations: "obs" = projection of a topology (project.h; "topo" when  *)
(* full), its XML export digest "xd", its distances / memory attributes /  *)
(* CPU kinds / local nodes / synthetic export as returned by the query     *)
(* functions ("stores" when full) and the digests pd / sd of exactly those *)
(* two texts.  "live" = digests of every adopted topology of the adopter   *)
(* process after the call + digest "md" of the bytes of its mapping.       *)
(***************************************************************************)
EXTENDS Shmem, Json, IOUtils, TLC

T == ndJsonDeserialize(IOEnv.TRACE)

VARIABLES l,
          page,      \* page size in bytes
          snaps,     \* observations of the original topology taken by `snapshot` events
          snapok,    \* the last snapshot describes the original as it is now
          L,         \* length returned by the last get_length on the unmodified original (0: none)
          imgs, fend,\* images in the file, end of the last one (in pages)
          fresh,     \* the last modification of the original was a successful hwloc_topology_refresh()
          proc,      \* "master" | "adopter"
          free, live \* address space and adopted topologies of the adopter process
vars == <<l, fresh, page, snaps, snapok, L, imgs, fend, proc, free, live>>

NoH == [n |-> 0]
E == T[l]
IsEvent(e) == l <= Len(T) /\ T[l].e = e /\ l' = l + 1
B(x) == IF x THEN 1 ELSE 0

Digests(o) == [pd |-> o.pd, xd |-> o.xd, sd |-> o.sd]
\* file offsets are logged as whole pages + remainder (offsets of 2 GiB and more exceed TLC's integers); an offset is that pair
Off(e) == <<e.off_pg, e.offrem>>
Snap == snaps[Len(snaps)]
LivePages == UNION {live[h].pages : h \in {k \in DOMAIN live : live[k].n = 1}}
RoundUp(x) == ((x + page - 1) \div page) * page

Init == /\ l = 1 /\ fresh = FALSE /\ page = 4096 /\ snaps = <<>> /\ snapok = FALSE /\ L = 0 /\ imgs = {} /\ fend = 0
        /\ proc = "master" /\ free = {} /\ live = <<NoH, NoH>>

TReset == /\ IsEvent("Reset")
          /\ E.page > 0
          /\ fresh' = FALSE
          /\ page' = E.page /\ snaps' = <<>> /\ snapok' = FALSE /\ L' = 0 /\ imgs' = {} /\ fend' = 0
          /\ proc' = "master" /\ free' = {} /\ live' = <<NoH, NoH>>

(* ---------------- master: the original topology (judged by C01, C02, C13-C15; here only recorded) ---------------- *)
TLoad == /\ IsEvent("load")
         /\ proc = "master" /\ snaps = <<>>
         /\ E.ret \in {0, -1}
         /\ fresh' = FALSE
         /\ UNCHANGED <<page, snaps, snapok, L, imgs, fend, proc, free, live>>

PrepOps == {"restrict", "dist", "memattr", "memvalue", "cpukind", "info", "tinfo", "misc", "group", "subtype", "userdata", "allow", "refresh"}
TPrep == /\ IsEvent("prep")
         /\ proc = "master"
         /\ E.op \in PrepOps /\ E.ret \in -2..1
         /\ snapok' = FALSE /\ L' = 0              \* "the topology must not have been modified in the meantime"
         /\ fresh' = (E.op = "refresh" /\ E.ret = 0)
         /\ UNCHANGED <<page, snaps, imgs, fend, proc, free, live>>

TSnapshot == /\ IsEvent("snapshot")
             /\ proc = "master"
             /\ E.obs.full = 1
             \* hwloc_topology_refresh(): "Once this refresh is done, multiple threads may concurrently consult the topology, objects,
             \* distances, attributes, etc.": consulting right after it rewrites no internal cache (whatever the topology flags)
             /\ fresh => E.cw = 0
             /\ snaps' = Append(snaps, E.obs) /\ snapok' = TRUE
             /\ UNCHANGED <<fresh, page, L, imgs, fend, proc, free, live>>

\* the length is usable by write(): positive and a whole number of pages; computing it does not move the topology
TGetLength == /\ IsEvent("get_length")
              /\ proc = "master" /\ snapok
              /\ LET x == GetLengthExpect(E.flags) IN
                   \/ /\ x.succeed /\ E.ret = 0
                      /\ E.len > 0 /\ E.len % page = 0
                      /\ L' = E.len
                   \/ /\ x.fail /\ E.ret = -1 /\ E.errno \in x.errs
                      /\ L' = L
              /\ Digests(E.obs) = Digests(Snap)
              /\ UNCHANGED <<fresh, page, snaps, snapok, imgs, fend, proc, free, live>>

\* hwloc_shmem_topology_write in the writer process (a fork of the master: nothing is unmapped there but what the
\* recorder unmapped for this call)
TWrite == /\ IsEvent("write")
          /\ proc = "master" /\ snapok /\ L > 0
          /\ E.len = L + E.dlen /\ E.dlen >= 0        \* a length obtained with get_length (possibly more)
          /\ E.off_pg >= fend                         \* images are laid out one after the other
          /\ E.offrem \in 0..(page - 1)
          /\ E.covers \in {0, 1} /\ E.size0 >= 0 /\ E.size1 >= 0 /\ Len(E.all0) = 4 /\ Len(E.all1) = 4   \* (file sizes and whole-file digests: logged, not constrained)
          /\ LET pages == PagesOf(E.addr_pg, E.addr_rem, E.len, page)
                 avail == Avail(Prepared({}, {}, pages, E.punch), pages)
                 x == WriteExpect(E.offrem, E.addr_rem, E.len % page, E.flags, avail)
             IN /\ E.avail = B(avail)
                \* nothing is written outside the target segment of the file ...
                /\ E.pre1 = E.pre0 /\ E.tail1 = E.tail0
                \* ... and the source topology is observably what it was
                /\ Digests(E.obs) = Digests(Snap)
                /\ \/ /\ x.succeed /\ E.ret = 0
                      /\ E.free_after = 1                   \* "temporarily mapped"
                      /\ imgs' = imgs \cup {Image(Off(E), E.addr_pg, E.addr_rem, E.len, Len(snaps))}
                      /\ fend' = E.off_pg + (RoundUp(E.offrem + E.len) \div page)
                   \/ /\ x.fail /\ E.ret = -1 /\ E.errno \in x.errs
                      /\ E.free_after = E.avail             \* the range is left as it was found
                      /\ UNCHANGED <<imgs, fend>>
          /\ UNCHANGED <<fresh, page, snaps, snapok, L, proc, free, live>>

\* the recorder damages / repairs one header or ABI byte of an image
TPatch == /\ IsEvent("patch")
          /\ proc = "master" /\ E.ok = 1 /\ E.field \in HeaderFields
          /\ \E i \in imgs : /\ i.off = Off(E)
                             /\ imgs' = (imgs \ {i}) \cup {[i EXCEPT !.bad = Toggle(@, E.field)]}
          /\ UNCHANGED <<fresh, page, snaps, snapok, L, fend, proc, free, live>>

(* ---------------- adopter process ---------------- *)
TAdopter == /\ IsEvent("adopter")
            /\ proc = "master"
            /\ proc' = "adopter" /\ free' = {} /\ live' = <<NoH, NoH>>
            /\ UNCHANGED <<fresh, page, snaps, snapok, L, imgs, fend>>
TEnd == /\ IsEvent("end")
        /\ proc = "adopter"
        /\ proc' = "master" /\ free' = {} /\ live' = <<NoH, NoH>>
        /\ UNCHANGED <<fresh, page, snaps, snapok, L, imgs, fend>>

\* what a live entry of the event says about handle k (1-based)
Logged(k) == IF E.live[k].n = 0 THEN NoH
             ELSE [n |-> 1, pd |-> E.live[k].o.pd, xd |-> E.live[k].o.xd, sd |-> E.live[k].o.sd, md |-> E.live[k].md]
Known(k) == IF live[k].n = 0 THEN NoH
            ELSE [n |-> 1, pd |-> live[k].pd, xd |-> live[k].xd, sd |-> live[k].sd, md |-> live[k].md]
\* frame condition: the adopted topology k reports exactly what it reported before and its mapping holds the same bytes
SameAsBefore(k) == /\ Logged(k) = Known(k)
                   /\ E.live[k].n = 1 => E.live[k].mapped = 1
AllSame == \A k \in DOMAIN live : SameAsBefore(k)
OthersSame(h) == \A k \in DOMAIN live : k # h => SameAsBefore(k)

\* "observably identical to the original": projection, XML export, distances / memattrs / cpukinds / infos
IdenticalTo(o, s) == /\ o.topo = s.topo /\ o.stores = s.stores
                     /\ Digests(o) = Digests(s)

TAdopt == /\ IsEvent("adopt")
          /\ proc = "adopter"
          /\ LET h == E.h + 1
                 pages == PagesOf(E.addr_pg, E.addr_rem, E.len, page)
                 free1 == Prepared(free, LivePages, pages, E.punch)
                 avail == Avail(free1, pages)
                 x == AdoptExpect(imgs, Off(E), E.addr_pg, E.addr_rem, E.len, E.flags, avail)
             IN /\ live[h].n = 0
                /\ E.avail = B(avail)
                /\ OthersSame(h)
                /\ \/ /\ x.succeed /\ E.ret = 0
                      /\ E.free_after = 0
                      /\ LET i == CHOOSE i \in Matching(imgs, Off(E), E.addr_pg, E.addr_rem, E.len) : TRUE IN
                           /\ E.obs.full = 1
                           /\ IdenticalTo(E.obs, snaps[i.snap])
                           /\ WellFormed(E.obs.topo)                  \* "that satisfies C01"
                      /\ E.live[h].n = 1 /\ E.live[h].mapped = 1
                      /\ Digests(E.live[h].o) = Digests(E.obs)
                      /\ live' = [live EXCEPT ![h] = [n |-> 1, pages |-> pages, topo |-> E.obs.topo, stores |-> E.obs.stores,
                                                      pd |-> E.obs.pd, xd |-> E.obs.xd, sd |-> E.obs.sd, md |-> E.live[h].md]]
                      /\ free' = free1 \ pages
                   \/ /\ x.fail /\ E.ret = -1 /\ E.errno \in x.errs
                      /\ E.free_after = E.avail                        \* nothing of the attempt stays mapped, nothing else was unmapped
                      /\ E.live[h].n = 0
                      /\ live' = live /\ free' = free1
          /\ UNCHANGED <<fresh, page, snaps, snapok, L, imgs, fend, proc>>

\* hwloc_topology_destroy() unmaps cleanly
TDestroy == /\ IsEvent("destroy")
            /\ proc = "adopter"
            /\ LET h == E.h + 1 IN
                 /\ live[h].n = 1
                 /\ E.free_after = 1
                 /\ E.live[h].n = 0
                 /\ OthersSame(h)
                 /\ free' = free \cup live[h].pages
                 /\ live' = [live EXCEPT ![h] = NoH]
            /\ UNCHANGED <<fresh, page, snaps, snapok, L, imgs, fend, proc>>

(* calls on an adopted topology *)
Refused == /\ E.ret = -1 \/ (E.op = "dist_release_remove" /\ E.nr = 0 /\ E.ret = -2)   \* -2: nothing to call it on
           /\ AllSame
Consulted ==
  LET h == E.h + 1 IN
  /\ AllSame
  /\ CASE E.op = "observe"      -> /\ E.ret = 0 /\ E.obs.full = 1
                                   /\ E.obs.topo = live[h].topo /\ E.obs.stores = live[h].stores
                                   /\ Digests(E.obs) = [pd |-> live[h].pd, xd |-> live[h].xd, sd |-> live[h].sd]
       [] E.op = "export_xml"   -> IF E.x = 0 THEN E.ret = 0 /\ E.xmllen > 0 ELSE E.ret \in {0, -1}
       \* a duplicate is an ordinary private topology: equal, and it can be modified and destroyed
       [] E.op = "dup"          -> /\ E.ret = 0
                                   /\ Digests(E.dup) = [pd |-> live[h].pd, xd |-> live[h].xd, sd |-> live[h].sd]
                                   /\ E.x = 1 => E.dup_restrict = 0 /\ E.dup_npu = 1
       [] E.op = "get_length"   -> IF E.x = 0 THEN E.ret = 0 /\ E.len > 0 ELSE E.ret = -1
       \* an adopted topology is a loaded topology: it can be measured, written for another address range and adopted from
       \* there; that copy is observably identical too, and nothing of it stays mapped
       [] E.op = "reshare"      -> /\ E.ret = 0 /\ E.rewrite = 0 /\ E.readopt = 0
                                   /\ E.relen > 0 /\ E.relen % page = 0
                                   /\ Digests(E.re) = [pd |-> live[h].pd, xd |-> live[h].xd, sd |-> live[h].sd]
                                   /\ E.refree = 1
       [] E.op = "check"        -> E.ret = 0
       [] E.op = "set_userdata" -> E.ret = 0 /\ E.got = E.x
       [] E.op = "bind_get"     -> E.ret \in {0, -1}
       [] E.op = "abi_check"    -> E.ret = 0
       [] E.op = "refresh"      -> E.ret \in {0, -1}

\* hwloc_topology_allow "is allowed on an adopted topology"; the original must have been loaded with INCLUDE_DISALLOWED
Allowed ==
  LET h == E.h + 1
      t == live[h].topo   u == E.obs.topo IN
  /\ E.obs.full = 1
  /\ AllowRel(E, t, u)
  /\ E.obs.stores = live[h].stores /\ E.obs.sd = live[h].sd
  /\ OthersSame(h)
  /\ E.live[h].n = 1 /\ E.live[h].mapped = 1 /\ E.live[h].md = live[h].md          \* without touching the mapping
  /\ Digests(E.live[h].o) = Digests(E.obs)
  /\ live' = [live EXCEPT ![h].topo = u, ![h].pd = E.obs.pd, ![h].xd = E.obs.xd]

\* the topology-level infos are private to the adopter: adding one may work or be refused, nothing else moves
TInfoAdded ==
  LET h == E.h + 1
      t == live[h].topo   u == E.obs.topo IN
  /\ E.obs.full = 1
  /\ [u EXCEPT !.tinfos = <<>>, !.xd = <<>>] = [t EXCEPT !.tinfos = <<>>, !.xd = <<>>]
  /\ u.tinfos \in {t.tinfos, Append(t.tinfos, <<E.s1, E.s2>>)}
  /\ (E.ret < 0 => u.tinfos = t.tinfos)
  /\ E.obs.stores = live[h].stores /\ E.obs.sd = live[h].sd
  /\ OthersSame(h)
  /\ E.live[h].n = 1 /\ E.live[h].mapped = 1 /\ E.live[h].md = live[h].md
  /\ Digests(E.live[h].o) = Digests(E.obs)
  /\ live' = [live EXCEPT ![h].topo = u, ![h].pd = E.obs.pd, ![h].xd = E.obs.xd]

TCall == /\ IsEvent("call")
         /\ proc = "adopter"
         /\ live[E.h + 1].n = 1
         /\ E.op \in AllOps
         /\ \/ E.op \in ModifyingOps \cup ConfigOps /\ Refused /\ live' = live
            \/ E.op \in ConsultOps /\ Consulted /\ live' = live
            \/ E.op = "allow" /\ Allowed
            \/ E.op = "tinfo_add" /\ TInfoAdded
         /\ UNCHANGED <<fresh, page, snaps, snapok, L, imgs, fend, proc, free>>

Next == TReset \/ TLoad \/ TPrep \/ TSnapshot \/ TGetLength \/ TWrite \/ TPatch \/ TAdopter \/ TEnd \/ TAdopt \/ TDestroy \/ TCall
Spec == Init /\ [][Next]_vars

Accepted == TLCGet("stats").diameter - 1 = Len(T)
=============================================================================
