----------------------------- MODULE MC_Helpers -----------------------------
(***************************************************************************)
(* Model for property C09.  The helpers are read-only, so the state of the *)
(* model is the query being made: TLC enumerates the space of QUERIES over *)
(* one real topology (the projection recorded by the pre-pass, read from   *)
(* TopoFile), one named action per helper, and for every query checks on   *)
(* the model alone that the brute-force definition of Helpers.tla          *)
(*   - is satisfiable and, where the documentation determines the answer,  *)
(*     has exactly one solution (Witness* invariants),                     *)
(*   - implies the clauses of the property statement (Thm* invariants:     *)
(*     disjoint maximal cover, iterators are sub-sequences of the level,   *)
(*     at most one PU per core, distrib reference construction satisfies   *)
(*     DistribRel, type/depth lookups mutually inverse, ...).              *)
(* Every reachable state is emitted as one query descriptor; the Python    *)
(* driver turns descriptors into recorder lines, the real answers are      *)
(* judged by TraceHelpers with the same operators.                         *)
(***************************************************************************)
EXTENDS Helpers, Json, IOUtils

CONSTANTS TopoFile,      \* ndjson file whose first line is the "topo" event of the pre-pass
          Masks,         \* bit masks over the processors the topology knows (PUs in logical order, then ghosts) used as argument sets
          XMasks,        \* masks that are also combined with bits outside the topology / an infinite tail
          DistribNs,     \* values of n for hwloc_distrib
          Light          \* TRUE: fewer combinations for the per-object x per-set products (quick tier)

T0 == ndJsonDeserialize(TopoFile)[1].topo
TC0 == ndJsonDeserialize(TopoFile)[1].tcmp

VARIABLES q, done
vars == <<q, done>>

PULevel == LevelObjs(T0, T0.depth - 1)
NPU == Len(PULevel)
PUOs(k) == O(T0, PULevel[k]).os
PUSet == {PUOs(k) : k \in 1..NPU}
(* The universe of processor indexes an argument set is drawn from is everything the topology mentions in ANY of its sets,  *)
(* not only the PUs that have an object: processors that are offline, or disallowed and dropped at load time, appear in the  *)
(* complete cpusets only ("ghosts": bits NPU+1.. of a mask, in increasing index order).                                      *)
FiniteR(r) == UNION {IF r[k][2] = -1 THEN {} ELSE r[k][1]..r[k][2] : k \in DOMAIN r}
RECURSIVE SortSet(_)
SortSet(X) == IF X = {} THEN <<>> ELSE LET m == CHOOSE x \in X : \A y \in X : x <= y IN <<m>> \o SortSet(X \ {m})
GhostSet == FiniteR(O(T0, 1).ccs) \ PUSet
Ghosts == SortSet(GhostSet)
NBits == NPU + Len(Ghosts)
BitOs(k) == IF k <= NPU THEN PUOs(k) ELSE Ghosts[k - NPU]
MaxOs == CHOOSE m \in PUSet \cup GhostSet : \A x \in PUSet \cup GhostSet : x <= m
MaskSet(m) == {BitOs(k) : k \in {j \in 1..NBits : Bit(m, 2 ^ (j - 1))}}
\* x = 0: the set alone; 1: plus one index outside the topology; 2: plus an infinite tail
Extra(x) == CASE x = 0 -> {} [] x = 1 -> {MaxOs + 3} [] x = 2 -> (MaxOs + 2)..BIG
(* Argument sets named by the topology itself: the cpuset and the complete cpuset of every object (the boundary cases of     *)
(* every inclusion test), what the complete cpuset adds to it, the allowed and the disallowed processors of the topology and *)
(* of every object, each ghost alone, with the whole root cpuset and with one PU.                                            *)
RootCS == OCS(T0, 1)
AllowedCS == FiniteR(T0.tacs)
SetsObjs == {i \in Pos(T0) : HasSets(O(T0, i))}
CCSF(i) == FiniteR(O(T0, i).ccs)
NamedSets == {RootCS, RootCS \cup GhostSet, GhostSet, AllowedCS, RootCS \ AllowedCS, AllowedCS \cup GhostSet}
             \cup {{g} : g \in GhostSet} \cup {RootCS \cup {g} : g \in GhostSet} \cup {{PUOs(1), g} : g \in GhostSet}
             \cup UNION {{OCS(T0, i), CCSF(i), CCSF(i) \ OCS(T0, i), OCS(T0, i) \cap AllowedCS, OCS(T0, i) \ AllowedCS} : i \in SetsObjs}
\* the named sets where the cpuset, the complete cpuset and the allowed cpuset of the topology differ (none on most topologies)
OtherSets == IF GhostSet = {} /\ AllowedCS = RootCS THEN {} ELSE {RootCS \cup GhostSet, GhostSet, AllowedCS, RootCS \ AllowedCS}
\* an argument is <<finite part, x>>
SetArgs == {<<MaskSet(m), 0>> : m \in Masks} \cup {<<s, 0>> : s \in NamedSets} \cup {<<MaskSet(m), x>> : m \in XMasks, x \in {1, 2}}
ArgSet(a) == a[1] \cup Extra(a[2])
FewSetArgs == IF Light THEN {<<MaskSet(m), 0>> : m \in XMasks} \cup {<<s, 0>> : s \in OtherSets} ELSE SetArgs

NumaLevel == LevelObjs(T0, -3)
NumaOs == {O(T0, NumaLevel[k]).os : k \in DOMAIN NumaLevel}
\* same for nodes: the complete nodeset of the root may know nodes that have no object
NodeU == NumaOs \cup FiniteR(O(T0, 1).cns)
MaxNode == CHOOSE m \in NodeU : \A x \in NodeU : x <= m
NodeArgs == SUBSET NodeU \cup {NodeU \cup {MaxNode + 2}, {MaxNode + 5}, (MaxNode + 1)..BIG, FiniteR(T0.tans), NodeU \ FiniteR(T0.tans)}

Objs == Pos(T0)
SetObjs == {i \in Objs : HasCS(O(T0, i))}
NormalObjs == {i \in Objs : IsNormal(O(T0, i))}
Depths == (0..(T0.depth - 1)) \cup {-3, -8}
BadDepths == {T0.depth, T0.depth + 7, -1, -2, -9}
SetTypes == NormalTypes \cup MemTypes
PresentTypes == {O(T0, i).type : i \in Objs}
\* normal / memory types worth pairing: present ones plus a few absent ones
PairTypes == (PresentTypes \cap SetTypes) \cup {DIE, GROUP, L2, MEMCACHE}
Strs == {O(T0, i).st[1] : i \in {j \in Objs : O(T0, j).st # <<>>}}
Names == {O(T0, i).name[1] : i \in {j \in Objs : O(T0, j).name # <<>>}}
INT_MAX == 2147483647
Untils == (-1..(T0.depth - 1)) \cup {INT_MAX}
\* root lists for hwloc_distrib: single objects, whole levels, the children of an object, first and last child only
RootLists == {<<i>> : i \in SetObjs}
             \cup {LevelObjs(T0, d) : d \in (0..(T0.depth - 1)) \cup {-3}}
             \cup {O(T0, i).kids : i \in {j \in NormalObjs : O(T0, j).arity >= 2}}
             \cup {<<O(T0, i).kids[1], O(T0, i).kids[Len(O(T0, i).kids)]>> : i \in {j \in NormalObjs : O(T0, j).arity >= 3}}
             \cup {<<O(T0, i).kids[2], O(T0, i).kids[1]>> : i \in {j \in NormalObjs : O(T0, j).arity >= 2}}        \* out of order: only the order-free clauses apply

Init == q = [k |-> "none"] /\ done = FALSE
\* every action is guarded by ~done BEFORE its quantifier, so that TLC does not enumerate the query space again from each query state
Fire(d) == done' = TRUE /\ q' = d
\* descriptors carry the argument set both as (mask, extra) and as the explicit finite part, for the driver
SetQ(kind, a) == [k |-> kind, s |-> a[1], x |-> a[2]]

QCovering == ~done /\ \E a \in SetArgs : Fire(SetQ("covering", a))
QCacheCovering == ~done /\ \E a \in SetArgs : Fire(SetQ("cache_covering", a))
QFirstLargest == ~done /\ \E a \in SetArgs : Fire(SetQ("first_largest", a))
QChildCovering == ~done /\ \E a \in FewSetArgs, p \in NormalObjs \cup {i \in Objs : IsMem(O(T0, i))} : Fire(SetQ("child_covering", a) @@ [parent |-> p])
QLargest == ~done /\ \E a \in SetArgs, max \in {-1, 0, 1, 2, NPU + 1} : Fire(SetQ("largest", a) @@ [max |-> max])
QInsideDepth == ~done /\ \E a \in SetArgs, d \in Depths \cup BadDepths : Fire(SetQ("inside_depth", a) @@ [depth |-> d])
QInsideType == ~done /\ \E a \in SetArgs, ty \in SetTypes : Fire(SetQ("inside_type", a) @@ [type |-> ty])
QIndexInside == ~done /\ \E a \in FewSetArgs, o \in SetObjs : Fire(SetQ("index_inside", a) @@ [obj |-> o])
QCoveringDepth == ~done /\ \E a \in SetArgs, d \in Depths \cup BadDepths : Fire(SetQ("covering_depth", a) @@ [depth |-> d])
QCoveringType == ~done /\ \E a \in SetArgs, ty \in SetTypes : Fire(SetQ("covering_type", a) @@ [type |-> ty])
QAncDepth == ~done /\ \E o \in Objs, d \in Depths \cup BadDepths \cup {-4, -5, -6, -7} : Fire([k |-> "anc_depth", obj |-> o, depth |-> d])
QAncType == ~done /\ \E o \in Objs, ty \in 0..(NTYPES - 1) : Fire([k |-> "anc_type", obj |-> o, type |-> ty])
QCommon == ~done /\ \E a, b \in Objs : Fire([k |-> "common", a |-> a, b |-> b])
QInSubtree == ~done /\ \E a, b \in SetObjs : Fire([k |-> "in_subtree", obj |-> a, root |-> b])
QNextChild == ~done /\ \E o \in Objs : Fire([k |-> "next_child", parent |-> o])
QSharedCache == ~done /\ \E o \in Objs : Fire([k |-> "shared_cache", obj |-> o])
QNonIOAnc == ~done /\ \E o \in Objs : Fire([k |-> "non_io_anc", obj |-> o])
QClosest == ~done /\ \E o \in Objs, max \in {0, 1, 2, 3, Cardinality(Objs)} : Fire([k |-> "closest", src |-> o, max |-> max])
QBelow == ~done /\ \E t1 \in PairTypes, t2 \in PairTypes, i1 \in 0..2, i2 \in 0..2 : Fire([k |-> "below", t1 |-> t1, i1 |-> i1, t2 |-> t2, i2 |-> i2])
QBelowArray == ~done /\ \E nr \in 0..3, ty \in [1..3 -> PresentTypes \cap SetTypes], ix \in [1..3 -> 0..1] :
                 Fire([k |-> "below_array", types |-> SubSeq(ty, 1, nr), idxs |-> SubSeq(ix, 1, nr)])
QToNodeset == ~done /\ \E a \in SetArgs : Fire(SetQ("to_nodeset", a))
QFromNodeset == ~done /\ \E m \in NodeArgs : Fire([k |-> "from_nodeset", s |-> {n \in m : n <= MaxNode + 5}, x |-> IF BIG \in m THEN 2 ELSE 0, tail |-> MaxNode + 1])
\* (subtype, name prefix) filters: none, each alone (existing ones in their own and in other letter case via the objects
\* themselves, a non-existing one, a two-letter prefix, a prefix longer than the name), and a few combinations
Prefixes == {SubSeq(n, 1, 2) : n \in Names} \cup {n \o "x" : n \in Names}
LocFilters == {<<<<>>, <<>>>>} \cup {<<<<s>>, <<>>>> : s \in Strs \cup {"NoSuchSubtype"}} \cup {<<<<>>, <<p>>>> : p \in Prefixes}
              \cup {<<<<s>>, <<SubSeq(n, 1, 2)>>>> : s \in Strs, n \in {m \in Names : Len(m) <= 4}}
LocTypes == IF Light THEN PresentTypes \cup {DIE, GROUP, PCIDEV, OSDEV, BRIDGE, MISC} ELSE 0..(NTYPES - 1)
QSameLocality == ~done /\ \E o \in Objs, ty \in LocTypes, f \in LocFilters, fl \in {0, 1} :
                   (fl = 1 => f = <<<<>>, <<>>>>) /\ Fire([k |-> "same_locality", src |-> o, type |-> ty, st |-> f[1], np |-> f[2], flags |-> fl])
QTypeDepth == ~done /\ \E ty \in (-1..NTYPES) \cup {1000} : Fire([k |-> "type_depth", type |-> ty])
QTypeLookup == ~done /\ \E ty \in 0..(NTYPES - 1) : Fire([k |-> "type_lookup", type |-> ty])
QDepthLookup == ~done /\ \E d \in Depths \cup BadDepths \cup {-4, -5, -6, -7} : Fire([k |-> "depth_lookup", depth |-> d])
QCacheTypeDepth == ~done /\ \E lv \in 0..5, ct \in -1..2 : Fire([k |-> "cache_type_depth", level |-> lv, ctype |-> ct])
QPuByOs == ~done /\ \E os \in 0..(MaxOs + 2) : Fire([k |-> "pu_by_os", os |-> os])
QNumaByOs == ~done /\ \E os \in 0..(MaxNode + 2) : Fire([k |-> "numa_by_os", os |-> os])
QDistrib == ~done /\ \E r \in RootLists, n \in DistribNs, u \in Untils, fl \in {0, 1} : Fire([k |-> "distrib", roots |-> r, n |-> n, until |-> u, flags |-> fl])
QDistribBad == ~done /\ \E r \in {<<1>>}, n \in {0, 1, 3}, fl \in {0, 2, 3, 256} : (n = 0 \/ fl > 1) /\ Fire([k |-> "distrib", roots |-> r, n |-> n, until |-> INT_MAX, flags |-> fl])
QSinglify == ~done /\ \E a \in SetArgs, w \in 0..3 : Fire(SetQ("singlify", a) @@ [which |-> w])

QMemParentsDepth == ~done /\ Fire([k |-> "mem_parents_depth"])
QTypeDepthAttr == ~done /\ \E ty \in {GROUP, PACKAGE, NUMANODE}, gd \in 0..3, na \in {0, 1} : Fire([k |-> "type_depth_attr", type |-> ty, gdepth |-> gd, noattr |-> na])
PciIds == {<<0, 0, 0, 0>>} \cup UNION {LET a == O(T0, i).attr.pci IN
             {<<a.dom, a.bus, a.dev, a.func>>, <<a.dom + 1, a.bus, a.dev, a.func>>, <<a.dom, a.bus + 1, a.dev, a.func>>, <<a.dom, a.bus, a.dev + 1, a.func>>, <<a.dom, a.bus, a.dev, a.func + 1>>}
             : i \in {j \in Objs : O(T0, j).type = PCIDEV}}
QPciByBusid == ~done /\ \E id \in PciIds : Fire([k |-> "pcidev_by_busid", dom |-> id[1], bus |-> id[2], dev |-> id[3], func |-> id[4]])
QBridgeCovers == ~done /\ \E o \in {1} \cup {j \in Objs : O(T0, j).type \in {BRIDGE, PCIDEV}}, dom \in {0, 1}, bus \in 0..4 : Fire([k |-> "bridge_covers", obj |-> o, dom |-> dom, bus |-> bus])

Next == \/ QCovering \/ QCacheCovering \/ QFirstLargest \/ QChildCovering \/ QLargest
        \/ QInsideDepth \/ QInsideType \/ QIndexInside \/ QCoveringDepth \/ QCoveringType
        \/ QAncDepth \/ QAncType \/ QCommon \/ QInSubtree \/ QNextChild \/ QSharedCache \/ QNonIOAnc
        \/ QClosest \/ QBelow \/ QBelowArray \/ QToNodeset \/ QFromNodeset \/ QSameLocality
        \/ QTypeDepth \/ QTypeLookup \/ QDepthLookup \/ QCacheTypeDepth \/ QPuByOs \/ QNumaByOs
        \/ QDistrib \/ QDistribBad \/ QSinglify \/ QMemParentsDepth \/ QTypeDepthAttr \/ QPciByBusid \/ QBridgeCovers
Spec == Init /\ [][Next]_vars

(* ------------------------------------------------------------------ *)
(* invariants on the model alone                                       *)
(* ------------------------------------------------------------------ *)
Is(kind) == done /\ q.k = kind
S == q.s \cup Extra(q.x)                                      \* the argument set of a set query
Cands == 0..N(T0)
Unique(P(_)) == Cardinality({r \in Cands : P(r)}) = 1

\* the recorded topology is a legitimate subject of the property
TopoWellFormed == ~done => (WellFormed(T0) /\ TypeOrderSane(TC0))        \* evaluated once, in the initial state

\* the deepest covering object exists and is unique; it is NULL exactly for empty / not-included sets
WitnessCovering == Is("covering") => Unique(LAMBDA r : ObjCoveringRel(T0, S, r)) /\ (ObjCoveringRel(T0, S, 0) <=> ~CoverDefined(T0, S))
WitnessCacheCovering == Is("cache_covering") => Unique(LAMBDA r : CacheCoveringRel(T0, S, r))
WitnessCommon == Is("common") => /\ Unique(LAMBDA r : CommonRel(T0, q.a, q.b, r))
                                 /\ \A r \in Cands : CommonRel(T0, q.a, q.b, r) <=> CommonRel(T0, q.b, q.a, r)
                                 /\ (q.a = q.b => CommonRel(T0, q.a, q.b, q.a))
WitnessAncDepth == Is("anc_depth") => \E r \in Cands : AncDepthRel(T0, q.obj, q.depth, r)
\* the maximal objects inside S are pairwise disjoint, union to exactly S, and (in any order) satisfy the relation
MaxSeq == LET m == MaxObjs(T0, S) IN SelectSeq([i \in 1..N(T0) |-> i], LAMBDA i : i \in m)
ThmLargest == Is("largest") =>
  /\ (S \subseteq OCS(T0, 1)) => PairwiseDisjoint(T0, MaxSeq) /\ UnionCS(T0, MaxSeq) = S
  /\ LET full == IF S \subseteq OCS(T0, 1) /\ q.max > 0 THEN SubSeq(MaxSeq, 1, IF Len(MaxSeq) < q.max THEN Len(MaxSeq) ELSE q.max) ELSE <<>>
     IN LargestRel(T0, S, q.max, IF S \subseteq OCS(T0, 1) THEN Len(full) ELSE -1, full, 1)
\* a set that reaches outside the root cpuset - a ghost of the complete cpuset as much as an index beyond the machine - has no
\* covering object and no decomposition: the only answers the relations admit are NULL and -1
ThmOutsideRoot == (done /\ q.k \in {"covering", "cache_covering", "largest"} /\ ~(S \subseteq RootCS)) =>
  IF q.k = "largest" THEN \A r \in -1..N(T0) : LargestRel(T0, S, q.max, r, <<>>, 1) <=> r = -1
  ELSE \A r \in Cands : (ObjCoveringRel(T0, S, r) \/ CacheCoveringRel(T0, S, r)) <=> r = 0
ThmFirstLargest == Is("first_largest") => (\E r \in Cands : FirstLargestRel(T0, S, r)) /\ \A r \in Cands \ {0} : FirstLargestRel(T0, S, r) => r \in MaxObjs(T0, S)
\* the inside objects are among the covering ("touching") ones, both are sub-sequences of the level, complementary sets split the level
ThmIterators == (Is("inside_depth") \/ Is("covering_depth")) =>
  LET lv == LevelObjs(T0, q.depth)  in == InsideSeq(T0, S, lv)  to == TouchingSeq(T0, S, lv) IN
  /\ SeqSet(in) \subseteq SeqSet(to) /\ SeqSet(to) \subseteq SeqSet(lv)
  /\ \A a, b \in DOMAIN in : a < b => O(T0, in[a]).lidx < O(T0, in[b]).lidx
  /\ \A i \in SeqSet(lv) : OCS(T0, i) # {} => (i \in SeqSet(in) \/ i \in SeqSet(TouchingSeq(T0, OCS(T0, 1) \ S, lv)))
\* ordering the whole level by distance satisfies the relation: it is satisfiable for every max
ThmClosest == (Is("closest") /\ HasCS(O(T0, q.src))) =>
  LET src == q.src IN
    LET lv == SelectSeq(LevelObjs(T0, O(T0, src).depth), LAMBDA o : o # src /\ ~(OCS(T0, o) \subseteq OCS(T0, src)))
        maxr == Len(AncSelfSeq(T0, src))
        RECURSIVE byrank(_)
        byrank(r) == IF r > maxr THEN <<>> ELSE SelectSeq(lv, LAMBDA o : Rank(T0, src, o) = r) \o byrank(r + 1)
        all == byrank(1)
        cut == SubSeq(all, 1, IF Len(all) < q.max THEN Len(all) ELSE q.max)
    IN ClosestRel(T0, src, q.max, Len(cut), cut, 1)
\* conversions: a PU with a local node is given back, nothing but local PUs / nodes appears
ThmNodesets == (Is("to_nodeset") => LET M == ToNodeset(T0, S) IN
                   /\ M \subseteq NumaOs
                   /\ (S \cap FromNodeset(T0, NumaOs)) \subseteq FromNodeset(T0, M)
                   /\ \A n \in M : FromNodeset(T0, {n}) \cap S # {})
               /\ (Is("from_nodeset") => FromNodeset(T0, S) \subseteq OCS(T0, 1))
\* "keeps at most one PU per core", only removes bits, leaves PUs outside cores alone
ThmSinglify == Is("singlify") => LET R == Singlified(T0, S, q.which) IN
  /\ R \subseteq S
  /\ \A c \in CoreObjs(T0) : Cardinality(R \cap OCS(T0, c)) <= 1 /\ (q.which = 0 /\ S \cap OCS(T0, c) # {} => Cardinality(R \cap OCS(T0, c)) = 1)
  /\ S \ UNION {OCS(T0, c) : c \in CoreObjs(T0)} \subseteq R
\* type -> depth -> type is the identity on present types; absent types get a neighbouring level
ThmTypeDepth == Is("type_lookup") => LET d == TypeDepthBF(T0, q.type) IN
  /\ (d >= 0 => T0.levels[d + 1].type = q.type)
  /\ (d = DEPTH_UNKNOWN) <=> (q.type \in NormalTypes /\ q.type \notin PresentTypes)
  /\ \E b \in -8..T0.depth : OrBelowRel(T0, TC0, q.type, b)
  /\ \E a \in -8..T0.depth : OrAboveRel(T0, TC0, q.type, a)
  /\ d = T0.tdepth[q.type + 1]                                                   \* agrees with the projection of hwloc_get_type_depth
ThmDepthType == (Is("depth_lookup") /\ q.depth >= 0 /\ q.depth < T0.depth) => TypeDepthBF(T0, T0.levels[q.depth + 1].type) \in {q.depth, DEPTH_MULTIPLE}
\* the documented recursive construction satisfies the relation (so the relation is satisfiable for every query)
ThmDistrib == (Is("distrib") /\ q.flags \in {0, 1} /\ q.n > 0) =>
  LET U == UNION {OCS(T0, q.roots[k]) : k \in DOMAIN q.roots}
      out == DistribDo(T0, q.roots, q.n, q.until, q.flags = 1)
      asr == [k \in DOMAIN out |-> <<>>]
  IN U # {} => /\ Len(out) = q.n
               /\ LET sets == [k \in DOMAIN out |-> LET RECURSIVE rl(_) rl(X) == IF X = {} THEN <<>> ELSE LET m == CHOOSE x \in X : \A y \in X : x <= y IN <<<<m, m>>>> \o rl(X \ {m}) IN rl(out[k])]
                  IN DistribRel(T0, q.roots, q.n, q.until, q.flags, 0, "0", sets, [k \in DOMAIN out |-> 0], 0)

\* hwloc_get_memory_parents_depth as projected agrees with the brute-force definition; an attribute never changes a single-level answer
ThmMemParents == Is("mem_parents_depth") => MemParentsDepthRel(T0, T0.mpdepth)
ThmTypeDepthAttr == Is("type_depth_attr") => (\E r \in -8..T0.depth : TypeDepthAttrRel(T0, q.type, q.gdepth, q.noattr, r))
                                             /\ (TypeDepthBF(T0, q.type) # DEPTH_MULTIPLE => TypeDepthAttrRel(T0, q.type, q.gdepth, q.noattr, TypeDepthBF(T0, q.type)))

View == <<q, done>>
\* emission: one descriptor per reachable query
Emit == done => PrintT(<<"Q", ToJson(q)>>)
=============================================================================
