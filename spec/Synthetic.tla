------------------------------ MODULE Synthetic ------------------------------
(***************************************************************************)
(* Synthetic topology descriptions (property C07).                         *)
(*                                                                         *)
(*  1. abstract descriptions and their concrete syntax  (Render)           *)
(*  2. what a description means: widths, index sequences, the expected     *)
(*     normal levels and NUMA nodes, and the relation                      *)
(*         BuildRel(d, F, s)                                               *)
(*     between a description, the type filters F of the topology it is     *)
(*     loaded into, and the summary s of the loaded topology               *)
(*  3. hwloc_topology_export_synthetic: ExportRetRel, SnprintfRel,         *)
(*     FlagTextRel and the round trip relation RoundTripRel                *)
(*  4. BuildDo: a constructive model of the build (used by MC_Synthetic to *)
(*     steer generation and to show that the relations are satisfiable)    *)
(*                                                                         *)
(* A summary s (logged by harness/hwv_synthetic.c, recomputed from the     *)
(* full projection by SumOf) is                                            *)
(*   [depth, rsym, lv: per normal level [type, nb, os, ar, mar, cs, size], *)
(*    numa: NUMA nodes in logical order [os, mem, cs, pd, pl]]             *)
(* Sizes are 4 limbs base 65536; cpusets are range lists.                  *)
(*                                                                         *)
(* Only the documentation is demanded (doc/hwloc.doxy "Synthetic           *)
(* topologies", hwloc.h, hwloc/export.h):                                  *)
(*  - levels, widths, arities as written; the root is a Machine;           *)
(*  - "NUMANode:3 actually means Group:3 where one NUMA node is attached    *)
(*    below each group", Groups "are removed when they do not bring any    *)
(*    structure" (hwloc.h), a Die identical to its Package may be filtered;*)
(*  - an object's location is its cpuset: the spec says which cpuset a     *)
(*    NUMA node has, not which of several objects with that cpuset is its  *)
(*    memory parent;                                                       *)
(*  - omitted sizes: 1GiB per NUMA node, 4MiB per L2 (the documented       *)
(*    example); other omitted cache sizes are not constrained;             *)
(*  - "2 3 4 5 6" = "Package:2 NUMANode:3 L2Cache:4 Core:5 PU:6"; for other *)
(*    numbers of untyped levels any choice of types is accepted.           *)
(***************************************************************************)
EXTENDS Topology, TLC

UNTYPED == -1
LevelTypes == {GROUP, PACKAGE, DIE, L3, L3I, L2, L2I, L1, L1I, CORE, NUMANODE}

Max(S) == CHOOSE x \in S : \A y \in S : y <= x
Min(S) == CHOOSE x \in S : \A y \in S : y >= x

(* ------------------------------------------------------------------ *)
(* 1. concrete syntax                                                  *)
(* ------------------------------------------------------------------ *)
\* spellings the documentation allows (case-insensitive, prefixes of at least two letters, documented aliases)
Spellings(T) ==
  CASE T = PACKAGE  -> {"pack", "Package", "PACKAGE", "pa"}
    [] T = DIE      -> {"die", "Die", "di"}
    [] T = CORE     -> {"core", "Core", "co"}
    [] T = PU       -> {"pu", "PU", "Pu"}
    [] T = GROUP    -> {"group", "Group", "gr"}
    [] T = NUMANODE -> {"node", "numa", "NUMANode", "nu"}
    [] T = L1       -> {"l1", "L1Cache", "l1d"}
    [] T = L2       -> {"l2", "L2Cache", "l2u"}
    [] T = L3       -> {"l3", "L3Cache", "l3u"}
    [] T = L1I      -> {"l1i", "L1iCache", "l1icache"}
    [] T = L2I      -> {"l2i", "L2iCache", "l2icache"}
    [] T = L3I      -> {"l3i", "L3iCache", "l3icache"}
    [] OTHER        -> {}

Units == {"", "kB", "KiB", "MB", "MiB", "GB", "GiB", "TB", "TiB"}
\* unit -> <<factor, how many times>>
UnitMul(u) == CASE u = "" -> <<1, 0>> [] u = "kB" -> <<1000, 1>> [] u = "KiB" -> <<1024, 1>>
                [] u = "MB" -> <<1000, 2>> [] u = "MiB" -> <<1024, 2>> [] u = "GB" -> <<1000, 3>>
                [] u = "GiB" -> <<1024, 3>> [] u = "TB" -> <<1000, 4>> [] u = "TiB" -> <<1024, 4>>
MulSmallL(a, m) == LET p1 == a[1] * m       c1 == p1 \div B16
                       p2 == a[2] * m + c1  c2 == p2 \div B16
                       p3 == a[3] * m + c2  c3 == p3 \div B16
                       p4 == a[4] * m + c3
                   IN <<p1 % B16, p2 % B16, p3 % B16, p4 % B16>>
RECURSIVE PowMul(_, _, _)
PowMul(a, m, k) == IF k = 0 THEN a ELSE PowMul(MulSmallL(a, m), m, k - 1)
\* a size attribute: <<>> (omitted), <<n, unit>> with n < 65536, or <<limbs>> (model-internal, never rendered)
SizeL(sz) == IF Len(sz) = 1 THEN sz[1] ELSE PowMul(<<sz[1], 0, 0, 0>>, UnitMul(sz[2])[1], UnitMul(sz[2])[2])
GiB1 == <<0, 16384, 0, 0>>
MiB4 == <<0, 64, 0, 0>>

NoIdx == [k |-> "none", v |-> <<>>]

RECURSIVE JoinS(_, _)
JoinS(s, sep) == IF s = <<>> THEN "" ELSE IF Len(s) = 1 THEN s[1] ELSE s[1] \o sep \o JoinS(Tail(s), sep)

RenderIdx(idx) ==
  CASE idx.k = "list"  -> "indexes=" \o JoinS([k \in DOMAIN idx.v |-> ToString(idx.v[k])], ",")
    [] idx.k = "types" -> "indexes=" \o JoinS([k \in DOMAIN idx.v |-> idx.v[k][1]], ":")
    [] idx.k = "loops" -> "indexes=" \o JoinS([k \in DOMAIN idx.v |-> ToString(idx.v[k][1]) \o "*" \o ToString(idx.v[k][2])], ":")
    [] OTHER -> ""
AttrList(key, size, idx) ==
  (IF size = <<>> THEN <<>> ELSE <<key \o "=" \o ToString(size[1]) \o size[2]>>) \o (IF idx.k = "none" THEN <<>> ELSE <<RenderIdx(idx)>>)
Paren(l) == IF l = <<>> THEN "" ELSE "(" \o JoinS(l, " ") \o ")"
SizeKey(T) == IF T \in CacheTypes THEN "size" ELSE "memory"
RenderAtt(a) == "[" \o a.name \o Paren(AttrList("memory", a.size, a.idx)) \o "]"
RenderLevel(L) == <<(IF L.T = UNTYPED THEN "" ELSE L.name \o ":") \o ToString(L.ar) \o Paren(AttrList(SizeKey(L.T), L.size, L.idx))>>
                  \o [k \in DOMAIN L.att |-> RenderAtt(L.att[k])]
RECURSIVE FlatLevels(_)
FlatLevels(lv) == IF lv = <<>> THEN <<>> ELSE RenderLevel(Head(lv)) \o FlatLevels(Tail(lv))
Render(d) == JoinS((IF d.rattr = <<>> THEN <<>> ELSE <<Paren(AttrList("memory", d.rattr, NoIdx))>>)
                   \o [k \in DOMAIN d.ratt |-> RenderAtt(d.ratt[k])] \o FlatLevels(d.lv), " ")

(* ------------------------------------------------------------------ *)
(* well-formed abstract descriptions (what the model may emit)         *)
(* ------------------------------------------------------------------ *)
NL(d) == Len(d.lv)
SizeOK(sz) == sz = <<>> \/ (Len(sz) = 2 /\ sz[1] \in 1..65535 /\ sz[2] \in Units)
AttOK(a) == a.name \in Spellings(NUMANODE) /\ SizeOK(a.size) /\ a.idx.k \in {"none", "list"}
RECURSIVE FlatAtt(_, _)
FlatAtt(lv, i) == IF i > Len(lv) THEN <<>> ELSE lv[i].att \o FlatAtt(lv, i + 1)
AllAtt(d) == d.ratt \o FlatAtt(d.lv, 1)
Untyped(d) == \A i \in 1..NL(d) : d.lv[i].T = UNTYPED
HasNumaLevel(d) == \E i \in 1..NL(d) : d.lv[i].T = NUMANODE
\* conventional order of the non-Group, non-NUMA types
TypeRank(T) == CASE T = PACKAGE -> 1 [] T = DIE -> 2 [] T = L3 -> 3 [] T = L3I -> 4 [] T = L2 -> 5 [] T = L2I -> 6 [] T = L1 -> 7 [] T = L1I -> 8
                 [] T = CORE -> 9 [] T = PU -> 10 [] OTHER -> 0
DescOK(d) ==
  /\ NL(d) >= 1
  /\ SizeOK(d.rattr)
  /\ \A k \in DOMAIN d.ratt : AttOK(d.ratt[k])
  /\ \A i \in 1..NL(d) : LET L == d.lv[i] IN
       /\ L.ar >= 1
       /\ \A k \in DOMAIN L.att : AttOK(L.att[k])
       /\ L.idx.k \in {"none", "list", "types", "loops"}
       /\ SizeOK(L.size)
       /\ L.size # <<>> => L.T \in CacheTypes \cup {NUMANODE}
       /\ IF L.T = UNTYPED THEN L.name = "" ELSE L.name \in Spellings(L.T)
  /\ Untyped(d) \/ (\A i \in 1..NL(d) : d.lv[i].T # UNTYPED)
  /\ d.lv[NL(d)].att = <<>>
  /\ ~Untyped(d) =>
       /\ d.lv[NL(d)].T = PU
       /\ \A i \in 1..(NL(d) - 1) : d.lv[i].T \in LevelTypes
       \* one level per type except Group, in the conventional order
       /\ \A i, j \in 1..NL(d) : (i < j /\ TypeRank(d.lv[i].T) > 0 /\ TypeRank(d.lv[j].T) > 0) => TypeRank(d.lv[i].T) < TypeRank(d.lv[j].T)
       /\ Cardinality({i \in 1..NL(d) : d.lv[i].T = NUMANODE}) <= 1
  /\ ~(HasNumaLevel(d) /\ AllAtt(d) # <<>>)
  \* indexes only on the PU level, the NUMA level, and at most one attached item
  /\ \A i \in 1..NL(d) : d.lv[i].idx.k # "none" => (i = NL(d) \/ d.lv[i].T = NUMANODE)
  /\ Cardinality({k \in DOMAIN AllAtt(d) : AllAtt(d)[k].idx.k # "none"}) <= 1

(* ------------------------------------------------------------------ *)
(* 2. meaning                                                          *)
(* ------------------------------------------------------------------ *)
RECURSIVE WidthAt(_, _)
WidthAt(d, i) == IF i = 0 THEN 1 ELSE d.lv[i].ar * WidthAt(d, i - 1)
NPU(d) == WidthAt(d, NL(d))
Ident(n) == [p \in 1..n |-> p - 1]

\* interleaving loops <<step, nb>>: index of the j-th object = sum ((j / step_i) mod nb_i) * mul_i, mul_1 = 1, mul_(i+1) = mul_i * nb_i;
\* when the loops do not cover the level, one loop of step 1 over the remainder is appended
RECURSIVE ProdNb(_)
ProdNb(loops) == IF loops = <<>> THEN 1 ELSE Head(loops)[2] * ProdNb(Tail(loops))
LoopsFull(loops, total) == IF ProdNb(loops) = total THEN loops ELSE Append(loops, <<1, total \div ProdNb(loops)>>)
RECURSIVE IlvAt(_, _, _, _)
IlvAt(loops, j, k, mul) == IF k > Len(loops) THEN 0
                           ELSE ((j \div loops[k][1]) % loops[k][2]) * mul + IlvAt(loops, j, k + 1, mul * loops[k][2])
Interleave(loops, total) == LET L == LoopsFull(loops, total) IN [p \in 1..total |-> IlvAt(L, p - 1, 1, 1)]
IsPerm(seq, n) == Len(seq) = n /\ SeqSet(seq) = 0..(n - 1)

\* "indexes=numa:core": the named types are levels of the description; a loop runs over the objects of that level
\* inside one object of the nearest named level above it (or the root)
FirstLevelOf(d, T) == Min({i \in 1..NL(d) : d.lv[i].T = T})
TypeLoops(d, names, lvl) ==
  LET li == [k \in DOMAIN names |-> FirstLevelOf(d, names[k][2])]
      prev(k) == LET S == {li[m] : m \in DOMAIN li} \cap 0..(li[k] - 1) IN IF S = {} THEN 0 ELSE Max(S)
  IN [k \in DOMAIN names |-> <<WidthAt(d, lvl) \div WidthAt(d, li[k]), WidthAt(d, li[k]) \div WidthAt(d, prev(k))>>]
IdxSeq(d, lvl, idx, total) ==
  CASE idx.k = "list"  -> idx.v
    [] idx.k = "types" -> Interleave(TypeLoops(d, idx.v, lvl), total)
    [] idx.k = "loops" -> Interleave(idx.v, total)
    [] OTHER -> Ident(total)
TypeNamesOK(d, names, lvl) ==
  /\ \A k \in DOMAIN names : \E i \in 1..lvl : d.lv[i].T = names[k][2] /\ names[k][1] \in Spellings(names[k][2])
  /\ \A a, b \in DOMAIN names : a # b => names[a][2] # names[b][2]
IdxOK(d, lvl, idx, total) ==
  /\ idx.k = "types" => TypeNamesOK(d, idx.v, lvl)
  /\ idx.k = "loops" => \A k \in DOMAIN idx.v : idx.v[k][1] >= 1 /\ idx.v[k][2] >= 1 /\ total % ProdNb(idx.v) = 0
  /\ Len(IdxSeq(d, lvl, idx, total)) = total
  /\ NoDup(IdxSeq(d, lvl, idx, total))
  /\ idx.k \in {"types", "loops"} => IsPerm(IdxSeq(d, lvl, idx, total), total)
PUIdx(d) == IdxSeq(d, NL(d), d.lv[NL(d)].idx, NPU(d))

\* the os indexes of the j-th (0-based) object of a level of width w, given the PU index sequence
BlockOf(pu, w, j) == LET sz == Len(pu) \div w IN {pu[p] : p \in (j * sz + 1)..((j + 1) * sz)}

\* documented default types: "2 3 4 5 6" = "Package:2 NUMANode:3 L2Cache:4 Core:5 PU:6"
DocDefault5 == <<PACKAGE, NUMANODE, L2, CORE, PU>>
WithTypes(d, ty) == [d EXCEPT !.lv = [i \in 1..NL(d) |-> [d.lv[i] EXCEPT !.T = ty[i]]]]

\* ---- type filters (hwloc.h, hwloc_topology_set_type_filter) ----
\* The description is loaded into a topology whose type filters say which levels exist at all:
\*  KEEP_ALL       "Keep all objects of this type.  Cannot be set for Group"
\*  KEEP_NONE      "Ignore all objects of this type.  The bottom-level type PU, the NUMANODE type and the top-level
\*                 type MACHINE may not be ignored"
\*  KEEP_STRUCTURE "Only ignore objects if their entire level does not bring any structure ... An object brings
\*                 structure when it has multiple children and it is not the only child of its parent"
\*  KEEP_IMPORTANT "equivalent to KEEP_ALL for Normal, Memory and Misc types"
\* defaults: everything is kept, except instruction caches, I/O, Misc and memory-side caches (KEEP_NONE) and
\* Groups (KEEP_STRUCTURE).  A filter is a function from the type numbers to the kinds.
KEEP_ALL == 0   KEEP_NONE == 1   KEEP_STRUCTURE == 2   KEEP_IMPORTANT == 3
DefaultFlt == [T \in 0..(NTYPES - 1) |->
                 IF T = GROUP THEN KEEP_STRUCTURE
                 ELSE IF T \in ICacheTypes \cup IOTypes \cup {MISC, MEMCACHE} THEN KEEP_NONE ELSE KEEP_ALL]
FilterCallOK(T, k) == /\ T \in 0..(NTYPES - 1) /\ k \in 0..3
                      /\ T \in {PU, NUMANODE, MACHINE} => k = KEEP_ALL
                      /\ T = GROUP => k \in {KEEP_NONE, KEEP_STRUCTURE}
                      /\ T \in IOTypes \cup {MISC} => k # KEEP_STRUCTURE
\* "0 on success, -1 on error": the documented impossible combinations are refused, the others accepted
FilterCallRel(T, k, ret) == ret \in {0, -1} /\ (ret = 0 <=> FilterCallOK(T, k))
ApplyFlt(F, T, k) == [F EXCEPT ![T] = IF k = KEEP_IMPORTANT /\ T \notin IOTypes THEN KEEP_ALL ELSE k]
\* calls = sequence of <<type, kind>> (or <<type, kind, ret>>); the refused ones change nothing
RECURSIVE FoldFlt(_, _)
FoldFlt(F, calls) == IF calls = <<>> THEN F
                     ELSE FoldFlt(IF FilterCallOK(Head(calls)[1], Head(calls)[2]) THEN ApplyFlt(F, Head(calls)[1], Head(calls)[2]) ELSE F, Tail(calls))
FltOf(calls) == FoldFlt(DefaultFlt, calls)

\* ---- expected normal levels ----
\* X: the root and the described levels as [T, w, mem, k]; k is the filter kind of the type.  A NUMA level is a Group with
\* memory ("NUMANode:3 actually means Group:3 where one NUMA node is attached below each group").  A level whose type is
\* ignored is not built, but what is attached to it is: its NUMA nodes keep their cpuset, sizes and indexes (NumaRel does
\* not look at the levels), and they are hosted like those of a NUMA level, by a Group when Groups are not ignored.
\* Entries with k = KEEP_NONE stay in X only to say that memory hangs at that width.
DescLevels(d, F) ==
  <<[T |-> MACHINE, w |-> 1, mem |-> d.ratt # <<>> \/ (AllAtt(d) = <<>> /\ ~HasNumaLevel(d)), k |-> KEEP_ALL]>> \o
  [i \in 1..NL(d) |-> LET m == d.lv[i].att # <<>> \/ d.lv[i].T = NUMANODE
                          T1 == IF d.lv[i].T = NUMANODE THEN GROUP ELSE d.lv[i].T
                          T2 == IF F[T1] = KEEP_NONE /\ m THEN GROUP ELSE T1
                      IN [T |-> T2, w |-> WidthAt(d, i), mem |-> m, k |-> F[T2]]]
\* Which levels of X survive, width by width (the levels of one width have the same cpusets, they are adjacent):
\*  - the levels whose type is kept (KEEP_ALL) survive; a Die level as wide as a kept Package level may be merged into it;
\*  - a KEEP_STRUCTURE level (Groups by default) as wide as a surviving kept level brings no structure: it is removed;
\*    but memory is never attached to a PU: when only the PU level has that width and memory hangs there, one
\*    KEEP_STRUCTURE level stays to host it;
\*  - among several KEEP_STRUCTURE levels of a width that no kept level has, one survives (which one is not documented);
\*  - KEEP_NONE levels never appear.
Widths(X) == {X[i].w : i \in DOMAIN X}
ClassKeeps(X, w, memExported) ==
  LET C == {i \in DOMAIN X : X[i].w = w}
      hard == {i \in C : X[i].k = KEEP_ALL}
      soft == {i \in C : X[i].k = KEEP_STRUCTURE}
      mem == memExported /\ \E i \in C : X[i].mem
      dies == {i \in hard : X[i].T = DIE /\ \E j \in hard : X[j].T = PACKAGE}
      hards == {hard, hard \ dies}
  IN IF soft = {} \/ (hard # {} /\ ~((\A i \in hard : X[i].T = PU) /\ mem)) THEN hards
     ELSE {h \cup {j} : h \in hards, j \in soft}
RECURSIVE KeepSets(_, _, _)
KeepSets(X, W, memExported) ==
  IF W = {} THEN {{}}
  ELSE LET w == CHOOSE x \in W : TRUE IN {a \cup b : a \in ClassKeeps(X, w, memExported), b \in KeepSets(X, W \ {w}, memExported)}
StructOfSet(X, S) == LET kept == SelectSeq([i \in DOMAIN X |-> i], LAMBDA i : i \in S)
                     IN [k \in DOMAIN kept |-> <<X[kept[k]].T, X[kept[k]].w>>]
Structs(X, memExported) == {StructOfSet(X, S) : S \in KeepSets(X, Widths(X), memExported)}
\* one of them, the way hwloc chooses (steers the model only): the Die is merged, the KEEP_STRUCTURE level of the highest
\* merge priority stays (Core, Package, Die, caches, instruction caches, Group)
MergePrio(T) == CASE T = CORE -> 60 [] T = PACKAGE -> 40 [] T = DIE -> 30 [] T \in DCacheTypes -> 20 [] T \in ICacheTypes -> 19 [] OTHER -> 0
ClassPick(X, w) ==
  LET C == {i \in DOMAIN X : X[i].w = w}
      hard == {i \in C : X[i].k = KEEP_ALL}
      soft == {i \in C : X[i].k = KEEP_STRUCTURE}
      h == hard \ {i \in hard : X[i].T = DIE /\ \E j \in hard : X[j].T = PACKAGE}
      best == CHOOSE j \in soft : \A x \in soft : MergePrio(X[j].T) > MergePrio(X[x].T) \/ (MergePrio(X[j].T) = MergePrio(X[x].T) /\ j <= x)
  IN IF soft = {} \/ (hard # {} /\ ~((\A i \in hard : X[i].T = PU) /\ \E i \in C : X[i].mem)) THEN h ELSE h \cup {best}
StructOf(X) == StructOfSet(X, UNION {ClassPick(X, w) : w \in Widths(X)})

SStruct(s) == [k \in DOMAIN s.lv |-> <<s.lv[k].type, s.lv[k].nb>>]
PUos(s) == s.lv[Len(s.lv)].os

\* ---- expected NUMA nodes ----
AttAt(d, i) == IF i = 0 THEN d.ratt ELSE d.lv[i].att
MemOf(sz) == IF sz = <<>> THEN GiB1 ELSE SizeL(sz)
\* attached instances <<level, object, k>>
AttInst(d) == UNION {{<<i, j, k>> : j \in 0..(WidthAt(d, i) - 1), k \in DOMAIN AttAt(d, i)} : i \in 0..(NL(d) - 1)}
AttDepths(d) == {i \in 0..(NL(d) - 1) : AttAt(d, i) # <<>>}
AttIdxList(d) == LET A == AllAtt(d)  S == {k \in DOMAIN A : A[k].idx.k = "list"}
                 IN IF S = {} THEN Ident(Cardinality(AttInst(d))) ELSE A[Min(S)].idx.v

NumaPair(n) == <<RSet(n.cs), n.mem>>
SameBag(f, F, g, G) ==        \* f over finite set F and g over finite set G take every value equally often
  /\ Cardinality(F) = Cardinality(G)
  /\ \A x \in F : Cardinality({y \in F : f[y] = f[x]}) = Cardinality({y \in G : g[y] = f[x]})

NumaRel(d, pu, s) ==
  IF HasNumaLevel(d) THEN
    LET i == FirstLevelOf(d, NUMANODE)  w == WidthAt(d, i)
        ni == IdxSeq(d, i, d.lv[i].idx, w) IN
    /\ Len(s.numa) = w
    /\ \A j \in 0..(w - 1) : \E k \in DOMAIN s.numa :
          s.numa[k].os = ni[j + 1] /\ RSet(s.numa[k].cs) = BlockOf(pu, w, j) /\ s.numa[k].mem = MemOf(d.lv[i].size)
  ELSE IF AllAtt(d) = <<>> THEN
    \* "A NUMA level (with a single NUMA node) is automatically added if needed"
    /\ Len(s.numa) = 1 /\ s.numa[1].os = 0 /\ RSet(s.numa[1].cs) = SeqSet(pu) /\ s.numa[1].mem = GiB1
  ELSE
    LET I == AttInst(d)
        exp == [e \in I |-> <<BlockOf(pu, WidthAt(d, e[1]), e[2]), MemOf(AttAt(d, e[1])[e[3]].size)>>]
        got == [k \in DOMAIN s.numa |-> NumaPair(s.numa[k])]
        A == AttIdxList(d) IN
    /\ SameBag(exp, I, got, DOMAIN s.numa)
    /\ {s.numa[k].os : k \in DOMAIN s.numa} = SeqSet(A)
    \* one attachment depth: the nodes of the j-th object carry the j-th slice of the index list
    /\ Cardinality(AttDepths(d)) = 1 =>
         LET i == CHOOSE x \in AttDepths(d) : TRUE  m == Len(AttAt(d, i))  w == WidthAt(d, i) IN
         \A j \in 0..(w - 1) : {s.numa[k].os : k \in {x \in DOMAIN s.numa : RSet(s.numa[x].cs) = BlockOf(pu, w, j)}}
                               = {A[p] : p \in (j * m + 1)..((j + 1) * m)}

\* ---- the relation for a fully typed description ----
UniformArities(s) ==
  \A k \in DOMAIN s.lv : \A r \in DOMAIN s.lv[k].ar :
     s.lv[k].ar[r] = IF k = Len(s.lv) THEN 0 ELSE s.lv[k + 1].nb \div s.lv[k].nb
LevelSets(pu, s) ==
  \A k \in DOMAIN s.lv : LET w == s.lv[k].nb IN
     /\ Len(s.lv[k].cs) = w /\ Len(s.lv[k].os) = w /\ Len(s.lv[k].ar) = w /\ Len(s.lv[k].mar) = w
     /\ {RSet(s.lv[k].cs[r]) : r \in 1..w} = {BlockOf(pu, w, j) : j \in 0..(w - 1)}
PUSets(s) == LET L == s.lv[Len(s.lv)] IN \A r \in DOMAIN L.os : RSet(L.cs[r]) = {L.os[r]}
CacheSizes(d, s) ==
  \A k \in DOMAIN s.lv : s.lv[k].type \in CacheTypes =>
     LET i == FirstLevelOf(d, s.lv[k].type) IN
     /\ Len(s.lv[k].size) = s.lv[k].nb
     /\ d.lv[i].size # <<>> => \A r \in DOMAIN s.lv[k].size : s.lv[k].size[r] = SizeL(d.lv[i].size)
     /\ (d.lv[i].size = <<>> /\ s.lv[k].type = L2) => \A r \in DOMAIN s.lv[k].size : s.lv[k].size[r] = MiB4
     /\ \A r \in DOMAIN s.lv[k].size : s.lv[k].size[r] = s.lv[k].size[1]

BuildRelTyped(d, F, s) ==
  LET pu == PUIdx(d) IN
  /\ s.depth = Len(s.lv) /\ s.depth >= 2
  /\ SStruct(s) \in Structs(DescLevels(d, F), TRUE)
  /\ s.rsym = 1
  /\ UniformArities(s)
  /\ LevelSets(pu, s)
  /\ PUSets(s)
  /\ CacheSizes(d, s)
  /\ NumaRel(d, pu, s)

\* untyped levels: the documented example fixes the types of five numbers; otherwise hwloc "chooses all types
\* according to usual topologies": any assignment of distinct level types (several Groups allowed) is accepted
\* candidate types of the i-th untyped level: the types of the levels of s that are as wide, a Group (removed or
\* kept), or the NUMA level
CandidatesAt(d, s, i) ==
  IF i = NL(d) THEN {PU}
  ELSE ({s.lv[k].type : k \in {x \in DOMAIN s.lv : s.lv[x].nb = WidthAt(d, i)}} \cap LevelTypes) \cup {GROUP}
       \cup (IF AllAtt(d) = <<>> THEN {NUMANODE} ELSE {})
RECURSIVE TypeSeqs(_, _, _)
TypeSeqs(d, s, i) == IF i > NL(d) THEN {<<>>} ELSE {<<x>> \o r : x \in CandidatesAt(d, s, i), r \in TypeSeqs(d, s, i + 1)}
Assignments(d, s) ==
  {ty \in TypeSeqs(d, s, 1) : \A i, j \in 1..NL(d) : (i # j /\ ty[i] = ty[j]) => ty[i] = GROUP}
\* many untyped levels: only what does not depend on the types (the PUs and their indexes, widths among the written ones)
BuildRelUntypedDeep(d, s) ==
  LET pu == PUIdx(d) IN
  /\ s.depth = Len(s.lv) /\ s.depth >= 2 /\ s.rsym = 1
  /\ s.lv[1].type = MACHINE /\ s.lv[Len(s.lv)].type = PU /\ s.lv[Len(s.lv)].nb = NPU(d)
  /\ \A k \in DOMAIN s.lv : \E i \in 0..NL(d) : s.lv[k].nb = WidthAt(d, i)
  /\ UniformArities(s) /\ LevelSets(pu, s) /\ PUSets(s)
  /\ Len(s.numa) >= 1
\* F: the type filters of the topology the description is loaded into
BuildRel(d, F, s) ==
  IF ~Untyped(d) THEN BuildRelTyped(d, F, s)
  ELSE IF NL(d) = 5 /\ AllAtt(d) = <<>> THEN BuildRelTyped(WithTypes(d, DocDefault5), F, s)
  ELSE IF NL(d) <= 5 THEN \E ty \in Assignments(d, s) : BuildRelTyped(WithTypes(d, ty), F, s)
  ELSE BuildRelUntypedDeep(d, s)

\* hwloc.h: "If description was properly parsed and describes a valid topology configuration, this function
\* returns 0. Otherwise -1 is returned and errno is set to EINVAL."  The number of levels hwloc accepts is not
\* documented: descriptions deeper than MustAcceptLevels may be refused.
MustAcceptLevels == 32
SetRel(d, ret, err) ==
  /\ ret \in {0, -1}
  /\ ret = -1 => err = "EINVAL"
  /\ NL(d) <= MustAcceptLevels => ret = 0
WeakSetRel(ret, err) == ret \in {0, -1} /\ (ret = -1 => err = "EINVAL")

(* ------------------------------------------------------------------ *)
(* summary of a full projection (cross-check of the recorder)          *)
(* ------------------------------------------------------------------ *)
RECURSIVE NormAnc(_, _)
NormAnc(t, i) == IF IsNormal(O(t, i)) THEN i ELSE NormAnc(t, O(t, i).parent)
SumOf(t) ==
  [depth |-> t.depth, rsym |-> O(t, 1).sym,
   lv |-> [d \in 1..t.depth |-> LET L == t.levels[d] IN
            [type |-> L.type, nb |-> L.nb,
             os  |-> [r \in DOMAIN L.objs |-> O(t, L.objs[r]).os],
             ar  |-> [r \in DOMAIN L.objs |-> O(t, L.objs[r]).arity],
             mar |-> [r \in DOMAIN L.objs |-> O(t, L.objs[r]).marity],
             cs  |-> [r \in DOMAIN L.objs |-> O(t, L.objs[r]).cs],
             size |-> IF L.type \in CacheTypes THEN [r \in DOMAIN L.objs |-> O(t, L.objs[r]).attr.size] ELSE <<>>]],
   numa |-> LET L == t.levels[LevelIdx(t, -3)] IN
            [r \in DOMAIN L.objs |-> LET o == O(t, L.objs[r])  p == O(t, NormAnc(t, o.parent)) IN
              [os |-> o.os, mem |-> o.attr.local, cs |-> o.cs, pd |-> p.depth, pl |-> p.lidx]]]

(* ------------------------------------------------------------------ *)
(* 3. export                                                           *)
(* ------------------------------------------------------------------ *)
Has(f, bit) == (f \div bit) % 2 = 1
F_NOEXT == 1   F_NOATTRS == 2   F_V1 == 4   F_IGNMEM == 8
KnownFlags(f) == f >= 0 /\ f < 16

\* "memory children should be attached in a symmetric way (e.g. the same number of memory children below each
\* Package object, etc.)"
MemSym(s) == \A k \in DOMAIN s.lv : \A r \in DOMAIN s.lv[k].mar : s.lv[k].mar[r] = s.lv[k].mar[1]
\* V1: "export single NUMA node child as normal intermediate levels, when possible ... this may fail if some objects
\* have multiple local NUMA nodes"
V1Exportable(s) == /\ \A k \in DOMAIN s.lv : \A r \in DOMAIN s.lv[k].mar : s.lv[k].mar[r] <= 1
                   /\ \A a, b \in DOMAIN s.numa : s.numa[a].pd = s.numa[b].pd
MustSucceed(s, f) == /\ KnownFlags(f) /\ s.rsym = 1
                     /\ (Has(f, F_IGNMEM) \/ MemSym(s))
                     /\ (Has(f, F_V1) => V1Exportable(s))
MustFail(s, f) == KnownFlags(f) /\ (s.rsym # 1 \/ (~Has(f, F_IGNMEM) /\ ~MemSym(s)))
ExportRetRel(s, f, ret) == /\ ret >= -1
                           /\ MustSucceed(s, f) => ret >= 0
                           /\ MustFail(s, f) => ret = -1

\* one call in a guarded buffer: c = <<buflen, ret, nul, glo, ghi, txt, errno>>
SnprintfRel(full, rbig, c) ==
  /\ c[2] = rbig                                        \* the same return value whatever the buffer length
  /\ c[4] = 0 /\ c[5] = 0                               \* nothing written outside [buf, buf+buflen)
  /\ rbig >= 0 =>
       /\ rbig = Len(full)                              \* the length of the untruncated text
       /\ c[1] > 0 => (c[3] >= 0 /\ c[3] < c[1])        \* NUL-terminated inside the buffer
       /\ Len(c[6]) <= Len(full) /\ SubSeq(full, 1, Len(c[6])) = c[6]      \* truncation gives a prefix
       /\ c[1] > Len(full) => c[6] = full               \* complete when it fits

Contains(s, p) == \E i \in 1..(Len(s) - Len(p) + 1) : SubSeq(s, i, i + Len(p) - 1) = p
\* export.h: what each flag removes from the text
FlagTextRel(f, full) ==
  /\ Has(f, F_NOATTRS) => ~Contains(full, "(")
  /\ Has(f, F_V1) => ~Contains(full, "[")
  /\ Has(f, F_IGNMEM) => ~Contains(full, "[") /\ ~Contains(full, "NUMANode")
  /\ Has(f, F_NOEXT) => \A n \in {"L1", "L2", "L3", "L4", "L5"} : ~Contains(full, n)

\* ---- round trip ----
\* logical positions (1-based) of the PUs of a cpuset
PosSet(s, cs) == {r \in DOMAIN PUos(s) : PUos(s)[r] \in RSet(cs)}
AttachSeq(s) == [k \in DOMAIN s.numa |-> PosSet(s, s.numa[k].cs)]
\* types that the flags degrade: "Export extended types ... as basic types" / "as expected in hwloc 1.x"
MapType(T, f) == IF T = DIE /\ (Has(f, F_NOEXT) \/ Has(f, F_V1)) THEN GROUP ELSE T
LevelsOfSummary(s, f, F) ==
  [k \in DOMAIN s.lv |-> [T |-> MapType(s.lv[k].type, f), w |-> s.lv[k].nb, mem |-> \E r \in DOMAIN s.lv[k].mar : s.lv[k].mar[r] > 0,
                          k |-> F[MapType(s.lv[k].type, f)]]]
CacheSizesKept(s1, s2) ==
  \A k2 \in DOMAIN s2.lv : s2.lv[k2].type \in CacheTypes =>
     \E k1 \in DOMAIN s1.lv : s1.lv[k1].type = s2.lv[k2].type /\ s1.lv[k1].nb = s2.lv[k2].nb /\ s1.lv[k1].size = s2.lv[k2].size
NumaAttrs(s) == [k \in DOMAIN s.numa |-> <<s.numa[k].os, s.numa[k].mem>>]
NumaOs(s) == [k \in DOMAIN s.numa |-> s.numa[k].os]
\* The string has one "[NUMANode(memory=..)]" item per memory child of a level, for all objects of the level: it can
\* only describe sizes that are the same, slot by slot, below every object of the level.  (When they are not - nodes
\* of different sizes whose os_indexes order them differently below different parents - the export still succeeds and
\* the sizes of the reloaded nodes are permuted; reported as an observation, not demanded.)
MemSlots(s, pd, pl) == LET idx == SelectSeq([k \in DOMAIN s.numa |-> k], LAMBDA k : s.numa[k].pd = pd /\ s.numa[k].pl = pl)
                       IN [x \in DOMAIN idx |-> s.numa[idx[x]].mem]
SlotUniform(s) == \A a, b \in DOMAIN s.numa : s.numa[a].pd = s.numa[b].pd => MemSlots(s, s.numa[a].pd, s.numa[a].pl) = MemSlots(s, s.numa[b].pd, s.numa[b].pl)

\* rl = the reload event: [text, set, load, sum, re]; F = the type filters of both topologies
RoundTripRel(s1, F, f, rl) ==
  /\ rl.set = 0 /\ rl.load = 0
  /\ LET s2 == rl.sum IN
     /\ s2.depth = Len(s2.lv)
     /\ SStruct(s2) \in Structs(LevelsOfSummary(s1, f, F), ~Has(f, F_IGNMEM))
     /\ UniformArities(s2)
     /\ s2.rsym = 1
     /\ IF Has(f, F_NOATTRS) THEN PUos(s2) = Ident(Len(PUos(s2)))
        ELSE PUos(s2) = PUos(s1) /\ CacheSizesKept(s1, s2)
     /\ (~Has(f, F_NOATTRS) /\ ~Has(f, F_IGNMEM)) => NumaOs(s2) = NumaOs(s1) /\ (SlotUniform(s1) => NumaAttrs(s2) = NumaAttrs(s1))
     \* IGNORE_MEMORY "behaves as if there was a single machine-wide NUMA node"
     /\ Has(f, F_IGNMEM) => Len(s2.numa) = 1 /\ RSet(s2.numa[1].cs) = SeqSet(PUos(s2))
     /\ (~Has(f, F_V1) /\ ~Has(f, F_IGNMEM)) => AttachSeq(s2) = AttachSeq(s1)
  \* "exporting that one again returns the same string" - unless a level of the text is a Group that hwloc.h says
  \* is removed at load (it brings no structure): then the second topology has a level less than the text
  /\ SStruct(rl.sum) = [k \in DOMAIN s1.lv |-> <<MapType(s1.lv[k].type, f), s1.lv[k].nb>>] =>
       \A x \in DOMAIN rl.re : rl.re[x][1] = f => (rl.re[x][2] = Len(rl.text) /\ rl.re[x][3] = rl.text)

(* ------------------------------------------------------------------ *)
(* 4. constructive build (model)                                       *)
(* ------------------------------------------------------------------ *)
\* default types chosen by hwloc for untyped levels (steers the model only; BuildRel does not use it):
\* priority numa, package, core, up to 4 caches, groups; order groups, package, numa, l3, l2, l1, l1i, core
ModelDefaultTypes(n, hasAtt) ==          \* n = number of levels including the PU level
  LET c == n - 1
      nn == IF c >= 1 /\ ~hasAtt THEN 1 ELSE 0
      np == IF c - nn >= 1 THEN 1 ELSE 0
      nc == IF c - nn - np >= 1 THEN 1 ELSE 0
      rest == c - nn - np - nc
      nca == IF rest > 4 THEN 4 ELSE rest
      ng == rest - nca
      caches == CASE nca = 0 -> <<>> [] nca = 1 -> <<L2>> [] nca = 2 -> <<L2, L1>> [] nca = 3 -> <<L3, L2, L1>> [] OTHER -> <<L3, L2, L1, L1I>>
  IN [g \in 1..ng |-> GROUP] \o (IF np = 1 THEN <<PACKAGE>> ELSE <<>>) \o (IF nn = 1 THEN <<NUMANODE>> ELSE <<>>)
     \o caches \o (IF nc = 1 THEN <<CORE>> ELSE <<>>) \o <<PU>>
Resolved(d) == IF Untyped(d) THEN WithTypes(d, ModelDefaultTypes(NL(d), AllAtt(d) # <<>>)) ELSE d

RECURSIVE SortBy(_, _)        \* sort a set of block numbers by the smallest os index of their block
SortBy(S, key) == IF S = {} THEN <<>> ELSE LET m == CHOOSE x \in S : \A y \in S : key[x] <= key[y] IN <<m>> \o SortBy(S \ {m}, key)
SetRanges(S) ==               \* a finite set of naturals as the range list of project.h
  LET starts == {x \in S : x - 1 \notin S}
      st == SortBy(starts, [x \in starts |-> x])
  IN [k \in DOMAIN st |-> <<st[k], Min({y \in S : y >= st[k] /\ y + 1 \notin S})>>]

\* order of the blocks of width ws[k] in the tree whose children are sorted by cpuset: ws = increasing widths
RECURSIVE OrderAt(_, _, _)
OrderAt(pu, ws, k) ==
  IF k = 1 THEN <<0>>
  ELSE LET up == OrderAt(pu, ws, k - 1)
           a == ws[k] \div ws[k - 1]
           kids(j) == SortBy((j * a)..(j * a + a - 1), [c \in (j * a)..(j * a + a - 1) |-> Min(BlockOf(pu, ws[k], c))])
           RECURSIVE cat(_)
           cat(r) == IF r > Len(up) THEN <<>> ELSE kids(up[r]) \o cat(r + 1)
       IN cat(1)

\* description-order post-order numbering of the attached NUMA nodes: sequence of <<level, object, k>>
RECURSIVE PostAtt(_, _, _)
PostAtt(d, i, j) ==
  LET own == [k \in DOMAIN AttAt(d, i) |-> <<i, j, k>>]
      a == IF i < NL(d) THEN d.lv[i + 1].ar ELSE 0
      RECURSIVE below(_)
      below(c) == IF c >= a THEN <<>> ELSE PostAtt(d, i + 1, j * a + c) \o below(c + 1)
  IN IF i >= NL(d) THEN <<>> ELSE below(0) \o own

BuildDo(d0, F) ==
  LET d == Resolved(d0)
      pu == PUIdx(d)
      X == DescLevels(d, F)
      st == StructOf(X)
      ws == [k \in DOMAIN st |-> st[k][2]]
      ord == [k \in DOMAIN st |-> OrderAt(pu, ws, k)]
      \* all NUMA nodes as [os, mem, blk = <<w, j>>]
      post == PostAtt(d, 0, 0)
      A == AttIdxList(d)
      nodes == IF HasNumaLevel(d) THEN
                 LET i == FirstLevelOf(d, NUMANODE)  w == WidthAt(d, i)  ni == IdxSeq(d, i, d.lv[i].idx, w) IN
                 [j \in 1..w |-> [os |-> ni[j], mem |-> MemOf(d.lv[i].size), w |-> w, j |-> j - 1]]
               ELSE IF AllAtt(d) = <<>> THEN <<[os |-> 0, mem |-> GiB1, w |-> 1, j |-> 0]>>
               ELSE [p \in DOMAIN post |-> [os |-> A[p], mem |-> MemOf(AttAt(d, post[p][1])[post[p][3]].size),
                                            w |-> WidthAt(d, post[p][1]), j |-> post[p][2]]]
      \* the level hosting the memory of width w: the first kept level of that width that is not the PU level; when
      \* there is none (the level is ignored and so are Groups) the nearest wider object above
      hostw(w) == Max({st[k][2] : k \in {x \in DOMAIN st : st[x][2] <= w /\ st[x][1] # PU}})
      host(w) == Min({k \in DOMAIN st : st[k][2] = hostw(w) /\ st[k][1] # PU})
      nodesAt(k, j) == {p \in DOMAIN nodes : host(nodes[p].w) = k /\ nodes[p].j \div (nodes[p].w \div ws[k]) = j}
      lvrec(k) == LET w == ws[k] IN
         [type |-> st[k][1], nb |-> w,
          os  |-> [r \in 1..w |-> IF st[k][1] = PU THEN Min(BlockOf(pu, w, ord[k][r])) ELSE IF st[k][1] \in CacheTypes \cup {GROUP} THEN -1 ELSE ord[k][r]],
          ar  |-> [r \in 1..w |-> IF k = Len(st) THEN 0 ELSE ws[k + 1] \div w],
          mar |-> [r \in 1..w |-> Cardinality(nodesAt(k, ord[k][r]))],
          cs  |-> [r \in 1..w |-> SetRanges(BlockOf(pu, w, ord[k][r]))],
          size |-> IF st[k][1] \in CacheTypes
                   THEN LET sz == d.lv[FirstLevelOf(d, st[k][1])].size
                            v == IF sz # <<>> THEN SizeL(sz) ELSE IF st[k][1] = L1 THEN <<32768, 0, 0, 0>> ELSE IF st[k][1] = L2 THEN MiB4 ELSE <<0, 256, 0, 0>>
                        IN [r \in 1..w |-> v]
                   ELSE <<>>]
      \* logical order of the NUMA nodes: post-order over the sorted tree, the nodes of one object by os index
      RECURSIVE walk(_, _)
      walk(k, r) ==
        LET j == ord[k][r]
            own == SortBy(nodesAt(k, j), [p \in nodesAt(k, j) |-> nodes[p].os])
            a == IF k < Len(st) THEN ws[k + 1] \div ws[k] ELSE 0
            RECURSIVE kids(_)
            kids(c) == IF c > a THEN <<>> ELSE walk(k + 1, (r - 1) * a + c) \o kids(c + 1)
        IN kids(1) \o [x \in DOMAIN own |-> [p |-> own[x], k |-> k, r |-> r]]
      nl == walk(1, 1)
  IN [depth |-> Len(st), rsym |-> 1,
      lv |-> [k \in DOMAIN st |-> lvrec(k)],
      numa |-> [x \in DOMAIN nl |-> LET n == nodes[nl[x].p] IN
                 [os |-> n.os, mem |-> n.mem, cs |-> SetRanges(BlockOf(pu, n.w, n.j)), pd |-> nl[x].k - 1, pl |-> nl[x].r - 1]]]
=============================================================================
