----------------------------- MODULE BitmapStr -----------------------------
(***************************************************************************)
(* Property C04: bitmap <-> string conversions (hwloc, list and taskset    *)
(* formats) and the snprintf contract.                                     *)
(*                                                                         *)
(* A bitmap value is  [fin |-> S, inf |-> b, n |-> N]  with N a positive   *)
(* multiple of 32 and S \subseteq 0..N-1: the set S, plus every index >= N *)
(* when b.  Texts are TLA+ strings (TLC implements Len, \o and SubSeq on   *)
(* strings, so SubSeq(s,i,i) is the i-th character).                       *)
(*                                                                         *)
(* Three things are defined for each format:                               *)
(*   Render(f, v)      the canonical text (what hwloc is expected to       *)
(*                     produce; implementation choices that the headers do *)
(*                     not document are confined to this operator)         *)
(*   Parse(f, s, out)  the denotation of a string of the DOCUMENTED        *)
(*                     grammar (bitmap.h, hwloc(7)); out = TRUE restricts  *)
(*                     to the documented *output* language                 *)
(*   SnprintfRel       the snprintf contract                               *)
(* Nothing here refers to hwloc's word representation.                     *)
(***************************************************************************)
EXTENDS Integers, Sequences, FiniteSets

Fmts == {"hwloc", "list", "taskset"}

Max2(a, b) == IF a >= b THEN a ELSE b
Min2(a, b) == IF a <= b THEN a ELSE b
SetMax(S) == CHOOSE x \in S : \A y \in S : x >= y
SetMin(S) == CHOOSE x \in S : \A y \in S : x <= y
Ch(s, i) == SubSeq(s, i, i)
Prefix(s, k) == SubSeq(s, 1, k)
StartsWith(s, p) == Len(s) >= Len(p) /\ SubSeq(s, 1, Len(p)) = p
RoundUp32(x) == 32 * ((x + 31) \div 32)

(* ------------------------------ values -------------------------------- *)
ValOK(v) == /\ v.n \in Nat /\ v.n >= 32 /\ v.n % 32 = 0
            /\ v.fin \subseteq 0..(v.n - 1)
            /\ v.inf \in BOOLEAN
Empty == [fin |-> {}, inf |-> FALSE, n |-> 32]
Full  == [fin |-> 0..31, inf |-> TRUE, n |-> 32]
Bit(v, i) == IF i < v.n THEN i \in v.fin ELSE v.inf
\* the same abstract set seen over a larger width
Widen(v, n) == [fin |-> v.fin \cup (IF v.inf THEN v.n..(n - 1) ELSE {}), inf |-> v.inf, n |-> n]
SameSet(a, b) == LET n == Max2(a.n, b.n) IN Widen(a, n) = Widen(b, n)

\* range lists: sequences of <<lo, hi>>, hi = -1 meaning "to infinity"
RangesOK(rs) == \A k \in DOMAIN rs : /\ rs[k][1] \in Nat
                                      /\ ((rs[k][2] = -1) \/ (rs[k][2] \in Nat /\ rs[k][2] >= rs[k][1]))
FromRanges(rs) ==
  LET bounds == {0} \cup {rs[k][1] : k \in DOMAIN rs} \cup {rs[k][2] : k \in DOMAIN rs}
      n == RoundUp32(SetMax(bounds) + 1)
  IN [fin |-> UNION {IF rs[k][2] = -1 THEN rs[k][1]..(n - 1) ELSE rs[k][1]..rs[k][2] : k \in DOMAIN rs},
      inf |-> \E k \in DOMAIN rs : rs[k][2] = -1,
      n   |-> n]

\* maximal ranges of a value, ascending
NextSet(v, i)   == LET S == {j \in v.fin : j >= i} IN IF S # {} THEN SetMin(S) ELSE IF v.inf THEN Max2(i, v.n) ELSE -1
NextUnset(v, i) == LET S == {j \in i..(v.n - 1) : j \notin v.fin} IN IF S # {} THEN SetMin(S) ELSE IF v.inf THEN -1 ELSE Max2(i, v.n)
RECURSIVE RangesFrom(_, _)
RangesFrom(v, i) ==
  LET b == NextSet(v, i) IN
  IF b = -1 THEN <<>>
  ELSE LET e == NextUnset(v, b) IN
       IF e = -1 THEN << <<b, -1>> >> ELSE << <<b, e - 1>> >> \o RangesFrom(v, e)
Ranges(v) == RangesFrom(v, 0)

(* ----------------------------- characters ----------------------------- *)
HexLower  == "0123456789abcdef"
HexUpper  == "0123456789ABCDEF"
HexDigits == "0123456789abcdefABCDEF"
HexChars   == {Ch(HexDigits, i) : i \in 1..22}
LowerChars == {Ch(HexLower, i) : i \in 1..16}
DecChars   == {Ch(HexLower, i) : i \in 1..10}
HexVal == [c \in HexChars |-> LET i == CHOOSE i \in 1..22 : Ch(HexDigits, i) = c IN IF i <= 16 THEN i - 1 ELSE i - 7]
AllIn(s, C) == \A i \in 1..Len(s) : Ch(s, i) \in C

RECURSIVE Dec(_)
Dec(x) == IF x < 10 THEN Ch(HexLower, x + 1) ELSE Dec(x \div 10) \o Ch(HexLower, (x % 10) + 1)

RECURSIVE SplitAt(_, _, _, _)
SplitAt(s, sep, i, start) ==
  IF i > Len(s) THEN <<SubSeq(s, start, Len(s))>>
  ELSE IF Ch(s, i) = sep THEN <<SubSeq(s, start, i - 1)>> \o SplitAt(s, sep, i + 1, i + 1)
  ELSE SplitAt(s, sep, i + 1, start)
Split(s, sep) == SplitAt(s, sep, 1, 1)

RECURSIVE Join(_, _)
Join(ss, sep) == IF ss = <<>> THEN "" ELSE IF Len(ss) = 1 THEN ss[1] ELSE ss[1] \o sep \o Join(Tail(ss), sep)

(* ------------------------- canonical printers -------------------------- *)
Nib(v, q) == (IF Bit(v, 4 * q) THEN 1 ELSE 0) + (IF Bit(v, 4 * q + 1) THEN 2 ELSE 0)
           + (IF Bit(v, 4 * q + 2) THEN 4 ELSE 0) + (IF Bit(v, 4 * q + 3) THEN 8 ELSE 0)
\* hex digits of nibbles hi, hi-1, ..., lo
RECURSIVE Nibs(_, _, _, _)
Nibs(v, hi, lo, alphabet) == IF hi < lo THEN "" ELSE Ch(alphabet, Nib(v, hi) + 1) \o Nibs(v, hi - 1, lo, alphabet)
Group8(v, k) == Nibs(v, 8 * k + 7, 8 * k, HexLower)
NG(v) == v.n \div 32
GZero(v, k) == \A b \in (32 * k)..(32 * k + 31) : ~Bit(v, b)
GFull(v, k) == \A b \in (32 * k)..(32 * k + 31) : Bit(v, b)
\* most significant 32-bit group that has to be written: not absorbed by the
\* implicit zeros of a finite set / the "0xf...f" prefix of an infinite one
TopGroup(v) == LET S == {k \in 0..(NG(v) - 1) : IF v.inf THEN ~GFull(v, k) ELSE ~GZero(v, k)}
               IN IF S = {} THEN -1 ELSE SetMax(S)

\* hwloc format: 32-bit groups, most significant first, separated by commas.
\* A non-zero group is "0x" and 8 digits; a zero group is empty, except the
\* last one which is "0x0".
HwGroup(v, k) == IF ~GZero(v, k) THEN "0x" \o Group8(v, k) ELSE IF k = 0 THEN "0x0" ELSE ""
RECURSIVE HwJoin(_, _)
HwJoin(v, k) == IF k = 0 THEN HwGroup(v, 0) ELSE HwGroup(v, k) \o "," \o HwJoin(v, k - 1)
PrintHwloc(v) ==
  LET t == TopGroup(v) IN
  IF v.inf THEN (IF t = -1 THEN "0xf...f" ELSE "0xf...f," \o HwJoin(v, t))
  ELSE IF t = -1 THEN "0x0" ELSE HwJoin(v, t)

\* taskset format: one hexadecimal number
RECURSIVE StripZeros(_)
StripZeros(s) == IF Len(s) > 1 /\ Ch(s, 1) = "0" THEN StripZeros(SubSeq(s, 2, Len(s))) ELSE s
PrintTaskset(v) ==
  LET t == TopGroup(v) IN
  IF v.inf THEN "0xf...f" \o Nibs(v, 8 * t + 7, 0, HexLower)
  ELSE IF t = -1 THEN "0x0" ELSE "0x" \o StripZeros(Nibs(v, 8 * t + 7, 0, HexLower))

\* list format
RangeTxt(r) == IF r[2] = -1 THEN Dec(r[1]) \o "-" ELSE IF r[1] = r[2] THEN Dec(r[1]) ELSE Dec(r[1]) \o "-" \o Dec(r[2])
PrintList(v) == LET rs == Ranges(v) IN Join([k \in DOMAIN rs |-> RangeTxt(rs[k])], ",")

Render(f, v) == CASE f = "hwloc" -> PrintHwloc(v) [] f = "list" -> PrintList(v) [] f = "taskset" -> PrintTaskset(v)

(* ------------------- parsers of the documented grammars ---------------- *)
NoParse == [ok |-> FALSE, v |-> Empty]
Parsed(v) == [ok |-> TRUE, v |-> v]
\* bits of a hexadecimal digit string whose last digit is nibble q0
DigitBits(ds, q0) == LET m == Len(ds) IN
  UNION {{4 * (q0 + j) + t : t \in {t \in 0..3 : (HexVal[Ch(ds, m - j)] \div (2 ^ t)) % 2 = 1}} : j \in 0..(m - 1)}

\* hwloc: [ "0xf...f" "," ] block { "," block }, block = "0x" 1..8 hex digits,
\* intermediate blocks (and those right after the prefix) may be empty.
\* Output language: a block is empty, "0x0", or "0x" and exactly 8 lower-case digits.
HwBlockOK(b, out) ==
  /\ StartsWith(b, "0x")
  /\ LET ds == SubSeq(b, 3, Len(b)) IN
       IF out THEN b = "0x0" \/ (Len(ds) = 8 /\ AllIn(ds, LowerChars))
       ELSE Len(ds) \in 1..8 /\ AllIn(ds, HexChars)
ParseHwloc(s, out) ==
  LET bl   == Split(s, ",")
      inf  == bl[1] = "0xf...f"
      rest == IF inf THEN Tail(bl) ELSE bl          \* most significant first
      nb   == Len(rest)
      ok   == /\ inf \/ nb >= 1
              /\ nb >= 1 => rest[nb] # ""
              /\ (~inf) => rest[1] # ""
              /\ \A k \in 1..nb : rest[k] = "" \/ HwBlockOK(rest[k], out)
      n    == 32 * Max2(nb, 1)
      bits == UNION {IF rest[k] = "" THEN {} ELSE DigitBits(SubSeq(rest[k], 3, Len(rest[k])), 8 * (nb - k)) : k \in 1..nb}
  IN IF ~ok THEN NoParse
     ELSE Parsed([fin |-> bits \cup (IF nb = 0 THEN 0..31 ELSE {}), inf |-> inf, n |-> n])

\* taskset: "0x" hex digits (at least one), or "0xf...f" hex digits (maybe none):
\* all bits above the written digits are set.
ParseTaskset(s, out) ==
  LET inf == StartsWith(s, "0xf...f")
      ds  == IF inf THEN SubSeq(s, 8, Len(s)) ELSE SubSeq(s, 3, Len(s))
      m   == Len(ds)
      ok  == /\ inf \/ (StartsWith(s, "0x") /\ m >= 1)
             /\ AllIn(ds, IF out THEN LowerChars ELSE HexChars)
      n   == Max2(32, RoundUp32(4 * m))
  IN IF ~ok THEN NoParse
     ELSE Parsed([fin |-> DigitBits(ds, 0) \cup (IF inf THEN (4 * m)..(n - 1) ELSE {}), inf |-> inf, n |-> n])

\* list: items separated by commas; item = index | index "-" index | index "-" (last item only);
\* indexes are decimal without superfluous zeros (at most 7 digits here).
NumOK(t) == Len(t) \in 1..7 /\ AllIn(t, DecChars) /\ (Len(t) > 1 => Ch(t, 1) # "0")
RECURSIVE NumVal(_)
NumVal(t) == IF Len(t) = 0 THEN 0 ELSE 10 * NumVal(SubSeq(t, 1, Len(t) - 1)) + HexVal[Ch(t, Len(t))]
ParseList(s, out) ==
  IF s = "" THEN Parsed(Empty)
  ELSE
  LET items == Split(s, ",")
      ni    == Len(items)
      parts == [k \in 1..ni |-> Split(items[k], "-")]
      ItemOK(k) == LET p == parts[k] IN
         \/ Len(p) = 1 /\ NumOK(p[1])
         \/ Len(p) = 2 /\ NumOK(p[1]) /\ p[2] = "" /\ k = ni
         \/ Len(p) = 2 /\ NumOK(p[1]) /\ NumOK(p[2]) /\ NumVal(p[1]) <= NumVal(p[2])
      ok == \A k \in 1..ni : ItemOK(k)
      rs == [k \in 1..ni |-> LET p == parts[k] IN
                <<NumVal(p[1]), IF Len(p) = 1 THEN NumVal(p[1]) ELSE IF p[2] = "" THEN -1 ELSE NumVal(p[2])>>]
  IN IF ~ok THEN NoParse ELSE Parsed(FromRanges(rs))

Parse(f, s, out) == CASE f = "hwloc" -> ParseHwloc(s, out) [] f = "list" -> ParseList(s, out) [] f = "taskset" -> ParseTaskset(s, out)

\* `text' is a rendering of v in the documented output language of format f
OutOK(f, text, v) == LET p == Parse(f, text, TRUE) IN p.ok /\ SameSet(p.v, v)

(* --------------------------- snprintf contract ------------------------- *)
\* full: the untruncated text; buflen: size given; ret: value returned;
\* nul: offset of the first NUL found in [buf, buf+buflen) or -1; buf: the bytes before it;
\* guards: the bytes outside [buf, buf+buflen) are untouched.
SnprintfRel(full, buflen, ret, nul, buf, guards) ==
  /\ ret = Len(full)
  /\ guards
  /\ buflen > 0 => /\ nul = Min2(buflen - 1, Len(full))
                   /\ buf = Prefix(full, nul)
  /\ buflen = 0 => nul = -1 /\ buf = ""
SnprintfDo(full, buflen) ==
  [ret |-> Len(full),
   nul |-> IF buflen = 0 THEN -1 ELSE Min2(buflen - 1, Len(full)),
   buf |-> IF buflen = 0 THEN "" ELSE Prefix(full, Min2(buflen - 1, Len(full)))]

\* sscanf: a string of the documented grammar is accepted and yields its denotation;
\* anything else is accepted or refused (0 / -1)
SscanfRel(f, str, ret, res) ==
  LET p == Parse(f, str, FALSE) IN
  IF p.ok THEN ret = 0 /\ SameSet(res, p.v) ELSE ret \in {0, -1}

(* ------------- other strings of the documented input grammars ---------- *)
\* (used by the model to exercise sscanf; each denotes v)
RECURSIVE Strip0(_)
Strip0(ds) == IF Len(ds) > 1 /\ Ch(ds, 1) = "0" THEN Strip0(SubSeq(ds, 2, Len(ds))) ELSE ds
HwGroupVar(v, k, style) ==
  CASE style = "upper" -> IF ~GZero(v, k) THEN "0x" \o Nibs(v, 8 * k + 7, 8 * k, HexUpper) ELSE IF k = 0 THEN "0x0" ELSE ""
    [] style = "short" -> IF ~GZero(v, k) THEN "0x" \o Strip0(Group8(v, k)) ELSE IF k = 0 THEN "0x0" ELSE ""
    [] style = "zeros" -> "0x" \o Group8(v, k)
    [] OTHER -> HwGroup(v, k)
RECURSIVE HwJoinVar(_, _, _)
HwJoinVar(v, k, style) == IF k = 0 THEN HwGroupVar(v, 0, style) ELSE HwGroupVar(v, k, style) \o "," \o HwJoinVar(v, k - 1, style)
\* style "lead1"/"lead2": one or two superfluous leading groups
HwlocVar(v, style) ==
  LET t == TopGroup(v)
      lead == IF style = "lead1" THEN 1 ELSE IF style = "lead2" THEN 2 ELSE 0
      pad == IF v.inf THEN "0xffffffff" ELSE "0x0"
      pre == IF lead = 0 THEN "" ELSE IF lead = 1 THEN pad \o "," ELSE pad \o "," \o pad \o ","
      body == IF t = -1 THEN (IF v.inf THEN (IF lead = 0 THEN "" ELSE SubSeq(pre, 1, Len(pre) - 1)) ELSE pre \o "0x0")
              ELSE pre \o HwJoinVar(v, t, style)
  IN IF v.inf THEN (IF body = "" THEN "0xf...f" ELSE "0xf...f," \o body) ELSE body
HwlocStyles == {"upper", "short", "zeros", "lead1", "lead2"}

RECURSIVE Rep(_, _)
Rep(c, k) == IF k = 0 THEN "" ELSE c \o Rep(c, k - 1)
\* style "upper"; "lead<k>": k superfluous leading digits (0 for a finite set, f after the prefix)
TasksetVar(v, style) ==
  LET t == TopGroup(v)
      alpha == IF style = "upper" THEN HexUpper ELSE HexLower
      k == CASE style = "lead1" -> 1 [] style = "lead8" -> 8 [] style = "lead9" -> 9 [] style = "lead16" -> 16 [] OTHER -> 0
  IN IF v.inf THEN "0xf...f" \o Rep(Ch(alpha, 16), k) \o Nibs(v, 8 * t + 7, 0, alpha)
     ELSE "0x" \o Rep("0", k) \o (IF t = -1 THEN "0" ELSE (IF k = 0 THEN StripZeros(Nibs(v, 8 * t + 7, 0, alpha)) ELSE Nibs(v, 8 * t + 7, 0, alpha)))
TasksetStyles == {"upper", "lead1", "lead8", "lead9", "lead16"}

\* list variants: "rev" finite items in descending order; "single" short ranges as single indexes;
\* "dup" the first item repeated; "overlap" every finite range also given as two overlapping halves
RECURSIVE Singles(_, _)
Singles(a, b) == IF a = b THEN Dec(a) ELSE Dec(a) \o "," \o Singles(a + 1, b)
ListVar(v, style) ==
  LET rs  == Ranges(v)
      nr  == Len(rs)
      inf == nr > 0 /\ rs[nr][2] = -1
      nf  == IF inf THEN nr - 1 ELSE nr
      Item(k) == CASE style = "single" /\ rs[k][2] - rs[k][1] \in 1..3 -> Singles(rs[k][1], rs[k][2])
                   [] style = "overlap" /\ rs[k][2] - rs[k][1] >= 2 ->
                        Dec(rs[k][1]) \o "-" \o Dec(rs[k][2] - 1) \o "," \o Dec(rs[k][1] + 1) \o "-" \o Dec(rs[k][2])
                   [] OTHER -> RangeTxt(rs[k])
      fins == IF style = "rev" THEN [k \in 1..nf |-> Item(nf + 1 - k)] ELSE [k \in 1..nf |-> Item(k)]
      dup  == IF style = "dup" /\ nf >= 1 THEN <<Item(1)>> ELSE <<>>
      tail == IF inf THEN <<RangeTxt(rs[nr])>> ELSE <<>>
  IN Join(fins \o dup \o tail, ",")
ListStyles == {"rev", "single", "dup", "overlap"}

Styles(f) == CASE f = "hwloc" -> HwlocStyles [] f = "list" -> ListStyles [] f = "taskset" -> TasksetStyles
Variant(f, v, style) == CASE f = "hwloc" -> HwlocVar(v, style) [] f = "list" -> ListVar(v, style) [] f = "taskset" -> TasksetVar(v, style)

(* ------------------- the length of the text as a dimension -------------- *)
(* The statement quantifies over all bitmaps; what a printer, an asprintf    *)
(* wrapper or a parser does may depend on how LONG the text is (a fixed     *)
(* intermediate buffer, a size computed in a first pass, a chunked copy),   *)
(* whatever the words of the bitmap look like.  The ladder of a format is   *)
(* a set of values whose canonical texts take, between them, every length   *)
(* the format can produce up to a bound (generation only, never judged).    *)
(* Candidates are regular sets given by a descriptor <<a, b, c, d>> of four *)
(* integers; DescLen is the length the grammar gives their text (counted on *)
(* the descriptor, so that thousands of candidates need not be rendered);   *)
(* the model keeps one candidate per (length, finite/infinite) and checks   *)
(* on each of them that the printer of this module agrees (LadderLaw).      *)
(***************************************************************************)
\* list <<s, n, w, tail>>: n items of w consecutive indexes, one index apart, from s on; tail = 1: the last item runs to infinity
StrideRanges(s, n, w, tail) ==
  [k \in 1..n |-> LET a == s + (k - 1) * (w + 1) IN <<a, IF tail = 1 /\ k = n THEN -1 ELSE a + w - 1>>]
RECURSIVE SumItemLen(_, _)
SumItemLen(rs, k) == IF k = 0 THEN 0 ELSE Len(RangeTxt(rs[k])) + SumItemLen(rs, k - 1)
\* items and the commas between them
ListLenOf(rs) == IF Len(rs) = 0 THEN 0 ELSE SumItemLen(rs, Len(rs)) + Len(rs) - 1
\* an item costs at least 3 characters ("10,") except the few below 10: n <= maxlen/3 + 5 reaches every length <= maxlen
ListDescs(maxlen) == {<<s, n, w, tl>> : s \in {0, 2, 4, 6, 8, 10}, n \in 0..(maxlen \div 3 + 5), w \in 1..2, tl \in 0..1}

\* taskset <<kind, k, dense, 0>>: kind 0 the empty set, 1 the full set;
\* kind 2, finite: k digits, the most significant one is 1 (all the others 0) or, dense, f (all the others f);
\* kind 3, infinite: the digits of k+1 whole groups after the prefix, the top one fffffffe, the lower ones all zero or, dense, all full
TasksetDescs(maxlen) == {<<0, 0, 0, 0>>, <<1, 0, 0, 0>>}
                        \cup {<<2, k, dense, 0>> : k \in 1..Max2(1, maxlen - 2), dense \in 0..1}
                        \cup {<<3, g, dense, 0>> : g \in 0..(maxlen \div 8), dense \in 0..1}
TasksetDescVal(d) ==
  CASE d[1] = 0 -> Empty
    [] d[1] = 1 -> Full
    [] d[1] = 2 -> [fin |-> IF d[3] = 1 THEN 0..(4 * d[2] - 1) ELSE {4 * (d[2] - 1)}, inf |-> FALSE, n |-> RoundUp32(4 * d[2])]
    [] d[1] = 3 -> [fin |-> (IF d[3] = 1 THEN 0..(32 * d[2] - 1) ELSE {}) \cup ((32 * d[2] + 1)..(32 * d[2] + 31)), inf |-> TRUE, n |-> 32 * (d[2] + 1)]
TasksetDescLen(d) == CASE d[1] = 0 -> 3 [] d[1] = 1 -> 7 [] d[1] = 2 -> 2 + d[2] [] d[1] = 3 -> 7 + 8 * (d[2] + 1)

\* hwloc <<t, m, low, inf>>: top written group t (t = -1: none, the empty or the full set); one bit of it is set, so that
\* it is neither zero nor full, or (low >= 2, infinite sets only) it is zero; the m < t groups 1..m are full, group 0 is
\* full (low odd) or zero: the text has t commas, 1 + m (+ 1) groups of ten characters, nothing for a zero group above
\* group 0, "0x0" for a zero group 0, and the "0xf...f," prefix of an infinite set
HwlocDescs(maxlen) ==
  {<<-1, 0, 0, inf>> : inf \in 0..1}
  \cup {<<tm[1], tm[2], li[1], li[2]>> :
          tm \in {x \in (0..(maxlen \div 8 + 2)) \X (0..(maxlen \div 10)) : x[2] < Max2(x[1], 1)},
          li \in {x \in (0..3) \X (0..1) : x[1] >= 2 => x[2] = 1}}
HwlocDescVal(d) ==
  IF d[1] = -1 THEN (IF d[4] = 1 THEN Full ELSE Empty)
  ELSE [fin |-> (IF d[3] >= 2 THEN {} ELSE {32 * d[1]}) \cup (IF d[3] % 2 = 1 /\ d[1] > 0 THEN 0..31 ELSE {})
                \cup (IF d[2] > 0 THEN 32..(32 * d[2] + 31) ELSE {}),
        inf |-> d[4] = 1, n |-> 32 * (d[1] + 1)]
HwlocDescLen(d) ==
  IF d[1] = -1 THEN (IF d[4] = 1 THEN 7 ELSE 3)
  ELSE (IF d[4] = 1 THEN 8 ELSE 0) + d[1] + 10 * d[2]
       + (IF d[3] < 2 THEN 10 ELSE IF d[1] = 0 THEN 3 ELSE 0)
       + (IF d[1] = 0 THEN 0 ELSE IF d[3] % 2 = 1 THEN 10 ELSE 3)

Descs(f, maxlen) == CASE f = "list" -> ListDescs(maxlen) [] f = "taskset" -> TasksetDescs(maxlen) [] f = "hwloc" -> HwlocDescs(maxlen)
DescVal(f, d) == CASE f = "list" -> FromRanges(StrideRanges(d[1], d[2], d[3], d[4])) [] f = "taskset" -> TasksetDescVal(d) [] f = "hwloc" -> HwlocDescVal(d)
DescLen(f, d) == CASE f = "list" -> ListLenOf(StrideRanges(d[1], d[2], d[3], d[4])) [] f = "taskset" -> TasksetDescLen(d) [] f = "hwloc" -> HwlocDescLen(d)
DescInf(f, d) == CASE f = "list" -> d[4] = 1 /\ d[2] > 0 [] f = "taskset" -> d[1] \in {1, 3} [] f = "hwloc" -> d[4] = 1
\* <<length, infinite, value>>: one candidate per (length of the text, finite/infinite)
Ladder(f, maxlen) ==
  LET P == {<<DescLen(f, d), DescInf(f, d), d>> : d \in Descs(f, maxlen)}
      K == {<<p[1], p[2]>> : p \in {q \in P : q[1] <= maxlen}}
      One(k) == CHOOSE p \in P : p[1] = k[1] /\ p[2] = k[2]
  IN {<<k[1], k[2], DescVal(f, One(k)[3])>> : k \in K}
\* the lengths each documented output language allows (read off the grammars of the parsers above):
\* list: every length; taskset: "0x" and at least one digit; hwloc: "0x0", "0xf...f", or groups of ten characters,
\* commas and possibly "0x0": nothing between "0x0", "0xf...f", one group, and "0xf...f,0x0"
LadderNeeds(f, maxlen) ==
  CASE f = "list" -> 0..maxlen
    [] f = "taskset" -> 3..maxlen
    [] f = "hwloc" -> ({3, 7, 10} \cup (11..maxlen)) \cap (0..maxlen)

(* --------- laws of this oracle itself (checked by TLC on the model) ----- *)
RoundTripLaw(v) == \A f \in Fmts :
  /\ OutOK(f, Render(f, v), v)                                   \* canonical text is in the output language and denotes v
  /\ LET p == Parse(f, Render(f, v), FALSE) IN
       /\ p.ok /\ SameSet(p.v, v)
       /\ Render(f, p.v) = Render(f, v)                           \* canonical text does not depend on the width n
VariantLaw(v) == \A f \in Fmts : \A st \in Styles(f) :
  LET p == Parse(f, Variant(f, v, st), FALSE) IN p.ok /\ SameSet(p.v, v)
=============================================================================
