SPECIFICATION Spec
CONSTANTS
  Readers <- R
  Indep <- I
  NDist = 2
  NAttr = 2
  NEnv = 2
  Discipline = FALSE
  MaxModify = 2
INVARIANTS TypeOK NoReaderWrite NoRace RegistryOK
CHECK_DEADLOCK FALSE
